#!/bin/sh
# Build the MIR fact extractor and warm the per-configuration dependency caches. Offline.
set -e
cd "$(dirname "$0")"
export CARGO_NET_OFFLINE=true
(cd tools/mirfacts && cargo build --offline)
python3 analysis/facts.py log >/dev/null
python3 analysis/facts.py nofeat >/dev/null
python3 analysis/facts.py defmt >/dev/null
echo "setup ok"
