//! Compile-fail witnesses for the type-level parts of C08 / C17 (DESIGN 3, TW1-TW7).
//! Every `compile_fail,E....` doctest is paired with a compiling twin that differs only by the offending line,
//! so that a witness whose setup is merely wrong cannot pass.
//! Run with `cargo +nightly test --doc --offline` (error codes are only checked on nightly).

/// Shared prelude used by the witnesses.
///
/// ```
/// use sdmmc_witness::*;
/// let vm = mgr();
/// let _ = vm.has_open_handles();
/// ```
pub use embedded_sdmmc::*;

/// A block device that stores nothing.
pub struct Dev;
impl BlockDevice for Dev {
    type Error = ();
    fn read(&self, _b: &mut [Block], _i: BlockIdx) -> Result<(), ()> {
        Ok(())
    }
    fn write(&self, _b: &[Block], _i: BlockIdx) -> Result<(), ()> {
        Ok(())
    }
    fn num_blocks(&self) -> Result<BlockCount, ()> {
        Ok(BlockCount(0))
    }
}
/// A clock that always says 1970.
pub struct Clock;
impl TimeSource for Clock {
    fn get_timestamp(&self) -> Timestamp {
        Timestamp { year_since_1970: 0, zero_indexed_month: 0, zero_indexed_day: 0, hours: 0, minutes: 0, seconds: 0 }
    }
}
/// A manager over the dummy device.
pub fn mgr() -> VolumeManager<Dev, Clock> {
    VolumeManager::new(Dev, Clock)
}

/// TW1: a `File` cannot be used after `close()` consumed it.
/// ```compile_fail,E0382
/// use sdmmc_witness::*;
/// fn f(file: File<Dev, Clock, 4, 4, 1>) {
///     let _ = file.close();
///     let _ = file.length(); // use after close
/// }
/// ```
/// twin:
/// ```
/// use sdmmc_witness::*;
/// fn f(file: File<Dev, Clock, 4, 4, 1>) {
///     let _ = file.length();
///     let _ = file.close();
/// }
/// ```
pub struct TW1;

/// TW1b: the same for `Directory` and `Volume`.
/// ```compile_fail,E0382
/// use sdmmc_witness::*;
/// fn f(dir: Directory<Dev, Clock, 4, 4, 1>, vol: Volume<Dev, Clock, 4, 4, 1>) {
///     let _ = dir.close();
///     let _ = vol.close();
///     let _ = dir.iterate_dir(|_| {});
/// }
/// ```
/// twin:
/// ```
/// use sdmmc_witness::*;
/// fn f(dir: Directory<Dev, Clock, 4, 4, 1>, vol: Volume<Dev, Clock, 4, 4, 1>) {
///     let _ = dir.iterate_dir(|_| {});
///     let _ = dir.close();
///     let _ = vol.close();
/// }
/// ```
pub struct TW1b;

/// TW2: the manager cannot be consumed (`free`) while a wrapper borrows it.
/// ```compile_fail,E0505
/// use sdmmc_witness::*;
/// let vm = mgr();
/// let vol = vm.open_volume(VolumeIdx(0));
/// let _parts = vm.free(); // moved while `vol` still borrows vm
/// drop(vol);
/// ```
/// twin:
/// ```
/// use sdmmc_witness::*;
/// let vm = mgr();
/// let vol = vm.open_volume(VolumeIdx(0));
/// drop(vol);
/// let _parts = vm.free();
/// ```
pub struct TW2;

/// TW3: handle kinds are distinct types.
/// ```compile_fail,E0308
/// use sdmmc_witness::*;
/// fn f(vm: &VolumeManager<Dev, Clock>, file: RawFile) {
///     let _ = vm.close_dir(file); // a RawFile is not a RawDirectory
/// }
/// ```
/// twin:
/// ```
/// use sdmmc_witness::*;
/// fn f(vm: &VolumeManager<Dev, Clock>, file: RawFile) {
///     let _ = vm.close_file(file);
/// }
/// ```
pub struct TW3;

/// TW4: the manager's state is private.
/// ```compile_fail,E0616
/// use sdmmc_witness::*;
/// let vm = mgr();
/// let _ = &vm.data; // private field
/// ```
/// twin:
/// ```
/// use sdmmc_witness::*;
/// let vm = mgr();
/// let _ = &vm;
/// ```
pub struct TW4;

/// TW5: raw handles cannot be forged from integers.
/// ```compile_fail,E0603
/// use sdmmc_witness::*;
/// let _h = embedded_sdmmc::filesystem::Handle(7); // private field
/// ```
/// ```compile_fail,E0423
/// use sdmmc_witness::*;
/// fn f(h: embedded_sdmmc::filesystem::Handle) {
///     let _f = RawFile(h); // private field
/// }
/// ```
/// twin:
/// ```
/// use sdmmc_witness::*;
/// fn f(h: embedded_sdmmc::filesystem::Handle) -> embedded_sdmmc::filesystem::Handle {
///     h
/// }
/// ```
pub struct TW5;

/// TW6: the cache's device and tag are private (all device access goes through the cache protocol).
/// ```compile_fail,E0616
/// use sdmmc_witness::*;
/// let mut c = BlockCache::new(Dev);
/// let _ = &mut c.block_idx; // private field
/// ```
/// twin:
/// ```
/// use sdmmc_witness::*;
/// let mut c = BlockCache::new(Dev);
/// let _ = c.block_device();
/// ```
pub struct TW6;

/// TW7: the long-name buffer's fields are private and its storage is exclusively borrowed while the buffer lives.
/// ```compile_fail,E0616
/// use sdmmc_witness::*;
/// let mut storage = [0u8; 16];
/// let b = LfnBuffer::new(&mut storage);
/// let _ = b.free; // private field
/// ```
/// ```compile_fail,E0499
/// use sdmmc_witness::*;
/// let mut storage = [0u8; 16];
/// let b = LfnBuffer::new(&mut storage);
/// let s2 = &mut storage; // second mutable borrow while the buffer is alive
/// s2[0] = 0xFF;
/// let _ = b.as_str();
/// ```
/// twin:
/// ```
/// use sdmmc_witness::*;
/// let mut storage = [0u8; 16];
/// let b = LfnBuffer::new(&mut storage);
/// let _ = b.as_str();
/// let s2 = &mut storage;
/// s2[0] = 0xFF;
/// ```
pub struct TW7;
