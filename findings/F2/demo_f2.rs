//! F2: `open_file_in_dir` treats *any* error from the directory look-up as
//! "the file does not exist" when a create mode is used. A single transient
//! read error while scanning the directory therefore makes it create a SECOND
//! directory entry for a file that already exists.
//!
//! The test opens the existing `README.TXT` in the root directory with each of
//! the three create modes while exactly one read of the directory fails. The
//! user is entitled to get `Error::DeviceError` back and to find the directory
//! unchanged.

use std::cell::RefCell;
use std::rc::Rc;

use embedded_sdmmc::{
    Block, BlockCount, BlockDevice, BlockIdx, Error, Mode, RawDirectory, VolumeIdx, VolumeManager,
};

mod utils;

// ---------------------------------------------------------------------------
// Fault-injecting, read-logging block device
// ---------------------------------------------------------------------------

#[derive(Debug)]
#[allow(dead_code)]
enum DevError {
    /// A read we were told to fail
    Injected(BlockIdx),
    /// An error from the RAM disk
    Inner(utils::Error),
}

#[derive(Default)]
struct Ctl {
    /// Fail the next read of this block (once)
    fail_once: Option<u32>,
    /// Blocks for which we returned an injected error
    tripped: Vec<u32>,
    /// Every block read, when `Some`
    log: Option<Vec<u32>>,
}

struct FaultyDisk<D> {
    inner: D,
    ctl: Rc<RefCell<Ctl>>,
}

impl<D> BlockDevice for FaultyDisk<D>
where
    D: BlockDevice<Error = utils::Error>,
{
    type Error = DevError;

    fn read(&self, blocks: &mut [Block], start_block_idx: BlockIdx) -> Result<(), Self::Error> {
        {
            let mut ctl = self.ctl.borrow_mut();
            if let Some(log) = ctl.log.as_mut() {
                log.push(start_block_idx.0);
            }
            if ctl.fail_once == Some(start_block_idx.0) {
                ctl.fail_once = None;
                ctl.tripped.push(start_block_idx.0);
                return Err(DevError::Injected(start_block_idx));
            }
        }
        self.inner
            .read(blocks, start_block_idx)
            .map_err(DevError::Inner)
    }

    fn write(&self, blocks: &[Block], start_block_idx: BlockIdx) -> Result<(), Self::Error> {
        self.inner
            .write(blocks, start_block_idx)
            .map_err(DevError::Inner)
    }

    fn num_blocks(&self) -> Result<BlockCount, Self::Error> {
        self.inner.num_blocks().map_err(DevError::Inner)
    }
}

type Mgr = VolumeManager<FaultyDisk<utils::RamDisk<Vec<u8>>>, utils::TestTimeSource, 4, 4, 1>;

fn count_readmes(mgr: &Mgr, dir: RawDirectory) -> usize {
    let mut n = 0;
    mgr.iterate_dir(dir, |de| {
        if de.name.to_string() == "README.TXT" {
            n += 1;
        }
    })
    .expect("list directory");
    n
}

fn check(volume: usize, mode: Mode) {
    let disk = utils::make_block_device(utils::DISK_SOURCE).unwrap();
    let ctl = Rc::new(RefCell::new(Ctl::default()));
    let mgr: Mgr = VolumeManager::new(
        FaultyDisk {
            inner: disk,
            ctl: ctl.clone(),
        },
        utils::make_time_source(),
    );
    let vol = mgr.open_raw_volume(VolumeIdx(volume)).expect("open volume");
    let root = mgr.open_root_dir(vol).expect("open root");
    let test_dir = mgr.open_dir(root, "TEST").expect("open TEST");

    // Evict whatever the single-block cache holds by looking at another dir.
    let evict_cache = || {
        mgr.find_directory_entry(test_dir, "TEST.DAT")
            .expect("find TEST.DAT");
    };

    // The file exists, exactly once.
    assert_eq!(count_readmes(&mgr, root), 1);

    // Which blocks does a look-up of README.TXT read? (Just directory blocks:
    // the entry is found before the FAT needs to be consulted.)
    evict_cache();
    ctl.borrow_mut().log = Some(Vec::new());
    mgr.find_directory_entry(root, "README.TXT")
        .expect("healthy lookup");
    let lookup_reads = ctl.borrow_mut().log.take().unwrap();
    assert!(!lookup_reads.is_empty());

    // Now open the existing file in a create mode, while the first directory
    // read fails - once. Every other read and every write works.
    evict_cache();
    ctl.borrow_mut().fail_once = Some(lookup_reads[0]);
    let result = mgr.open_file_in_dir(root, "README.TXT", mode);
    assert_eq!(
        ctl.borrow().tripped,
        vec![lookup_reads[0]],
        "the fault was not triggered"
    );
    ctl.borrow_mut().fail_once = None;
    let result_str = format!("{:?}", result);
    if let Ok(f) = result {
        mgr.close_file(f).expect("close file");
    }

    evict_cache();
    let readmes = count_readmes(&mgr, root);
    assert!(
        readmes == 1 && result_str.starts_with("Err(DeviceError(Injected("),
        "a directory read failed while opening existing README.TXT with {:?}: \
         open_file_in_dir returned {} and the directory now holds {} entries called README.TXT",
        mode,
        result_str,
        readmes
    );
}

#[test]
fn f2_fat16_create_or_append_existing_file_with_read_error() {
    check(0, Mode::ReadWriteCreateOrAppend);
}

#[test]
fn f2_fat16_create_or_truncate_existing_file_with_read_error() {
    check(0, Mode::ReadWriteCreateOrTruncate);
}

#[test]
fn f2_fat16_create_existing_file_with_read_error() {
    check(0, Mode::ReadWriteCreate);
}

#[test]
fn f2_fat32_create_or_append_existing_file_with_read_error() {
    check(1, Mode::ReadWriteCreateOrAppend);
}

/// The fix must not break creating files that really do not exist, nor the
/// error for opening a missing file without a create mode.
#[test]
fn f2_creating_missing_files_still_works() {
    let disk = utils::make_block_device(utils::DISK_SOURCE).unwrap();
    let mgr = VolumeManager::new(disk, utils::make_time_source());
    let vol = mgr.open_raw_volume(VolumeIdx(0)).unwrap();
    let root = mgr.open_root_dir(vol).unwrap();
    for (name, mode) in [
        ("A.TXT", Mode::ReadWriteCreate),
        ("B.TXT", Mode::ReadWriteCreateOrAppend),
        ("C.TXT", Mode::ReadWriteCreateOrTruncate),
    ] {
        let f = mgr.open_file_in_dir(root, name, mode).expect("create");
        mgr.close_file(f).unwrap();
        mgr.find_directory_entry(root, name).expect("exists now");
    }
    assert!(matches!(
        mgr.open_file_in_dir(root, "MISSING.TXT", Mode::ReadOnly),
        Err(Error::NotFound)
    ));
    assert!(matches!(
        mgr.open_file_in_dir(root, "A.TXT", Mode::ReadWriteCreate),
        Err(Error::FileAlreadyExists)
    ));
}
