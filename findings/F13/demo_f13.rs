//! F13: opening a volume must never panic, whatever the boot sector says.
//!
//! `Bpb::create_from_bytes` and `fat::parse_volume` do unchecked arithmetic on
//! fields read straight off the disk. With overflow checks on (dev / test
//! profiles) a corrupt or hostile boot sector makes
//! `VolumeManager::open_raw_volume` panic (divide by zero, subtract / multiply
//! / add with overflow) instead of returning `Error::FormatError`.
//!
//! Every test here builds a tiny sparse in-memory disk (MBR + boot sector
//! [+ FSInfo sector]) and asserts that opening the volume *returns*.

use std::collections::HashMap;
use std::panic::{catch_unwind, AssertUnwindSafe};

use embedded_sdmmc::{
    Block, BlockCount, BlockDevice, BlockIdx, Error, RawVolume, TimeSource, Timestamp, VolumeIdx,
    VolumeManager,
};

// ---------------------------------------------------------------------------
// A sparse block device: only the blocks we explicitly set exist with content,
// everything else reads as zeroes. Covers the whole 32-bit block space so we
// can put a partition right at the end of it.
// ---------------------------------------------------------------------------

#[derive(Default)]
struct SparseDisk {
    blocks: HashMap<u32, [u8; 512]>,
}

impl SparseDisk {
    fn set(&mut self, idx: u32, data: [u8; 512]) {
        self.blocks.insert(idx, data);
    }
}

impl BlockDevice for SparseDisk {
    type Error = ();

    fn read(&self, blocks: &mut [Block], start_block_idx: BlockIdx) -> Result<(), ()> {
        for (i, block) in blocks.iter_mut().enumerate() {
            let idx = start_block_idx.0.checked_add(i as u32).ok_or(())?;
            match self.blocks.get(&idx) {
                Some(data) => block.contents.copy_from_slice(data),
                None => block.contents.fill(0),
            }
        }
        Ok(())
    }

    fn write(&self, _blocks: &[Block], _start_block_idx: BlockIdx) -> Result<(), ()> {
        Err(())
    }

    fn num_blocks(&self) -> Result<BlockCount, ()> {
        Ok(BlockCount(u32::MAX))
    }
}

struct Clock;

impl TimeSource for Clock {
    fn get_timestamp(&self) -> Timestamp {
        Timestamp {
            year_since_1970: 33,
            zero_indexed_month: 3,
            zero_indexed_day: 3,
            hours: 13,
            minutes: 30,
            seconds: 5,
        }
    }
}

// ---------------------------------------------------------------------------
// Sector builders
// ---------------------------------------------------------------------------

fn put16(b: &mut [u8; 512], off: usize, v: u16) {
    b[off..off + 2].copy_from_slice(&v.to_le_bytes());
}

fn put32(b: &mut [u8; 512], off: usize, v: u32) {
    b[off..off + 4].copy_from_slice(&v.to_le_bytes());
}

/// An MBR with one partition (slot 0).
fn mbr(part_type: u8, lba_start: u32, num_blocks: u32) -> [u8; 512] {
    let mut b = [0u8; 512];
    b[446] = 0x00; // status: not bootable
    b[446 + 4] = part_type;
    put32(&mut b, 446 + 8, lba_start);
    put32(&mut b, 446 + 12, num_blocks);
    put16(&mut b, 510, 0xAA55);
    b
}

/// The boot-sector fields that the library looks at when opening a volume.
#[derive(Clone, Copy, Debug)]
struct BootSector {
    bytes_per_block: u16,
    blocks_per_cluster: u8,
    reserved_block_count: u16,
    num_fats: u8,
    root_entries_count: u16,
    total_blocks16: u16,
    fat_size16: u16,
    total_blocks32: u32,
    fat_size32: u32,
    fs_ver: u16,
    first_root_dir_cluster: u32,
    fs_info: u16,
}

impl BootSector {
    /// A perfectly sane FAT16 boot sector: 8192 clusters of 4 blocks.
    fn good_fat16() -> BootSector {
        BootSector {
            bytes_per_block: 512,
            blocks_per_cluster: 4,
            reserved_block_count: 1,
            num_fats: 2,
            root_entries_count: 512, // 32 blocks
            total_blocks16: 0,
            fat_size16: 32,
            total_blocks32: 1 + 2 * 32 + 32 + 8192 * 4,
            fat_size32: 0,
            fs_ver: 0,
            first_root_dir_cluster: 0,
            fs_info: 0,
        }
    }

    /// A perfectly sane FAT32 boot sector: 70000 clusters of 1 block.
    fn good_fat32() -> BootSector {
        BootSector {
            bytes_per_block: 512,
            blocks_per_cluster: 1,
            reserved_block_count: 32,
            num_fats: 2,
            root_entries_count: 0,
            total_blocks16: 0,
            fat_size16: 0,
            total_blocks32: 32 + 2 * 1024 + 70000,
            fat_size32: 1024,
            fs_ver: 0,
            first_root_dir_cluster: 2,
            fs_info: 1,
        }
    }

    fn to_bytes(self) -> [u8; 512] {
        let mut b = [0u8; 512];
        b[0] = 0xEB;
        b[1] = 0x3C;
        b[2] = 0x90;
        b[3..11].copy_from_slice(b"MSDOS5.0");
        put16(&mut b, 11, self.bytes_per_block);
        b[13] = self.blocks_per_cluster;
        put16(&mut b, 14, self.reserved_block_count);
        b[16] = self.num_fats;
        put16(&mut b, 17, self.root_entries_count);
        put16(&mut b, 19, self.total_blocks16);
        b[21] = 0xF8;
        put16(&mut b, 22, self.fat_size16);
        put32(&mut b, 32, self.total_blocks32);
        put32(&mut b, 36, self.fat_size32);
        put16(&mut b, 42, self.fs_ver);
        put32(&mut b, 44, self.first_root_dir_cluster);
        put16(&mut b, 48, self.fs_info);
        put16(&mut b, 510, 0xAA55);
        b
    }
}

/// A valid FAT32 FSInfo sector.
fn fs_info_sector() -> [u8; 512] {
    let mut b = [0u8; 512];
    put32(&mut b, 0, 0x4161_5252);
    put32(&mut b, 484, 0x6141_7272);
    put32(&mut b, 488, 0xFFFF_FFFF);
    put32(&mut b, 492, 0xFFFF_FFFF);
    put32(&mut b, 508, 0xAA55_0000);
    b
}

/// Build a disk with the given boot sector at `lba_start`, and a valid FSInfo
/// sector wherever the boot sector says it is (if that is representable).
fn disk_with(part_type: u8, lba_start: u32, boot: BootSector) -> SparseDisk {
    let mut disk = SparseDisk::default();
    disk.set(0, mbr(part_type, lba_start, boot.total_blocks32));
    disk.set(lba_start, boot.to_bytes());
    if boot.fs_info != 0 {
        if let Some(idx) = lba_start.checked_add(u32::from(boot.fs_info)) {
            disk.set(idx, fs_info_sector());
        }
    }
    disk
}

type OpenResult = Result<RawVolume, Error<()>>;

/// Try to open volume 0. `Err(msg)` means the library panicked with `msg`.
fn try_open(disk: SparseDisk) -> Result<OpenResult, String> {
    let mgr: VolumeManager<SparseDisk, Clock, 4, 4, 1> =
        VolumeManager::new_with_limits(disk, Clock, 0x1000);
    catch_unwind(AssertUnwindSafe(|| mgr.open_raw_volume(VolumeIdx(0)))).map_err(|payload| {
        if let Some(s) = payload.downcast_ref::<&str>() {
            s.to_string()
        } else if let Some(s) = payload.downcast_ref::<String>() {
            s.clone()
        } else {
            String::from("<non-string panic payload>")
        }
    })
}

/// The behaviour a user is entitled to for a nonsensical boot sector: an
/// `Error::FormatError`, not a panic.
fn assert_rejected(what: &str, disk: SparseDisk) {
    match try_open(disk) {
        Ok(Err(Error::FormatError(_))) => {}
        Ok(other) => {
            panic!("{what}: expected Err(FormatError(_)), open_raw_volume returned {other:?}")
        }
        Err(msg) => panic!(
            "{what}: open_raw_volume PANICKED with {msg:?} instead of returning Err(FormatError(_))"
        ),
    }
}

// ---------------------------------------------------------------------------
// Controls: these pass before and after the fix. They show that the synthetic
// disks really are well-formed, so the failures below are down to the one
// corrupted field only (and that the fix does not over-reject).
// ---------------------------------------------------------------------------

#[test]
fn control_good_fat16_opens() {
    let r = try_open(disk_with(0x06, 2048, BootSector::good_fat16()));
    assert!(matches!(r, Ok(Ok(_))), "got {r:?}");
}

#[test]
fn control_good_fat32_opens() {
    let r = try_open(disk_with(0x0C, 2048, BootSector::good_fat32()));
    assert!(matches!(r, Ok(Ok(_))), "got {r:?}");
}

#[test]
fn control_fat32_in_last_usable_position_opens() {
    // lba_start + fs_info == u32::MAX exactly: still representable, must open.
    let r = try_open(disk_with(0x0C, u32::MAX - 1, BootSector::good_fat32()));
    assert!(matches!(r, Ok(Ok(_))), "got {r:?}");
}

// ---------------------------------------------------------------------------
// The defects
// ---------------------------------------------------------------------------

/// `data_blocks / u32::from(bpb.blocks_per_cluster())` with the field == 0.
#[test]
fn blocks_per_cluster_zero() {
    let mut boot = BootSector::good_fat16();
    boot.blocks_per_cluster = 0;
    assert_rejected("blocks_per_cluster = 0", disk_with(0x06, 2048, boot));
}

/// `bpb.total_blocks() - non_data_blocks` underflows.
#[test]
fn total_blocks_smaller_than_non_data_area() {
    let mut boot = BootSector::good_fat16();
    // non-data area is 1 + 2*32 + 32 = 97 blocks
    boot.total_blocks32 = 96;
    assert_rejected(
        "total_blocks < non-data blocks",
        disk_with(0x06, 2048, boot),
    );
}

/// Division by zero again, as seen on a zero-filled (erased) boot sector that only has
/// the 0xAA55 signature: every size is 0, including blocks_per_cluster.
#[test]
fn blank_boot_sector_with_signature() {
    let mut disk = SparseDisk::default();
    disk.set(0, mbr(0x0C, 2048, 100_000));
    let mut boot = [0u8; 512];
    put16(&mut boot, 510, 0xAA55);
    disk.set(2048, boot);
    assert_rejected("all-zero boot sector", disk);
}

/// `u32::from(bpb.num_fats()) * bpb.fat_size()` overflows.
#[test]
fn num_fats_times_fat_size_overflows() {
    let mut boot = BootSector::good_fat32();
    boot.num_fats = 255;
    boot.fat_size32 = 0x0200_0000; // 255 * 2^25 > 2^32
    boot.total_blocks32 = 0xFFFF_FFFF;
    assert_rejected("num_fats * fat_size overflow", disk_with(0x0C, 2048, boot));
}

/// `reserved + num_fats * fat_size + root_dir_blocks` overflows (the product
/// itself fits).
#[test]
fn non_data_block_sum_overflows() {
    let mut boot = BootSector::good_fat32();
    boot.num_fats = 1;
    boot.fat_size32 = 0xFFFF_FFFF;
    boot.reserved_block_count = 32;
    boot.total_blocks32 = 0xFFFF_FFFF;
    assert_rejected(
        "reserved + fats + root overflow",
        disk_with(0x0C, 2048, boot),
    );
}

/// `lba_start + info_location` (BlockIdx + BlockCount) overflows for a FAT32
/// partition that starts at the very end of the 32-bit block space. The boot
/// sector itself is entirely self-consistent.
#[test]
fn lba_start_plus_fs_info_overflows() {
    let boot = BootSector::good_fat32(); // fs_info = 1
    assert_rejected(
        "lba_start + fs_info overflow",
        disk_with(0x0C, u32::MAX, boot),
    );
}

/// Same, with a large fs_info pointer on a partition that starts lower down.
#[test]
fn lba_start_plus_large_fs_info_overflows() {
    let mut boot = BootSector::good_fat32();
    boot.fs_info = 0xFFFF;
    assert_rejected(
        "lba_start + fs_info overflow",
        disk_with(0x0C, u32::MAX - 0xFFFE, boot),
    );
}

/// Deterministic pseudo-random sweep: whatever is in the partition table and
/// boot sector, opening the volume returns (Ok or Err) and does not panic.
#[test]
fn random_boot_sectors_never_panic() {
    // xorshift64*, fixed seed
    let mut state: u64 = 0x9E37_79B9_7F4A_7C15;
    let mut next = move || {
        state ^= state >> 12;
        state ^= state << 25;
        state ^= state >> 27;
        state.wrapping_mul(0x2545_F491_4F6C_DD1D)
    };
    // Bias towards boundary values, which is where the arithmetic breaks
    let pick32 = |r: u64| -> u32 {
        match r % 8 {
            0 => 0,
            1 => 1,
            2 => u32::MAX,
            3 => u32::MAX - ((r >> 8) as u32 & 0xFFFF),
            4 => (r >> 8) as u32 & 0xFFFF,
            5 => 1 << ((r >> 8) % 32),
            _ => (r >> 16) as u32,
        }
    };
    let mut panics = Vec::new();
    for i in 0..20_000 {
        let boot = BootSector {
            bytes_per_block: if next() % 4 == 0 { next() as u16 } else { 512 },
            blocks_per_cluster: pick32(next()) as u8,
            reserved_block_count: pick32(next()) as u16,
            num_fats: pick32(next()) as u8,
            root_entries_count: pick32(next()) as u16,
            total_blocks16: if next() % 2 == 0 {
                0
            } else {
                pick32(next()) as u16
            },
            fat_size16: if next() % 2 == 0 {
                0
            } else {
                pick32(next()) as u16
            },
            total_blocks32: pick32(next()),
            fat_size32: pick32(next()),
            fs_ver: if next() % 8 == 0 { 1 } else { 0 },
            first_root_dir_cluster: pick32(next()),
            fs_info: pick32(next()) as u16,
        };
        let lba_start = match pick32(next()) {
            0 => 1, // block 0 is the MBR
            n => n,
        };
        let part_type = [0x06u8, 0x0C, 0x0B, 0x0E, 0x04][(next() % 5) as usize];
        if let Err(msg) = try_open(disk_with(part_type, lba_start, boot)) {
            panics.push(format!("#{i} lba_start={lba_start:#x} {boot:?}: {msg}"));
        }
    }
    assert!(
        panics.is_empty(),
        "open_raw_volume panicked on {} of 20000 generated boot sectors; first: {}",
        panics.len(),
        panics[0]
    );
}
