//! F4: `find_next_free_cluster` can return a cluster number that is past the
//! end of the volume.
//!
//! The FAT occupies a whole number of sectors, so unless `cluster_count + 2`
//! happens to be a multiple of the number of FAT entries per sector, the last
//! FAT sector has unused "slack" entries after the entry of the last real
//! cluster. Formatters leave those as zero. The free-cluster scan only checks
//! the upper bound once per FAT sector, so on a completely full volume it
//! walks into the slack, sees a zero and reports that (non-existent) cluster as
//! free. File data is then written to blocks that lie beyond the data area -
//! here, beyond the end of the partition.
//!
//! A user is entitled to get an out-of-space error from `write` on a full
//! volume, and to have nothing outside the partition touched.
//!
//! These tests build small synthetic volumes in RAM (1 block per cluster) and
//! surround the partition with sentinel-filled guard blocks.

use std::cell::RefCell;
use std::rc::Rc;

use embedded_sdmmc::{
    Block, BlockCount, BlockDevice, BlockIdx, Error, Mode, TimeSource, Timestamp, VolumeIdx,
    VolumeManager,
};

const BLOCK: usize = 512;
/// First block of the partition
const LBA_START: u32 = 64;
/// Number of sentinel blocks after the partition ("the next partition")
const GUARD_BLOCKS: u32 = 64;
const GUARD_BYTE: u8 = 0xA5;

// ---------------------------------------------------------------------------
// A RAM block device which records writes and which the test keeps a handle on
// ---------------------------------------------------------------------------

struct Inner {
    data: RefCell<Vec<u8>>,
    writes: RefCell<Vec<u32>>,
}

#[derive(Clone)]
struct SharedDisk(Rc<Inner>);

#[derive(Debug)]
#[allow(dead_code)]
enum DiskError {
    OutOfBounds(u32),
}

impl BlockDevice for SharedDisk {
    type Error = DiskError;

    fn read(&self, blocks: &mut [Block], start: BlockIdx) -> Result<(), DiskError> {
        let data = self.0.data.borrow();
        for (i, b) in blocks.iter_mut().enumerate() {
            let idx = start.0 + i as u32;
            let off = idx as usize * BLOCK;
            if off + BLOCK > data.len() {
                return Err(DiskError::OutOfBounds(idx));
            }
            b.contents.copy_from_slice(&data[off..off + BLOCK]);
        }
        Ok(())
    }

    fn write(&self, blocks: &[Block], start: BlockIdx) -> Result<(), DiskError> {
        let mut data = self.0.data.borrow_mut();
        for (i, b) in blocks.iter().enumerate() {
            let idx = start.0 + i as u32;
            let off = idx as usize * BLOCK;
            if off + BLOCK > data.len() {
                return Err(DiskError::OutOfBounds(idx));
            }
            self.0.writes.borrow_mut().push(idx);
            data[off..off + BLOCK].copy_from_slice(&b.contents);
        }
        Ok(())
    }

    fn num_blocks(&self) -> Result<BlockCount, DiskError> {
        Ok(BlockCount((self.0.data.borrow().len() / BLOCK) as u32))
    }
}

struct Clock;

impl TimeSource for Clock {
    fn get_timestamp(&self) -> Timestamp {
        Timestamp {
            year_since_1970: 33,
            zero_indexed_month: 3,
            zero_indexed_day: 3,
            hours: 13,
            minutes: 30,
            seconds: 4,
        }
    }
}

// ---------------------------------------------------------------------------
// Synthetic volume builder
// ---------------------------------------------------------------------------

#[derive(Clone, Copy, PartialEq)]
enum Kind {
    Fat16,
    Fat32,
}

/// Geometry of a synthetic one-partition disk. All numbers are in blocks; the
/// `*_start` fields are absolute block numbers on the disk.
struct Layout {
    kind: Kind,
    cluster_count: u32,
    fat_blocks: u32,
    fat1_start: u32,
    fat2_start: u32,
    /// FAT16: the fixed root directory block. FAT32: the block of cluster 2.
    root_dir_block: u32,
    first_data_block: u32,
    /// One past the last block of the partition
    partition_end: u32,
}

impl Layout {
    fn new(kind: Kind, cluster_count: u32) -> Layout {
        let ent = match kind {
            Kind::Fat16 => 2,
            Kind::Fat32 => 4,
        };
        let fat_blocks = ((cluster_count + 2) * ent + 511) / 512;
        let reserved = match kind {
            Kind::Fat16 => 1,
            Kind::Fat32 => 32,
        };
        let root_dir_blocks = match kind {
            Kind::Fat16 => 1, // 16 entries
            Kind::Fat32 => 0,
        };
        let fat1_start = LBA_START + reserved;
        let fat2_start = fat1_start + fat_blocks;
        let root = fat2_start + fat_blocks;
        let first_data_block = root + root_dir_blocks;
        Layout {
            kind,
            cluster_count,
            fat_blocks,
            fat1_start,
            fat2_start,
            root_dir_block: root,
            first_data_block,
            partition_end: first_data_block + cluster_count,
        }
    }

    /// How many FAT entries physically fit in the FAT
    fn fat_capacity(&self) -> u32 {
        match self.kind {
            Kind::Fat16 => self.fat_blocks * 256,
            Kind::Fat32 => self.fat_blocks * 128,
        }
    }

    fn cluster_block(&self, cluster: u32) -> u32 {
        self.first_data_block + (cluster - 2)
    }
}

fn put16(img: &mut [u8], off: usize, v: u16) {
    img[off..off + 2].copy_from_slice(&v.to_le_bytes());
}

fn put32(img: &mut [u8], off: usize, v: u32) {
    img[off..off + 4].copy_from_slice(&v.to_le_bytes());
}

fn set_fat(img: &mut [u8], l: &Layout, cluster: u32, value: u32) {
    for fat in [l.fat1_start, l.fat2_start] {
        match l.kind {
            Kind::Fat16 => put16(
                img,
                fat as usize * BLOCK + cluster as usize * 2,
                value as u16,
            ),
            Kind::Fat32 => put32(
                img,
                fat as usize * BLOCK + cluster as usize * 4,
                value & 0x0FFF_FFFF,
            ),
        }
    }
}

fn get_fat(img: &[u8], l: &Layout, cluster: u32) -> u32 {
    match l.kind {
        Kind::Fat16 => {
            let off = l.fat1_start as usize * BLOCK + cluster as usize * 2;
            u32::from(u16::from_le_bytes([img[off], img[off + 1]]))
        }
        Kind::Fat32 => {
            let off = l.fat1_start as usize * BLOCK + cluster as usize * 4;
            u32::from_le_bytes([img[off], img[off + 1], img[off + 2], img[off + 3]]) & 0x0FFF_FFFF
        }
    }
}

/// Link clusters `first..=last` into one chain and give it the directory entry
/// `name` (8.3, space padded) in slot `slot` of the root directory.
fn add_file(img: &mut [u8], l: &Layout, slot: usize, name: &[u8; 11], first: u32, last: u32) {
    for c in first..last {
        set_fat(img, l, c, c + 1);
    }
    set_fat(img, l, last, 0x0FFF_FFFF);
    let off = l.root_dir_block as usize * BLOCK + slot * 32;
    img[off..off + 11].copy_from_slice(name);
    img[off + 11] = 0x20; // ARCHIVE
    put16(img, off + 20, (first >> 16) as u16);
    put16(img, off + 26, first as u16);
    put32(img, off + 28, (last - first + 1) * 512);
}

/// Build an MBR disk with one freshly formatted (empty) FAT partition,
/// followed by guard blocks.
fn format(kind: Kind, cluster_count: u32) -> (Vec<u8>, Layout) {
    let l = Layout::new(kind, cluster_count);
    let total_blocks = l.partition_end - LBA_START;
    let mut img = vec![0u8; (l.partition_end + GUARD_BLOCKS) as usize * BLOCK];
    for b in &mut img[l.partition_end as usize * BLOCK..] {
        *b = GUARD_BYTE;
    }

    // MBR, partition 0
    let p = 446;
    img[p + 4] = match kind {
        Kind::Fat16 => 0x06,
        Kind::Fat32 => 0x0C,
    };
    put32(&mut img, p + 8, LBA_START);
    put32(&mut img, p + 12, total_blocks);
    put16(&mut img, 510, 0xAA55);

    // BPB
    let b = LBA_START as usize * BLOCK;
    img[b..b + 3].copy_from_slice(&[0xEB, 0x3C, 0x90]);
    img[b + 3..b + 11].copy_from_slice(b"SYNTH   ");
    put16(&mut img, b + 11, 512); // bytes per block
    img[b + 13] = 1; // blocks per cluster
    put16(&mut img, b + 14, (l.fat1_start - LBA_START) as u16); // reserved blocks
    img[b + 16] = 2; // number of FATs
    img[b + 21] = 0xF8; // media
    put32(&mut img, b + 28, LBA_START); // hidden blocks
    match kind {
        Kind::Fat16 => {
            put16(&mut img, b + 17, 16); // root entries
            put16(&mut img, b + 19, total_blocks as u16);
            put16(&mut img, b + 22, l.fat_blocks as u16);
            img[b + 43..b + 54].copy_from_slice(b"SYNTH16    ");
        }
        Kind::Fat32 => {
            put32(&mut img, b + 32, total_blocks);
            put32(&mut img, b + 36, l.fat_blocks);
            put16(&mut img, b + 42, 0); // version
            put32(&mut img, b + 44, 2); // root dir cluster
            put16(&mut img, b + 48, 1); // FS info block
            img[b + 71..b + 82].copy_from_slice(b"SYNTH32    ");
            // FS Info block: free count and next free both "unknown"
            let i = b + BLOCK;
            put32(&mut img, i, 0x4161_5252);
            put32(&mut img, i + 484, 0x6141_7272);
            put32(&mut img, i + 488, 0xFFFF_FFFF);
            put32(&mut img, i + 492, 0xFFFF_FFFF);
            put32(&mut img, i + 508, 0xAA55_0000);
        }
    }
    put16(&mut img, b + 510, 0xAA55);

    // Reserved FAT entries
    set_fat(&mut img, &l, 0, 0x0FFF_FFF8);
    set_fat(&mut img, &l, 1, 0x0FFF_FFFF);
    if kind == Kind::Fat32 {
        // root directory lives in cluster 2
        set_fat(&mut img, &l, 2, 0x0FFF_FFFF);
    }
    (img, l)
}

/// A volume on which every cluster is in use: one file, `BIG.DAT`, owns all
/// the clusters (except, on FAT32, the one holding the root directory).
fn full_volume(kind: Kind, cluster_count: u32) -> (SharedDisk, Layout) {
    let (mut img, l) = format(kind, cluster_count);
    let first = match kind {
        Kind::Fat16 => 2,
        Kind::Fat32 => 3,
    };
    let last = cluster_count + 1;
    add_file(&mut img, &l, 0, b"BIG     DAT", first, last);

    // Sanity check the fixture: every real cluster is in use, and there is
    // zeroed slack after the last real FAT entry.
    for c in 2..=last {
        assert_ne!(get_fat(&img, &l, c), 0);
    }
    assert!(l.fat_capacity() > cluster_count + 2, "fixture has no slack");
    for c in cluster_count + 2..l.fat_capacity() {
        assert_eq!(get_fat(&img, &l, c), 0);
    }

    let disk = SharedDisk(Rc::new(Inner {
        data: RefCell::new(img),
        writes: RefCell::new(Vec::new()),
    }));
    (disk, l)
}

fn is_out_of_space<E: core::fmt::Debug>(r: &Result<(), Error<E>>) -> bool {
    matches!(r, Err(Error::DiskFull) | Err(Error::NotEnoughSpace))
}

/// Checks that hold after any attempt to write to a full volume
fn check_nothing_escaped(disk: &SharedDisk, l: &Layout, write_result: &dyn core::fmt::Debug) {
    let stray: Vec<u32> = disk
        .0
        .writes
        .borrow()
        .iter()
        .copied()
        .filter(|&b| b < LBA_START || b >= l.partition_end)
        .collect();
    assert!(
        stray.is_empty(),
        "write() returned {:?} and blocks outside the partition ({}..{}) were written: {:?} (non-existent cluster {} maps to block {})",
        write_result,
        LBA_START,
        l.partition_end,
        stray,
        l.cluster_count + 2,
        l.cluster_block(l.cluster_count + 2),
    );
    let img = disk.0.data.borrow();
    assert!(
        img[l.partition_end as usize * BLOCK..]
            .iter()
            .all(|&b| b == GUARD_BYTE),
        "data after the end of the partition was overwritten"
    );
    for c in l.cluster_count + 2..l.fat_capacity() {
        assert_eq!(
            get_fat(&img, l, c),
            0,
            "FAT entry for non-existent cluster {} was allocated",
            c
        );
    }
}

/// Create a new file on a completely full volume and write one block to it.
fn new_file_on_full_volume(kind: Kind, cluster_count: u32) {
    let (disk, l) = full_volume(kind, cluster_count);
    let volume_mgr: VolumeManager<SharedDisk, Clock, 4, 4, 1> =
        VolumeManager::new_with_limits(disk.clone(), Clock, 0x1000);
    let volume = volume_mgr.open_raw_volume(VolumeIdx(0)).expect("open volume");
    let root = volume_mgr.open_root_dir(volume).expect("open root");
    let f = volume_mgr
        .open_file_in_dir(root, "NEW.DAT", Mode::ReadWriteCreate)
        .expect("create file (needs no cluster)");

    let result = volume_mgr.write(f, &[0x5A; 512]);
    let _ = volume_mgr.close_file(f);

    check_nothing_escaped(&disk, &l, &result);
    assert!(
        is_out_of_space(&result),
        "write of 512 bytes to a new file on a full volume ({} clusters, all in use) returned {:?}, expected DiskFull/NotEnoughSpace",
        l.cluster_count,
        result
    );
}

/// Append one block to the file that already owns every cluster.
fn append_on_full_volume(kind: Kind, cluster_count: u32) {
    let (disk, l) = full_volume(kind, cluster_count);
    let volume_mgr: VolumeManager<SharedDisk, Clock, 4, 4, 1> =
        VolumeManager::new_with_limits(disk.clone(), Clock, 0x1000);
    let volume = volume_mgr.open_raw_volume(VolumeIdx(0)).expect("open volume");
    let root = volume_mgr.open_root_dir(volume).expect("open root");
    let f = volume_mgr
        .open_file_in_dir(root, "BIG.DAT", Mode::ReadWriteAppend)
        .expect("open file");

    let result = volume_mgr.write(f, &[0x5A; 512]);
    let _ = volume_mgr.close_file(f);

    check_nothing_escaped(&disk, &l, &result);
    assert!(
        is_out_of_space(&result),
        "appending 512 bytes to a file on a full volume ({} clusters, all in use) returned {:?}, expected DiskFull/NotEnoughSpace",
        l.cluster_count,
        result
    );
}

// 4090 clusters -> 4092 FAT16 entries -> 16 FAT sectors holding 4096 entries:
// entries 4092..=4095 are slack.
const FAT16_CLUSTERS: u32 = 4090;

// 65600 clusters -> 65602 FAT32 entries -> 513 FAT sectors holding 65664
// entries: entries 65602..=65663 are slack.
const FAT32_CLUSTERS: u32 = 65600;

#[test]
fn fat16_full_volume_new_file_write_is_rejected() {
    new_file_on_full_volume(Kind::Fat16, FAT16_CLUSTERS);
}

#[test]
fn fat16_full_volume_append_is_rejected() {
    append_on_full_volume(Kind::Fat16, FAT16_CLUSTERS);
}

#[test]
fn fat32_full_volume_new_file_write_is_rejected() {
    new_file_on_full_volume(Kind::Fat32, FAT32_CLUSTERS);
}

#[test]
fn fat32_full_volume_append_is_rejected() {
    append_on_full_volume(Kind::Fat32, FAT32_CLUSTERS);
}
