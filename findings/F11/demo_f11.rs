//! F11: `open_root_dir` must reject a volume handle that is not open.

mod utils;

use embedded_sdmmc::{Error, VolumeIdx, VolumeManager};

type Mgr = VolumeManager<utils::RamDisk<Vec<u8>>, utils::TestTimeSource, 4, 4, 2>;

fn make_mgr() -> Mgr {
    let time_source = utils::make_time_source();
    let disk = utils::make_block_device(utils::DISK_SOURCE).unwrap();
    VolumeManager::new_with_limits(disk, time_source, 0x1000_0000)
}

/// A handle to a volume that has been closed must be rejected.
#[test]
fn open_root_dir_on_closed_volume_is_rejected() {
    let volume_mgr = make_mgr();

    let volume = volume_mgr
        .open_raw_volume(VolumeIdx(0))
        .expect("open volume 0");
    volume_mgr.close_volume(volume).expect("close volume 0");

    // `volume` is now stale: no volume is open at all.
    let result = volume_mgr.open_root_dir(volume);
    assert!(
        matches!(result, Err(Error::BadHandle)),
        "open_root_dir on a closed volume returned {:?}, expected Err(BadHandle)",
        result
    );
}

/// A rejected call must have no effect: no directory slot may be consumed, and
/// the manager must not believe the (closed) volume is still in use.
#[test]
fn open_root_dir_on_closed_volume_has_no_effect() {
    let volume_mgr = make_mgr();

    let stale = volume_mgr
        .open_raw_volume(VolumeIdx(0))
        .expect("open volume 0");
    volume_mgr.close_volume(stale).expect("close volume 0");

    // MAX_DIRS is 4. Hammer the stale handle more often than that.
    for _ in 0..4 {
        let _ = volume_mgr.open_root_dir(stale);
    }

    // Closing an already-closed volume is a bad handle, not "still in use".
    let result = volume_mgr.close_volume(stale);
    assert!(
        matches!(result, Err(Error::BadHandle)),
        "close_volume on a closed volume returned {:?}, expected Err(BadHandle)",
        result
    );

    // All four directory slots must still be available to a real volume.
    let volume = volume_mgr
        .open_raw_volume(VolumeIdx(0))
        .expect("re-open volume 0");
    let root = volume_mgr.open_root_dir(volume);
    assert!(
        root.is_ok(),
        "open_root_dir on a valid volume returned {:?} after stale-handle calls",
        root
    );
    volume_mgr.close_dir(root.unwrap()).expect("close root");
    volume_mgr.close_volume(volume).expect("close volume");
}

/// A handle minted by a different VolumeManager must be rejected too.
#[test]
fn open_root_dir_with_foreign_handle_is_rejected() {
    let mgr_a = make_mgr();
    let mgr_b = make_mgr();

    // Burn a few IDs on A so its handle cannot collide with anything B has
    // issued.
    let v = mgr_a.open_raw_volume(VolumeIdx(0)).expect("open a/0");
    mgr_a.close_volume(v).expect("close a/0");
    let v = mgr_a.open_raw_volume(VolumeIdx(0)).expect("open a/0");
    mgr_a.close_volume(v).expect("close a/0");
    let foreign = mgr_a.open_raw_volume(VolumeIdx(0)).expect("open a/0");

    let _own = mgr_b.open_raw_volume(VolumeIdx(0)).expect("open b/0");

    let result = mgr_b.open_root_dir(foreign);
    assert!(
        matches!(result, Err(Error::BadHandle)),
        "open_root_dir with another manager's handle returned {:?}, expected Err(BadHandle)",
        result
    );
}
