//! F3: `FatVolume::alloc_cluster` restarts its free-cluster search from
//! cluster 2 after *any* error (not just "no free cluster after the hint"),
//! so a block-device error raised while reading the FAT is silently absorbed
//! and the write succeeds as if nothing had happened.
//!
//! The user is entitled to see `Error::DeviceError` when the device fails
//! while a cluster is being allocated.

use std::cell::RefCell;
use std::rc::Rc;

use embedded_sdmmc::{
    Block, BlockCount, BlockDevice, BlockIdx, Error, Mode, VolumeIdx, VolumeManager,
};

mod utils;

// ---------------------------------------------------------------------------
// Fault-injecting block device
// ---------------------------------------------------------------------------

#[derive(Debug)]
#[allow(dead_code)]
enum DevError {
    /// A read we were told to fail
    Injected(BlockIdx),
    /// An error from the RAM disk
    Inner(utils::Error),
}

#[derive(Default)]
struct Ctl {
    /// Absolute block range `[lo, hi)` of the first FAT
    fat: (u32, u32),
    /// Wait until this many blocks have been written to the first FAT ...
    wait_for_fat_writes: u32,
    /// ... then fail this many reads of the first FAT
    fail: u32,
    /// Blocks for which we returned an injected error
    tripped: Vec<u32>,
}

struct FaultyDisk<D> {
    inner: D,
    ctl: Rc<RefCell<Ctl>>,
}

impl<D> BlockDevice for FaultyDisk<D>
where
    D: BlockDevice<Error = utils::Error>,
{
    type Error = DevError;

    fn read(&self, blocks: &mut [Block], start_block_idx: BlockIdx) -> Result<(), Self::Error> {
        {
            let mut ctl = self.ctl.borrow_mut();
            let (lo, hi) = ctl.fat;
            if (lo..hi).contains(&start_block_idx.0)
                && ctl.wait_for_fat_writes == 0
                && ctl.fail > 0
            {
                ctl.fail -= 1;
                ctl.tripped.push(start_block_idx.0);
                return Err(DevError::Injected(start_block_idx));
            }
        }
        self.inner
            .read(blocks, start_block_idx)
            .map_err(DevError::Inner)
    }

    fn write(&self, blocks: &[Block], start_block_idx: BlockIdx) -> Result<(), Self::Error> {
        {
            let mut ctl = self.ctl.borrow_mut();
            let (lo, hi) = ctl.fat;
            if (lo..hi).contains(&start_block_idx.0) && ctl.fail > 0 && ctl.wait_for_fat_writes > 0
            {
                ctl.wait_for_fat_writes -= 1;
            }
        }
        self.inner
            .write(blocks, start_block_idx)
            .map_err(DevError::Inner)
    }

    fn num_blocks(&self) -> Result<BlockCount, Self::Error> {
        self.inner.num_blocks().map_err(DevError::Inner)
    }
}

// ---------------------------------------------------------------------------
// Fixture
// ---------------------------------------------------------------------------

type Mgr = VolumeManager<FaultyDisk<utils::RamDisk<Vec<u8>>>, utils::TestTimeSource, 4, 4, 1>;

fn le16(b: &[u8], o: usize) -> u32 {
    u32::from(u16::from_le_bytes([b[o], b[o + 1]]))
}

fn le32(b: &[u8], o: usize) -> u32 {
    u32::from_le_bytes([b[o], b[o + 1], b[o + 2], b[o + 3]])
}

struct Geometry {
    lba_start: u32,
    blocks_per_cluster: u32,
    /// Absolute block of the first FAT
    fat_start: u32,
    /// Blocks per FAT
    fat_size: u32,
    num_fats: u32,
    /// Absolute block of the FAT32 info sector
    info_block: u32,
    /// Number of data clusters
    cluster_count: u32,
}

fn geometry(disk: &utils::RamDisk<Vec<u8>>, volume: usize) -> Geometry {
    let mut blk = [Block::new()];
    disk.read(&mut blk, BlockIdx(0)).unwrap();
    let lba_start = le32(&blk[0][..], 446 + 16 * volume + 8);
    disk.read(&mut blk, BlockIdx(lba_start)).unwrap();
    let bpb = &blk[0][..];
    let blocks_per_cluster = u32::from(bpb[13]);
    let reserved = le16(bpb, 14);
    let num_fats = u32::from(bpb[16]);
    let root_dir_blocks = le16(bpb, 17) * 32 / 512;
    let fat_size = match le16(bpb, 22) {
        0 => le32(bpb, 36),
        n => n,
    };
    let total_blocks = match le16(bpb, 19) {
        0 => le32(bpb, 32),
        n => n,
    };
    let data_blocks = total_blocks - reserved - num_fats * fat_size - root_dir_blocks;
    Geometry {
        lba_start,
        blocks_per_cluster,
        fat_start: lba_start + reserved,
        fat_size,
        num_fats,
        info_block: lba_start + le16(bpb, 48),
        cluster_count: data_blocks / blocks_per_cluster,
    }
}

fn mount(disk: utils::RamDisk<Vec<u8>>, geometry: &Geometry) -> (Mgr, Rc<RefCell<Ctl>>) {
    let ctl = Rc::new(RefCell::new(Ctl {
        fat: (geometry.fat_start, geometry.fat_start + geometry.fat_size),
        ..Ctl::default()
    }));
    let mgr: Mgr = VolumeManager::new(
        FaultyDisk {
            inner: disk,
            ctl: ctl.clone(),
        },
        utils::make_time_source(),
    );
    (mgr, ctl)
}

// ---------------------------------------------------------------------------
// First search: `find_next_free_cluster(hint..)` fails with a device error
// ---------------------------------------------------------------------------

/// FAT32: the info sector of the test image says "next free cluster = 16396",
/// so the very first allocation starts from a hint > 2.
#[test]
fn f3_fat32_first_write_reports_fat_read_error() {
    let disk = utils::make_block_device(utils::DISK_SOURCE).unwrap();
    let geometry = geometry(&disk, 1);
    let (mgr, ctl) = mount(disk, &geometry);
    let vol = mgr.open_raw_volume(VolumeIdx(1)).unwrap();
    let root = mgr.open_root_dir(vol).unwrap();
    let f = mgr
        .open_file_in_dir(root, "NEW.DAT", Mode::ReadWriteCreate)
        .unwrap();

    // The file is empty so this write has to allocate a cluster. The first
    // thing that does is read the FAT - and that read fails.
    ctl.borrow_mut().fail = 1;
    let result = mgr.write(f, b"hello");
    ctl.borrow_mut().fail = 0;

    assert_eq!(ctl.borrow().tripped.len(), 1, "fault was never triggered");
    assert!(
        matches!(result, Err(Error::DeviceError(DevError::Injected(_)))),
        "reading FAT block {:?} failed while allocating a cluster, but write returned {:?}",
        ctl.borrow().tripped,
        result
    );
}

/// FAT16 has no info sector, but after one allocation the volume remembers
/// where the next free cluster is, so the second allocation has a hint > 2.
#[test]
fn f3_fat16_second_allocation_reports_fat_read_error() {
    let disk = utils::make_block_device(utils::DISK_SOURCE).unwrap();
    let geometry = geometry(&disk, 0);
    let (mgr, ctl) = mount(disk, &geometry);
    let vol = mgr.open_raw_volume(VolumeIdx(0)).unwrap();
    let root = mgr.open_root_dir(vol).unwrap();

    let f1 = mgr
        .open_file_in_dir(root, "ONE.DAT", Mode::ReadWriteCreate)
        .unwrap();
    mgr.write(f1, b"one").expect("healthy write");
    mgr.close_file(f1).unwrap();

    let f2 = mgr
        .open_file_in_dir(root, "TWO.DAT", Mode::ReadWriteCreate)
        .unwrap();
    ctl.borrow_mut().fail = 1;
    let result = mgr.write(f2, b"two");
    ctl.borrow_mut().fail = 0;

    assert_eq!(ctl.borrow().tripped.len(), 1, "fault was never triggered");
    assert!(
        matches!(result, Err(Error::DeviceError(DevError::Injected(_)))),
        "reading FAT block {:?} failed while allocating a cluster, but write returned {:?}",
        ctl.borrow().tripped,
        result
    );
}

// ---------------------------------------------------------------------------
// Second search: recomputing `next_free_cluster` after the allocation
// ---------------------------------------------------------------------------

/// Growing a directory calls `alloc_cluster(Some(last_dir_cluster), ..)`. We
/// arrange for the directory's last cluster and the newly allocated cluster to
/// live in different FAT blocks, so that the sequence of FAT accesses is
///
/// 1. read FAT (find a free cluster)
/// 2. write FAT (mark new cluster as end-of-chain)
/// 3. read + write FAT (link the old last cluster to the new one)
/// 4. read FAT (look for the next free cluster, to update the hint)
///
/// and fail read number 4, i.e. the first FAT read after two FAT writes.
#[test]
fn f3_fat32_hint_update_reports_fat_read_error() {
    let disk = utils::make_block_device(utils::DISK_SOURCE).unwrap();
    let geometry = geometry(&disk, 1);
    let entries_per_cluster = (geometry.blocks_per_cluster * 512 / 32) as usize;
    let (mgr, ctl) = mount(disk, &geometry);
    let vol = mgr.open_raw_volume(VolumeIdx(1)).unwrap();
    let root = mgr.open_root_dir(vol).unwrap();

    // A directory (one cluster) ...
    mgr.make_dir_in_dir(root, "BIG").unwrap();
    let big = mgr.open_dir(root, "BIG").unwrap();
    // ... followed on disk by a file that covers more than one FAT block's
    // worth of clusters (a FAT32 FAT block describes 128 clusters) ...
    let pad = mgr
        .open_file_in_dir(root, "PAD.DAT", Mode::ReadWriteCreate)
        .unwrap();
    let chunk = vec![0xAAu8; (geometry.blocks_per_cluster * 512) as usize];
    for _ in 0..130 {
        mgr.write(pad, &chunk).expect("healthy write");
    }
    mgr.close_file(pad).unwrap();
    // ... and then fill the directory's only cluster completely.
    for i in 0..entries_per_cluster - 2 {
        let name = format!("F{:03}.TXT", i);
        let f = mgr
            .open_file_in_dir(big, name.as_str(), Mode::ReadWriteCreate)
            .expect("create file");
        mgr.close_file(f).unwrap();
    }

    // The next file we create needs the directory to grow.
    {
        let mut ctl = ctl.borrow_mut();
        ctl.wait_for_fat_writes = 2;
        ctl.fail = 1;
    }
    let result = mgr.open_file_in_dir(big, "GROW.TXT", Mode::ReadWriteCreate);
    ctl.borrow_mut().fail = 0;

    assert_eq!(ctl.borrow().tripped.len(), 1, "fault was never triggered");
    assert!(
        matches!(result, Err(Error::DeviceError(DevError::Injected(_)))),
        "reading FAT block {:?} failed while allocating a cluster, but open_file_in_dir returned {:?}",
        ctl.borrow().tripped,
        result
    );
}

// ---------------------------------------------------------------------------
// The legitimate retry must survive the fix
// ---------------------------------------------------------------------------

/// If there is no free cluster between the hint and the end of the volume,
/// the search must still wrap around to the start of the FAT.
#[test]
fn f3_fat32_search_still_wraps_around_when_hint_is_past_last_free_cluster() {
    let disk = utils::make_block_device(utils::DISK_SOURCE).unwrap();
    let g = geometry(&disk, 1);

    // Mark every cluster described by the last FAT block as 'bad' and point
    // the info sector's next-free hint at the first of them.
    let last_cluster = g.cluster_count + 1;
    let last_fat_block = last_cluster * 4 / 512;
    let hint = last_fat_block * 128;
    let mut blk = [Block::new()];
    for chunk in blk[0].chunks_exact_mut(4) {
        chunk.copy_from_slice(&0x0FFF_FFF7u32.to_le_bytes());
    }
    for fat in 0..g.num_fats {
        disk.write(&blk, BlockIdx(g.fat_start + fat * g.fat_size + last_fat_block))
            .unwrap();
    }
    disk.read(&mut blk, BlockIdx(g.info_block)).unwrap();
    blk[0][492..496].copy_from_slice(&hint.to_le_bytes());
    disk.write(&blk, BlockIdx(g.info_block)).unwrap();
    assert!(g.lba_start > 0);

    let (mgr, _ctl) = mount(disk, &g);
    let vol = mgr.open_raw_volume(VolumeIdx(1)).unwrap();
    let root = mgr.open_root_dir(vol).unwrap();
    let f = mgr
        .open_file_in_dir(root, "WRAP.DAT", Mode::ReadWriteCreate)
        .unwrap();
    mgr.write(f, b"wrapped").expect("allocation wraps around");
    mgr.close_file(f).unwrap();

    let f = mgr
        .open_file_in_dir(root, "WRAP.DAT", Mode::ReadOnly)
        .unwrap();
    let mut buf = [0u8; 16];
    let n = mgr.read(f, &mut buf).unwrap();
    assert_eq!(&buf[..n], b"wrapped");
    // It was allocated before the hint, i.e. the search wrapped.
    let entry = mgr.find_directory_entry(root, "WRAP.DAT").unwrap();
    let cluster = format!("{:?}", entry.cluster);
    let cluster = cluster
        .strip_prefix("ClusterId(")
        .and_then(|s| s.strip_suffix(')'))
        .and_then(|s| u32::from_str_radix(s, 16).ok())
        .expect("a plain cluster number");
    assert!((2..hint).contains(&cluster), "cluster {}", cluster);
}
