//! F7: the FAT32 free-cluster count is taken verbatim from the on-disk FSInfo
//! sector and then adjusted with unchecked `-= 1` / `+= 1`.
//!
//! The FSInfo record is only a hint (the FAT specification says it may be
//! wrong, and other implementations routinely leave it stale), so a bad value
//! there must never make a file operation fail. These tests plant a stale
//! record in the FSInfo sector of the FAT32 partition of the stock test image
//! and then perform perfectly ordinary file operations.

use std::cell::RefCell;
use std::io::prelude::*;
use std::rc::Rc;

use embedded_sdmmc::{Block, BlockCount, BlockDevice, BlockIdx, Mode, VolumeIdx, VolumeManager};

mod utils;

/// A RAM block device whose backing store is shared with the test.
#[derive(Clone)]
struct SharedDisk(Rc<RefCell<Vec<u8>>>);

impl BlockDevice for SharedDisk {
    type Error = ();

    fn read(&self, blocks: &mut [Block], start: BlockIdx) -> Result<(), ()> {
        let data = self.0.borrow();
        for (i, block) in blocks.iter_mut().enumerate() {
            let off = (start.0 as usize + i) * Block::LEN;
            block
                .as_mut_slice()
                .copy_from_slice(data.get(off..off + Block::LEN).ok_or(())?);
        }
        Ok(())
    }

    fn write(&self, blocks: &[Block], start: BlockIdx) -> Result<(), ()> {
        let mut data = self.0.borrow_mut();
        for (i, block) in blocks.iter().enumerate() {
            let off = (start.0 as usize + i) * Block::LEN;
            data.get_mut(off..off + Block::LEN)
                .ok_or(())?
                .copy_from_slice(block.as_slice());
        }
        Ok(())
    }

    fn num_blocks(&self) -> Result<BlockCount, ()> {
        Ok(BlockCount((self.0.borrow().len() / Block::LEN) as u32))
    }
}

type Mgr = VolumeManager<SharedDisk, utils::TestTimeSource, 4, 2, 1>;

fn u32_at(d: &[u8], off: usize) -> u32 {
    u32::from_le_bytes([d[off], d[off + 1], d[off + 2], d[off + 3]])
}

/// Unpack the stock image and overwrite the free-cluster count in the FSInfo
/// sector of the FAT32 partition (partition 1) with `free_count`.
fn disk_with_fsinfo_free_count(free_count: u32) -> Rc<RefCell<Vec<u8>>> {
    let mut image = Vec::with_capacity(512 * 1024 * 1024);
    flate2::read::GzDecoder::new(std::io::Cursor::new(utils::DISK_SOURCE))
        .read_to_end(&mut image)
        .expect("unpack disk image");

    let lba_start = u32_at(&image, 446 + 16 + 8) as usize;
    let bpb = lba_start * 512;
    let fsinfo_sector = u16::from_le_bytes([image[bpb + 48], image[bpb + 49]]) as usize;
    let fsinfo = (lba_start + fsinfo_sector) * 512;
    assert_eq!(u32_at(&image, fsinfo), 0x4161_5252, "FSInfo lead signature");
    assert_eq!(
        u32_at(&image, fsinfo + 484),
        0x6141_7272,
        "FSInfo struct signature"
    );
    image[fsinfo + 488..fsinfo + 492].copy_from_slice(&free_count.to_le_bytes());
    Rc::new(RefCell::new(image))
}

/// FSInfo says "0 clusters free" although the volume is mostly empty. Creating
/// a small file must still work.
#[test]
fn stale_zero_free_count_does_not_break_allocation() {
    let store = disk_with_fsinfo_free_count(0);
    let volume_mgr: Mgr =
        VolumeManager::new_with_limits(SharedDisk(store), utils::make_time_source(), 0xAA00_0000);
    let volume = volume_mgr
        .open_raw_volume(VolumeIdx(1))
        .expect("open FAT32 volume");
    let root_dir = volume_mgr.open_root_dir(volume).expect("open root dir");

    let f = volume_mgr
        .open_file_in_dir(root_dir, "NEW.TXT", Mode::ReadWriteCreate)
        .expect("create file");
    volume_mgr
        .write(f, b"hello")
        .expect("write to new file on a volume with plenty of space");
    volume_mgr.close_file(f).expect("close file");

    let f = volume_mgr
        .open_file_in_dir(root_dir, "NEW.TXT", Mode::ReadOnly)
        .expect("re-open file");
    let mut buffer = [0u8; 16];
    let n = volume_mgr.read(f, &mut buffer).expect("read back");
    assert_eq!(&buffer[..n], b"hello");
    volume_mgr.close_file(f).expect("close file");
    volume_mgr.close_dir(root_dir).expect("close dir");
    volume_mgr.close_volume(volume).expect("close volume");
}

/// FSInfo holds a junk (but not "unknown") free count near `u32::MAX`.
/// Truncating a big file must still work.
#[test]
fn stale_huge_free_count_does_not_break_truncation() {
    let store = disk_with_fsinfo_free_count(0xFFFF_FFFE);
    let volume_mgr: Mgr =
        VolumeManager::new_with_limits(SharedDisk(store), utils::make_time_source(), 0xAA00_0000);
    let volume = volume_mgr
        .open_raw_volume(VolumeIdx(1))
        .expect("open FAT32 volume");
    let root_dir = volume_mgr.open_root_dir(volume).expect("open root dir");

    let f = volume_mgr
        .open_file_in_dir(root_dir, "64MB.DAT", Mode::ReadWriteTruncate)
        .expect("open + truncate file");
    assert_eq!(volume_mgr.file_length(f).expect("length"), 0);
    volume_mgr.close_file(f).expect("close file");
    volume_mgr.close_dir(root_dir).expect("close dir");
    volume_mgr.close_volume(volume).expect("close volume");
}
