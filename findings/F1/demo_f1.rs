//! F1: a block-device error raised while reading the FAT in the middle of a
//! multi-cluster directory walk is swallowed (`match next_cluster(..) { Ok(n)
//! => .., _ => None }`).
//!
//! Each test builds a sub-directory that spans two clusters, then makes every
//! read of the (first) File Allocation Table fail while one directory
//! operation runs. The only FAT reads those operations perform are the
//! `next_cluster` look-ups of the directory walk, so the user is entitled to
//! get `Error::DeviceError` back. On the unmodified tree they get a truncated
//! listing / `NotFound` / `NotEnoughSpace` instead.

use std::cell::RefCell;
use std::rc::Rc;

use embedded_sdmmc::{
    Block, BlockCount, BlockDevice, BlockIdx, Error, Mode, RawDirectory, VolumeIdx, VolumeManager,
};

mod utils;

// ---------------------------------------------------------------------------
// Fault-injecting block device
// ---------------------------------------------------------------------------

#[derive(Debug)]
#[allow(dead_code)]
enum DevError {
    /// A read we were told to fail
    Injected(BlockIdx),
    /// An error from the RAM disk
    Inner(utils::Error),
}

#[derive(Default)]
struct Ctl {
    /// Reads starting in `[lo, hi)` are candidates for failure
    range: Option<(u32, u32)>,
    /// Let this many candidate reads through first
    skip: u32,
    /// Then fail this many candidate reads
    fail: u32,
    /// Blocks for which we returned an injected error
    tripped: Vec<u32>,
}

struct FaultyDisk<D> {
    inner: D,
    ctl: Rc<RefCell<Ctl>>,
}

impl<D> BlockDevice for FaultyDisk<D>
where
    D: BlockDevice<Error = utils::Error>,
{
    type Error = DevError;

    fn read(&self, blocks: &mut [Block], start_block_idx: BlockIdx) -> Result<(), Self::Error> {
        {
            let mut ctl = self.ctl.borrow_mut();
            if let Some((lo, hi)) = ctl.range {
                if (lo..hi).contains(&start_block_idx.0) {
                    if ctl.skip > 0 {
                        ctl.skip -= 1;
                    } else if ctl.fail > 0 {
                        ctl.fail -= 1;
                        ctl.tripped.push(start_block_idx.0);
                        return Err(DevError::Injected(start_block_idx));
                    }
                }
            }
        }
        self.inner
            .read(blocks, start_block_idx)
            .map_err(DevError::Inner)
    }

    fn write(&self, blocks: &[Block], start_block_idx: BlockIdx) -> Result<(), Self::Error> {
        self.inner
            .write(blocks, start_block_idx)
            .map_err(DevError::Inner)
    }

    fn num_blocks(&self) -> Result<BlockCount, Self::Error> {
        self.inner.num_blocks().map_err(DevError::Inner)
    }
}

// ---------------------------------------------------------------------------
// Fixture
// ---------------------------------------------------------------------------

type Mgr = VolumeManager<FaultyDisk<utils::RamDisk<Vec<u8>>>, utils::TestTimeSource, 4, 4, 1>;

struct Fixture {
    mgr: Mgr,
    ctl: Rc<RefCell<Ctl>>,
    /// The two-cluster directory `BIG`
    big: RawDirectory,
    /// Absolute block range of the first FAT
    fat: (u32, u32),
    /// Number of directory entries that fit in one cluster
    entries_per_cluster: usize,
}

fn le16(b: &[u8], o: usize) -> u32 {
    u32::from(u16::from_le_bytes([b[o], b[o + 1]]))
}

fn le32(b: &[u8], o: usize) -> u32 {
    u32::from_le_bytes([b[o], b[o + 1], b[o + 2], b[o + 3]])
}

fn file_name(i: usize) -> String {
    format!("F{:03}.TXT", i)
}

/// Open partition `volume` of the test disk image and create a directory
/// `BIG` in its root holding `.`, `..` and `n_files(entries_per_cluster)`
/// empty files called `F000.TXT`, `F001.TXT`, ...
fn fixture(volume: usize, n_files: impl Fn(usize) -> usize) -> Fixture {
    let disk = utils::make_block_device(utils::DISK_SOURCE).unwrap();

    // Work out where the first FAT of the partition lives.
    let mut blk = [Block::new()];
    disk.read(&mut blk, BlockIdx(0)).unwrap();
    let lba_start = le32(&blk[0][..], 446 + 16 * volume + 8);
    disk.read(&mut blk, BlockIdx(lba_start)).unwrap();
    let bpb = &blk[0][..];
    let blocks_per_cluster = u32::from(bpb[13]);
    let reserved = le16(bpb, 14);
    let fat_size = match le16(bpb, 22) {
        0 => le32(bpb, 36),
        n => n,
    };
    let fat = (lba_start + reserved, lba_start + reserved + fat_size);
    let entries_per_cluster = (blocks_per_cluster * 512 / 32) as usize;

    let ctl = Rc::new(RefCell::new(Ctl::default()));
    let mgr: Mgr = VolumeManager::new(
        FaultyDisk {
            inner: disk,
            ctl: ctl.clone(),
        },
        utils::make_time_source(),
    );
    let vol = mgr.open_raw_volume(VolumeIdx(volume)).expect("open volume");
    let root = mgr.open_root_dir(vol).expect("open root");
    mgr.make_dir_in_dir(root, "BIG").expect("mkdir BIG");
    let big = mgr.open_dir(root, "BIG").expect("open BIG");
    for i in 0..n_files(entries_per_cluster) {
        let f = mgr
            .open_file_in_dir(big, file_name(i).as_str(), Mode::ReadWriteCreate)
            .expect("create file");
        mgr.close_file(f).expect("close file");
    }

    Fixture {
        mgr,
        ctl,
        big,
        fat,
        entries_per_cluster,
    }
}

impl Fixture {
    /// Let `skip` reads of the FAT succeed, then fail every later one.
    fn break_fat_reads_after(&self, skip: u32) {
        let mut ctl = self.ctl.borrow_mut();
        ctl.range = Some(self.fat);
        ctl.skip = skip;
        ctl.fail = u32::MAX;
        ctl.tripped.clear();
    }

    fn heal(&self) {
        self.ctl.borrow_mut().range = None;
    }

    fn injected_failures(&self) -> usize {
        self.ctl.borrow().tripped.len()
    }

    fn listing(&self) -> Result<Vec<String>, Error<DevError>> {
        let mut names = Vec::new();
        self.mgr
            .iterate_dir(self.big, |de| names.push(de.name.to_string()))?;
        Ok(names)
    }
}

/// `.` + `..` + files: ten entries more than fit in one cluster
fn ten_into_second_cluster(entries_per_cluster: usize) -> usize {
    entries_per_cluster - 2 + 10
}

// ---------------------------------------------------------------------------
// iterate_fat16 / iterate_fat32
// ---------------------------------------------------------------------------

fn check_iterate(volume: usize) {
    let fx = fixture(volume, ten_into_second_cluster);
    let expected_len = fx.entries_per_cluster + 10;

    // Sanity: with a healthy device we see everything.
    let healthy = fx.listing().expect("healthy listing");
    assert_eq!(healthy.len(), expected_len);

    fx.break_fat_reads_after(0);
    let result = fx.listing();
    fx.heal();

    assert!(fx.injected_failures() > 0, "fault was never triggered");
    assert!(
        matches!(result, Err(Error::DeviceError(DevError::Injected(_)))),
        "FAT read failed during the directory listing, but iterate_dir returned {} \
         (a complete listing has {} entries)",
        match &result {
            Ok(names) => format!("Ok(()) after listing only {} entries", names.len()),
            Err(e) => format!("Err({:?})", e),
        },
        expected_len
    );
}

#[test]
fn f1_fat16_iterate_dir_reports_fat_read_error() {
    check_iterate(0);
}

#[test]
fn f1_fat32_iterate_dir_reports_fat_read_error() {
    check_iterate(1);
}

// ---------------------------------------------------------------------------
// find_directory_entry (FAT16 arm / FAT32 arm)
// ---------------------------------------------------------------------------

fn check_find(volume: usize) {
    let fx = fixture(volume, ten_into_second_cluster);
    // The last file lives in the second cluster of the directory.
    let last = file_name(ten_into_second_cluster(fx.entries_per_cluster) - 1);

    fx.mgr
        .find_directory_entry(fx.big, last.as_str())
        .expect("healthy lookup");

    fx.break_fat_reads_after(0);
    let result = fx.mgr.find_directory_entry(fx.big, last.as_str());
    fx.heal();

    assert!(fx.injected_failures() > 0, "fault was never triggered");
    assert!(
        matches!(result, Err(Error::DeviceError(DevError::Injected(_)))),
        "FAT read failed while looking up existing file {}, but find_directory_entry returned {:?}",
        last,
        result
    );
}

#[test]
fn f1_fat16_find_directory_entry_reports_fat_read_error() {
    check_find(0);
}

#[test]
fn f1_fat32_find_directory_entry_reports_fat_read_error() {
    check_find(1);
}

// ---------------------------------------------------------------------------
// delete_directory_entry (FAT16 arm / FAT32 arm)
// ---------------------------------------------------------------------------

fn check_delete(volume: usize) {
    let fx = fixture(volume, ten_into_second_cluster);
    let n = ten_into_second_cluster(fx.entries_per_cluster);
    let last = file_name(n - 1);

    // `delete_file_in_dir` first looks the file up (one FAT read to get from
    // the first to the second directory cluster - let that one through) and
    // then walks the directory again to delete the entry (the FAT read of
    // that second walk fails).
    fx.break_fat_reads_after(1);
    let result = fx.mgr.delete_file_in_dir(fx.big, last.as_str());
    fx.heal();

    assert!(fx.injected_failures() > 0, "fault was never triggered");
    assert!(
        matches!(result, Err(Error::DeviceError(DevError::Injected(_)))),
        "FAT read failed while deleting existing file {}, but delete_file_in_dir returned {:?}",
        last,
        result
    );
    // and the file is of course still there
    assert!(fx.listing().unwrap().contains(&last));
}

#[test]
fn f1_fat16_delete_reports_fat_read_error() {
    check_delete(0);
}

#[test]
fn f1_fat32_delete_reports_fat_read_error() {
    check_delete(1);
}

// ---------------------------------------------------------------------------
// write_new_directory_entry (FAT16 arm / FAT32 arm)
// ---------------------------------------------------------------------------

fn check_create(volume: usize) {
    let fx = fixture(volume, ten_into_second_cluster);
    let before = fx.listing().unwrap();

    // Creating NEW.TXT first looks the name up: that walk reads the FAT twice
    // (first cluster -> second cluster -> end of chain). Let those through.
    // Then `write_new_directory_entry` walks the directory again looking for
    // a free slot; the first cluster is full, so it reads the FAT to get to
    // the second cluster (which has lots of room). That read fails.
    fx.break_fat_reads_after(2);
    let result = fx
        .mgr
        .open_file_in_dir(fx.big, "NEW.TXT", Mode::ReadWriteCreate);
    fx.heal();

    assert!(fx.injected_failures() > 0, "fault was never triggered");
    assert!(
        matches!(result, Err(Error::DeviceError(DevError::Injected(_)))),
        "FAT read failed while creating NEW.TXT in a directory with plenty of room, \
         but open_file_in_dir returned {:?}",
        result
    );
    assert_eq!(before, fx.listing().unwrap());
}

#[test]
fn f1_fat16_create_reports_fat_read_error() {
    check_create(0);
}

#[test]
fn f1_fat32_create_reports_fat_read_error() {
    check_create(1);
}

/// After the fix, reaching the end of the chain must still grow the directory.
#[test]
fn f1_directory_still_grows_at_end_of_chain() {
    for volume in [0, 1] {
        // `.` + `..` + files fill the first cluster exactly
        let fx = fixture(volume, |epc| epc - 2);
        assert_eq!(fx.listing().unwrap().len(), fx.entries_per_cluster);
        let f = fx
            .mgr
            .open_file_in_dir(fx.big, "GROW.TXT", Mode::ReadWriteCreate)
            .expect("create in full directory");
        fx.mgr.close_file(f).unwrap();
        let names = fx.listing().unwrap();
        assert_eq!(names.len(), fx.entries_per_cluster + 1);
        assert_eq!(names.last().unwrap(), "GROW.TXT");
    }
}
