//! F14: `LfnBuffer::push` must never panic, whatever 16-bit values the
//! (untrusted, on-disk) long-file-name fragments contain.
//!
//! A fragment whose first unit is an unpaired surrogate has that unit carried
//! over to the next call. If the next fragment holds 13 ordinary units, the
//! carried-over surrogate still has no partner and becomes U+FFFD: that is 14
//! chars for a scratch vector that only holds 13.

use embedded_sdmmc::{Block, BlockDevice, BlockIdx, LfnBuffer, VolumeIdx, VolumeManager};

mod utils;

/// 13 BMP units: "ABCDEFGHIJKLM"
const FULL_FRAGMENT: [u16; 13] = [
    0x41, 0x42, 0x43, 0x44, 0x45, 0x46, 0x47, 0x48, 0x49, 0x4A, 0x4B, 0x4C, 0x4D,
];

/// lone low surrogate, 'x', NUL, padding
const TAIL_FRAGMENT: [u16; 13] = [
    0xDE00, 0x0078, 0x0000, 0xFFFF, 0xFFFF, 0xFFFF, 0xFFFF, 0xFFFF, 0xFFFF, 0xFFFF, 0xFFFF, 0xFFFF,
    0xFFFF,
];

#[test]
fn push_carried_surrogate_then_full_fragment() {
    let mut storage = [0u8; 64];
    let mut buf = LfnBuffer::new(&mut storage);
    // Fragments arrive last-chunk-first, as on disk.
    buf.push(&TAIL_FRAGMENT);
    buf.push(&FULL_FRAGMENT);
    // The library's policy for a surrogate that never finds its partner is
    // to substitute U+FFFD.
    assert_eq!(buf.as_str(), "ABCDEFGHIJKLM\u{FFFD}x");
}

#[test]
fn push_arbitrary_fragments_never_panics() {
    // Deterministic LCG; heavily biased towards surrogates.
    let mut state: u32 = 0x1234_5678;
    let mut next = move || {
        state = state.wrapping_mul(1664525).wrapping_add(1013904223);
        let r = (state >> 8) as u16;
        match (state >> 28) & 3 {
            0 => 0xD800 | (r & 0x03FF), // high surrogate
            1 => 0xDC00 | (r & 0x03FF), // low surrogate
            2 => 0x0041 + (r % 26),     // ASCII letter
            _ => r | 1,                 // anything except NUL
        }
    };
    for _ in 0..2000 {
        let mut storage = [0u8; 1024];
        let mut buf = LfnBuffer::new(&mut storage);
        for _ in 0..20 {
            let mut fragment = [0u16; 13];
            for u in fragment.iter_mut() {
                *u = next();
            }
            buf.push(&fragment);
        }
        // 20 fragments of <= 14 chars of <= 4 bytes fit in 1024 bytes
        assert!(core::str::from_utf8(buf.as_str().as_bytes()).is_ok());
    }
}

// ---------------------------------------------------------------------------
// The same thing, reached through the public directory-listing API with a
// (corrupt / hostile) directory on disk.
// ---------------------------------------------------------------------------

/// First block of the `TEST` directory on partition 0 (FAT16) of disk.img
const FAT16_TEST_DIR_BLOCK: u32 = 2608;

fn lfn_csum(name: &[u8; 11]) -> u8 {
    let mut sum = 0u8;
    for b in name.iter() {
        sum = sum.rotate_right(1).wrapping_add(*b);
    }
    sum
}

fn lfn_entry(seq: u8, csum: u8, units: &[u16; 13]) -> [u8; 32] {
    let mut e = [0u8; 32];
    e[0] = seq;
    e[11] = 0x0F; // ATTR_LONG_NAME
    e[13] = csum;
    const OFFSETS: [usize; 13] = [1, 3, 5, 7, 9, 14, 16, 18, 20, 22, 24, 28, 30];
    for (u, off) in units.iter().zip(OFFSETS.iter()) {
        e[*off..*off + 2].copy_from_slice(&u.to_le_bytes());
    }
    e
}

#[test]
fn listing_directory_with_split_surrogate_does_not_panic() {
    const SHORT: &[u8; 11] = b"ABCDEF~1   ";
    let csum = lfn_csum(SHORT);

    let time_source = utils::make_time_source();
    let disk = utils::make_block_device(utils::DISK_SOURCE).unwrap();

    let mut blocks = [Block::new()];
    disk.read(&mut blocks, BlockIdx(FAT16_TEST_DIR_BLOCK))
        .expect("read dir block");
    {
        let b = &mut blocks[0];
        // sanity: this really is the TEST directory (., .., TEST.DAT, <end>)
        assert_eq!(&b[64..75], b"TEST    DAT");
        assert_eq!(b[96], 0x00);
        b[96..128].copy_from_slice(&lfn_entry(0x42, csum, &TAIL_FRAGMENT));
        b[128..160].copy_from_slice(&lfn_entry(0x01, csum, &FULL_FRAGMENT));
        let mut sfn = [0u8; 32];
        sfn[0..11].copy_from_slice(SHORT);
        sfn[11] = 0x20;
        b[160..192].copy_from_slice(&sfn);
        assert_eq!(b[192], 0x00);
    }
    disk.write(&blocks, BlockIdx(FAT16_TEST_DIR_BLOCK))
        .expect("write dir block");

    let volume_mgr = VolumeManager::new(disk, time_source);
    let volume = volume_mgr
        .open_raw_volume(VolumeIdx(0))
        .expect("open volume");
    let root_dir = volume_mgr.open_root_dir(volume).expect("open root dir");
    let test_dir = volume_mgr.open_dir(root_dir, "TEST").expect("open TEST");

    let mut storage = [0u8; 128];
    let mut lfn_buffer = LfnBuffer::new(&mut storage);
    let mut listing = Vec::new();
    volume_mgr
        .iterate_dir_lfn(test_dir, &mut lfn_buffer, |d, lfn| {
            listing.push((d.name.to_string(), lfn.map(String::from)));
        })
        .expect("iterate TEST");

    assert_eq!(
        listing,
        vec![
            (String::from("."), None),
            (String::from(".."), None),
            (String::from("TEST.DAT"), None),
            (
                String::from("ABCDEF~1"),
                Some(String::from("ABCDEFGHIJKLM\u{FFFD}x"))
            ),
        ]
    );
}
