//! F19: name lookup (and delete) keep scanning the directory blocks that follow the end-of-directory marker,
//! so a name that the listing does not contain can be found, opened and deleted.
mod utils;

use embedded_sdmmc::{Block, BlockDevice, BlockIdx, Mode, VolumeIdx, VolumeManager};

static DISK_SOURCE: &[u8] = include_bytes!("disk.img.gz");

fn le16(b: &[u8], o: usize) -> u32 {
    u32::from(b[o]) | (u32::from(b[o + 1]) << 8)
}
fn le32(b: &[u8], o: usize) -> u32 {
    le16(b, o) | (le16(b, o + 2) << 16)
}

/// Put a well-formed short entry GHOST.TXT into slot 0 of the block that follows the block holding the
/// end-of-directory marker of the FAT16 root directory (bytes a foreign formatter / an older file system may leave there).
fn plant_ghost(disk: &impl BlockDevice<Error = utils::Error>) {
    let mut blk = [Block::new()];
    disk.read(&mut blk, BlockIdx(0)).unwrap();
    let lba = le32(&blk[0].contents, 446 + 8);
    disk.read(&mut blk, BlockIdx(lba)).unwrap();
    let b = &blk[0].contents;
    let reserved = le16(b, 14);
    let nfats = u32::from(b[16]);
    let root_entries = le16(b, 17);
    let fatsz = le16(b, 22);
    let root_start = lba + reserved + nfats * fatsz;
    let root_blocks = (root_entries * 32 + 511) / 512;
    let mut end_block = None;
    for k in 0..root_blocks {
        disk.read(&mut blk, BlockIdx(root_start + k)).unwrap();
        if (0..16).any(|s| blk[0].contents[s * 32] == 0) {
            end_block = Some(k);
            break;
        }
    }
    let k = end_block.expect("root directory has an end marker") + 1;
    assert!(k < root_blocks);
    disk.read(&mut blk, BlockIdx(root_start + k)).unwrap();
    assert!(blk[0].contents.iter().all(|&x| x == 0), "block behind the end marker is blank in the stock image");
    let mut e = [0u8; 32];
    e[0..11].copy_from_slice(b"GHOST   TXT");
    e[11] = 0x20;
    e[26] = 0x0A; // some cluster
    e[28] = 4; // size
    blk[0].contents[0..32].copy_from_slice(&e);
    disk.write(&blk, BlockIdx(root_start + k)).unwrap();
}

#[test]
fn lookup_agrees_with_listing_behind_the_end_marker() {
    let disk = utils::make_block_device(DISK_SOURCE).unwrap();
    plant_ghost(&disk);
    let volume_mgr: VolumeManager<_, _, 4, 4, 1> = VolumeManager::new_with_limits(disk, utils::make_time_source(), 0xAA00_0000);
    let vol = volume_mgr.open_raw_volume(VolumeIdx(0)).unwrap();
    let root = volume_mgr.open_root_dir(vol).unwrap();
    let mut listed = Vec::new();
    volume_mgr.iterate_dir(root, |e| listed.push(format!("{}", e.name))).unwrap();
    assert!(!listed.iter().any(|n| n == "GHOST.TXT"), "the listing stops at the end marker");
    let found = volume_mgr.find_directory_entry(root, "GHOST.TXT");
    assert!(found.is_err(), "lookup found {:?}, a name the listing does not contain (listing: {:?})", found, listed);
    let opened = volume_mgr.open_file_in_dir(root, "GHOST.TXT", Mode::ReadOnly);
    assert!(opened.is_err(), "open succeeded for a name the listing does not contain");
    let deleted = volume_mgr.delete_file_in_dir(root, "GHOST.TXT");
    assert!(deleted.is_err(), "delete succeeded for a name the listing does not contain");
}
