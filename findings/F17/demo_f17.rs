//! F17: the 8.3 parser accepts a second '.' directly after the first one.
use embedded_sdmmc::{FilenameError, ShortFileName};

#[test]
fn two_consecutive_dots_are_not_a_valid_8_3_name() {
    for name in ["A..TXT", "A..", "HELLO..C", "12345678..TXT"] {
        match ShortFileName::create_from_str(name) {
            Err(FilenameError::MisplacedPeriod) => {}
            other => panic!("{name:?}: expected Err(MisplacedPeriod), got {other:?}"),
        }
    }
}

#[test]
fn one_dot_is_still_fine() {
    for name in ["A.TXT", "HELLO.", "12345678.TXT", "A.B"] {
        assert!(ShortFileName::create_from_str(name).is_ok(), "{name:?}");
    }
    assert!(matches!(ShortFileName::create_from_str("A.B.C"), Err(FilenameError::MisplacedPeriod)));
}
