//! F9: growing a directory must never expose an uninitialised cluster.
//!
//! `FatVolume::alloc_cluster(.., zero = true)` (used when a directory has no
//! free slot left and needs another cluster) marks the new cluster as
//! end-of-chain, then LINKS it into the directory's chain, and only afterwards
//! zero-fills it. If power is lost between the link and the end of the
//! zero-fill, the directory's chain contains a cluster that still holds
//! whatever was in it before (old file data), and that data is then parsed as
//! directory entries.
//!
//! The test runs the real library on the stock test image through a
//! copy-on-write block device that records every block write. Every free
//! cluster of the volume under test reads back as stale non-zero data (as on
//! any card that has been used for a while). A sub-directory is filled up to
//! its last slot and then one more file is created in it, which forces the
//! directory to grow. For EVERY prefix of the block-write sequence of that
//! operation (= every possible power-loss point) the resulting disk state is
//! checked:
//!
//!  * raw check: every cluster reachable from the directory's first cluster via
//!    the FAT holds only initialised directory slots (no stale data), and
//!  * library check: re-mounting the snapshot with a fresh `VolumeManager` and
//!    listing the directory yields no entries that were never created.

use std::cell::RefCell;
use std::collections::HashMap;
use std::io::Read;
use std::rc::Rc;
use std::sync::OnceLock;

use embedded_sdmmc::{
    Block, BlockCount, BlockDevice, BlockIdx, Mode, TimeSource, Timestamp, VolumeIdx, VolumeManager,
};

const BLK: usize = 512;
type Blk = [u8; BLK];

// ---------------------------------------------------------------------------
// Test harness: shared image, copy-on-write recording device, raw FAT reader
// ---------------------------------------------------------------------------

fn pristine_image() -> &'static [u8] {
    static IMAGE: OnceLock<Vec<u8>> = OnceLock::new();
    IMAGE.get_or_init(|| {
        let gz: &[u8] = include_bytes!("disk.img.gz");
        let mut out = Vec::with_capacity(512 * 1024 * 1024);
        flate2::read::GzDecoder::new(std::io::Cursor::new(gz))
            .read_to_end(&mut out)
            .expect("unpack disk image");
        out
    })
}

struct Clock;

impl TimeSource for Clock {
    fn get_timestamp(&self) -> Timestamp {
        Timestamp {
            year_since_1970: 33,
            zero_indexed_month: 3,
            zero_indexed_day: 3,
            hours: 13,
            minutes: 30,
            seconds: 5,
        }
    }
}

/// One block worth of stale data, looking like 16 old directory entries
/// `GHOST000.BIN` .. `GHOST015.BIN`.
fn stale_block() -> Blk {
    let mut b = [0u8; BLK];
    for (i, slot) in b.chunks_exact_mut(32).enumerate() {
        slot[0..11].copy_from_slice(format!("GHOST{:03}BIN", i).as_bytes());
        slot[11] = 0x20; // ARCHIVE
        slot[26] = 3; // first cluster
        slot[28..32].copy_from_slice(&0x1000u32.to_le_bytes());
    }
    b
}

fn is_stale(slot: &[u8]) -> bool {
    &slot[0..5] == b"GHOST"
}

/// Which blocks of the pristine image read back as stale data (the data blocks
/// of all clusters that are free in the pristine FAT of the volume under test).
struct StaleMap {
    data_start: u32,
    spc: u32,
    free: Vec<bool>, // index = cluster - 2
}

struct DiskInner {
    base: &'static [u8],
    stale: Rc<StaleMap>,
    overlay: RefCell<HashMap<u32, Blk>>,
    log: RefCell<Option<Vec<(u32, Blk)>>>,
}

/// Copy-on-write RAM disk over the shared pristine image, with write recording.
#[derive(Clone)]
struct Disk(Rc<DiskInner>);

impl Disk {
    fn new(stale: Rc<StaleMap>) -> Disk {
        Disk(Rc::new(DiskInner {
            base: pristine_image(),
            stale,
            overlay: RefCell::new(HashMap::new()),
            log: RefCell::new(None),
        }))
    }

    fn get(&self, idx: u32) -> Blk {
        if let Some(b) = self.0.overlay.borrow().get(&idx) {
            return *b;
        }
        let s = &self.0.stale;
        if idx >= s.data_start {
            let c = ((idx - s.data_start) / s.spc) as usize;
            if c < s.free.len() && s.free[c] {
                return stale_block();
            }
        }
        let off = idx as usize * BLK;
        let mut b = [0u8; BLK];
        b.copy_from_slice(&self.0.base[off..off + BLK]);
        b
    }

    fn start_recording(&self) {
        *self.0.log.borrow_mut() = Some(Vec::new());
    }

    fn stop_recording(&self) -> Vec<(u32, Blk)> {
        self.0.log.borrow_mut().take().expect("was recording")
    }

    /// A new, independent disk whose contents are this disk's current contents
    /// plus the given writes (in order).
    fn snapshot_plus(&self, writes: &[(u32, Blk)]) -> Disk {
        let mut overlay = self.0.overlay.borrow().clone();
        for (idx, b) in writes {
            overlay.insert(*idx, *b);
        }
        Disk(Rc::new(DiskInner {
            base: self.0.base,
            stale: self.0.stale.clone(),
            overlay: RefCell::new(overlay),
            log: RefCell::new(None),
        }))
    }
}

impl BlockDevice for Disk {
    type Error = String;

    fn read(&self, blocks: &mut [Block], start: BlockIdx) -> Result<(), String> {
        for (i, block) in blocks.iter_mut().enumerate() {
            let idx = start.0 + i as u32;
            if (idx as usize + 1) * BLK > self.0.base.len() {
                return Err(format!("read out of bounds: {}", idx));
            }
            block.as_mut_slice().copy_from_slice(&self.get(idx));
        }
        Ok(())
    }

    fn write(&self, blocks: &[Block], start: BlockIdx) -> Result<(), String> {
        for (i, block) in blocks.iter().enumerate() {
            let idx = start.0 + i as u32;
            if (idx as usize + 1) * BLK > self.0.base.len() {
                return Err(format!("write out of bounds: {}", idx));
            }
            let mut b = [0u8; BLK];
            b.copy_from_slice(block.as_slice());
            self.0.overlay.borrow_mut().insert(idx, b);
            if let Some(log) = self.0.log.borrow_mut().as_mut() {
                log.push((idx, b));
            }
        }
        Ok(())
    }

    fn num_blocks(&self) -> Result<BlockCount, String> {
        Ok(BlockCount((self.0.base.len() / BLK) as u32))
    }
}

fn le16(b: &[u8], o: usize) -> u32 {
    u32::from(u16::from_le_bytes([b[o], b[o + 1]]))
}

fn le32(b: &[u8], o: usize) -> u32 {
    u32::from_le_bytes([b[o], b[o + 1], b[o + 2], b[o + 3]])
}

/// Geometry of one FAT volume, parsed independently of the library. All block
/// numbers are absolute.
#[derive(Clone, Debug)]
struct Geom {
    fat32: bool,
    fat_start: u32,
    fat_blocks: u32,
    num_fats: u32,
    spc: u32,
    root_start: u32,   // FAT16 only
    root_blocks: u32,  // FAT16 only
    root_cluster: u32, // FAT32 only
    data_start: u32,
    cluster_count: u32,
}

impl Geom {
    fn parse(read: &dyn Fn(u32) -> Blk, partition: usize) -> Geom {
        let mbr = read(0);
        let lba = le32(&mbr, 446 + 16 * partition + 8);
        let bpb = read(lba);
        assert_eq!(le16(&bpb, 11), 512);
        let spc = u32::from(bpb[13]);
        let reserved = le16(&bpb, 14);
        let num_fats = u32::from(bpb[16]);
        let root_entries = le16(&bpb, 17);
        let fat32 = le16(&bpb, 22) == 0;
        let fat_blocks = if fat32 {
            le32(&bpb, 36)
        } else {
            le16(&bpb, 22)
        };
        let total = if le16(&bpb, 19) != 0 {
            le16(&bpb, 19)
        } else {
            le32(&bpb, 32)
        };
        let root_blocks = (root_entries * 32 + 511) / 512;
        let fat_start = lba + reserved;
        let root_start = fat_start + num_fats * fat_blocks;
        let data_start = root_start + root_blocks;
        Geom {
            fat32,
            fat_start,
            fat_blocks,
            num_fats,
            spc,
            root_start,
            root_blocks,
            root_cluster: if fat32 { le32(&bpb, 44) } else { 0 },
            data_start,
            cluster_count: (total - (data_start - lba)) / spc,
        }
    }

    /// Raw FAT entry (from the first FAT).
    fn fat(&self, read: &dyn Fn(u32) -> Blk, cluster: u32) -> u32 {
        let width = if self.fat32 { 4 } else { 2 };
        let off = cluster * width;
        let b = read(self.fat_start + off / 512);
        let o = (off % 512) as usize;
        if self.fat32 {
            le32(&b, o) & 0x0FFF_FFFF
        } else {
            le16(&b, o)
        }
    }

    fn is_next(&self, v: u32) -> bool {
        let bad = if self.fat32 { 0x0FFF_FFF7 } else { 0xFFF7 };
        v >= 2 && v < bad
    }

    /// The cluster chain starting at `start`, following the first FAT.
    fn chain(&self, read: &dyn Fn(u32) -> Blk, start: u32) -> Vec<u32> {
        let mut out = vec![start];
        let mut c = start;
        loop {
            let v = self.fat(read, c);
            if !self.is_next(v) || out.len() > 10_000 {
                return out;
            }
            out.push(v);
            c = v;
        }
    }

    fn cluster_block(&self, cluster: u32) -> u32 {
        self.data_start + (cluster - 2) * self.spc
    }

    /// All 32-byte slots of one cluster.
    fn cluster_slots(&self, read: &dyn Fn(u32) -> Blk, cluster: u32) -> Vec<[u8; 32]> {
        let mut out = Vec::new();
        for b in 0..self.spc {
            let blk = read(self.cluster_block(cluster) + b);
            for s in blk.chunks_exact(32) {
                out.push(<[u8; 32]>::try_from(s).unwrap());
            }
        }
        out
    }

    /// All slots of the root directory.
    fn root_slots(&self, read: &dyn Fn(u32) -> Blk) -> Vec<[u8; 32]> {
        let mut out = Vec::new();
        if self.fat32 {
            for c in self.chain(read, self.root_cluster) {
                out.extend(self.cluster_slots(read, c));
            }
        } else {
            for b in 0..self.root_blocks {
                let blk = read(self.root_start + b);
                for s in blk.chunks_exact(32) {
                    out.push(<[u8; 32]>::try_from(s).unwrap());
                }
            }
        }
        out
    }

    fn slot_cluster(&self, slot: &[u8; 32]) -> u32 {
        let hi = if self.fat32 { le16(slot, 20) } else { 0 };
        (hi << 16) | le16(slot, 26)
    }

    /// Human readable description of what lives in a given block.
    fn describe(&self, block: u32) -> String {
        for f in 0..self.num_fats {
            let s = self.fat_start + f * self.fat_blocks;
            if block >= s && block < s + self.fat_blocks {
                return format!("FAT#{} block {}", f + 1, block - s);
            }
        }
        if !self.fat32 && block >= self.root_start && block < self.data_start {
            return format!("root dir block {}", block - self.root_start);
        }
        if block >= self.data_start {
            let c = (block - self.data_start) / self.spc + 2;
            let b = (block - self.data_start) % self.spc;
            return format!("cluster {} block {}", c, b);
        }
        format!("block {}", block)
    }
}

/// Build the "used card" device for one partition of the stock image: all free
/// clusters of that volume read back as stale data.
fn used_card(partition: usize) -> (Disk, Geom) {
    let img = pristine_image();
    let read = |idx: u32| -> Blk {
        let mut b = [0u8; BLK];
        b.copy_from_slice(&img[idx as usize * BLK..(idx as usize + 1) * BLK]);
        b
    };
    let g = Geom::parse(&read, partition);
    // read the first FAT in one go
    let mut free = Vec::with_capacity(g.cluster_count as usize);
    let width = if g.fat32 { 4usize } else { 2 };
    let fat = &img[g.fat_start as usize * BLK..(g.fat_start + g.fat_blocks) as usize * BLK];
    for c in 2..g.cluster_count as usize + 2 {
        let v = if g.fat32 {
            le32(fat, c * width) & 0x0FFF_FFFF
        } else {
            le16(fat, c * width)
        };
        free.push(v == 0);
    }
    let stale = Rc::new(StaleMap {
        data_start: g.data_start,
        spc: g.spc,
        free,
    });
    (Disk::new(stale), g)
}

fn slot_name(slot: &[u8; 32]) -> String {
    String::from_utf8_lossy(&slot[0..11]).into_owned()
}

// ---------------------------------------------------------------------------
// The scenario
// ---------------------------------------------------------------------------

/// Returns (raw violations, library-level violations, description of the write sequence)
fn grow_subdir_and_check_every_crash_point(partition: usize) -> (Vec<String>, Vec<String>, String) {
    let (disk, g) = used_card(partition);
    let rd = |d: &Disk| {
        let d = d.clone();
        move |idx: u32| d.get(idx)
    };

    // Locate /TEST by hand.
    let read = rd(&disk);
    let test_cluster = g
        .root_slots(&read)
        .iter()
        .find(|s| &s[0..11] == b"TEST       " && s[11] & 0x10 != 0)
        .map(|s| g.slot_cluster(s))
        .expect("TEST dir in root");
    assert_eq!(g.chain(&read, test_cluster).len(), 1, "TEST is one cluster");

    let vm = VolumeManager::new(disk.clone(), Clock);
    let vol = vm
        .open_raw_volume(VolumeIdx(partition))
        .expect("open volume");
    let root = vm.open_root_dir(vol).expect("open root");
    let test_dir = vm.open_dir(root, "TEST").expect("open TEST");

    // Fill TEST up to its very last slot.
    let mut created: Vec<String> = Vec::new();
    loop {
        let free_slots = g
            .cluster_slots(&read, test_cluster)
            .iter()
            .filter(|s| s[0] == 0x00 || s[0] == 0xE5)
            .count();
        if free_slots == 0 {
            break;
        }
        let name = format!("F{:03}.TXT", created.len());
        let f = vm
            .open_file_in_dir(test_dir, name.as_str(), Mode::ReadWriteCreate)
            .expect("create filler file");
        vm.close_file(f).expect("close filler file");
        created.push(name);
    }
    assert_eq!(
        g.chain(&read, test_cluster).len(),
        1,
        "TEST still one cluster"
    );

    // What a correct listing of TEST may contain from now on.
    let mut allowed: Vec<String> = Vec::new();
    vm.iterate_dir(test_dir, |de| allowed.push(de.name.to_string()))
        .expect("list TEST");
    allowed.push("GROW.TXT".to_string());

    // The operation under test: one more entry => the directory must grow.
    let before = disk.snapshot_plus(&[]);
    disk.start_recording();
    let f = vm
        .open_file_in_dir(test_dir, "GROW.TXT", Mode::ReadWriteCreate)
        .expect("create GROW.TXT");
    let log = disk.stop_recording();
    vm.close_file(f).expect("close GROW.TXT");
    let chain_after = g.chain(&read, test_cluster);
    assert_eq!(chain_after.len(), 2, "TEST grew by one cluster");

    let mut seq = String::new();
    for (i, (blk, _)) in log.iter().enumerate() {
        seq.push_str(&format!("    write #{}: {}\n", i + 1, g.describe(*blk)));
    }

    // Check every crash point.
    let mut raw_violations = Vec::new();
    let mut lib_violations = Vec::new();
    for k in 0..=log.len() {
        let snap = before.snapshot_plus(&log[..k]);
        let sread = rd(&snap);
        let at = if k == 0 {
            "before write #1".to_string()
        } else {
            format!("after write #{} ({})", k, g.describe(log[k - 1].0))
        };

        // Raw: every cluster reachable from the directory holds only initialised slots.
        for c in g.chain(&sread, test_cluster) {
            let slots = g.cluster_slots(&sread, c);
            let n = slots.iter().filter(|s| is_stale(&s[..])).count();
            if n != 0 {
                raw_violations.push(format!(
                    "power loss {}: cluster {} is linked into /TEST but holds {} stale slots (first: {:?})",
                    at,
                    c,
                    n,
                    slot_name(slots.iter().find(|s| is_stale(&s[..])).unwrap())
                ));
            }
        }

        // Library: what does a user see after reboot?
        let vm2 = VolumeManager::new(snap.clone(), Clock);
        let vol2 = vm2.open_raw_volume(VolumeIdx(partition)).expect("remount");
        let root2 = vm2.open_root_dir(vol2).expect("root after remount");
        let test2 = vm2.open_dir(root2, "TEST").expect("TEST after remount");
        let mut bogus = Vec::new();
        vm2.iterate_dir(test2, |de| {
            let n = de.name.to_string();
            if !allowed.contains(&n) {
                bogus.push(n);
            }
        })
        .expect("list TEST after remount");
        if !bogus.is_empty() {
            lib_violations.push(format!(
                "power loss {}: listing /TEST after remount shows {} files that were never created, e.g. {:?}",
                at,
                bogus.len(),
                &bogus[..bogus.len().min(3)]
            ));
        }
    }
    (raw_violations, lib_violations, seq)
}

fn check(partition: usize) {
    let (raw, lib, seq) = grow_subdir_and_check_every_crash_point(partition);
    assert!(
        raw.is_empty() && lib.is_empty(),
        "F9: growing a directory exposes an uninitialised cluster at some power-loss points.\n  \
         block writes of the growing create:\n{}  raw FAT/dir walk ({} bad crash points):\n    {}\n  \
         library view after remount ({} bad crash points):\n    {}\n",
        seq,
        raw.len(),
        raw.join("\n    "),
        lib.len(),
        lib.join("\n    "),
    );
}

#[test]
fn f9_fat16_directory_growth_never_exposes_uninitialised_cluster() {
    check(0);
}

#[test]
fn f9_fat32_directory_growth_never_exposes_uninitialised_cluster() {
    check(1);
}
