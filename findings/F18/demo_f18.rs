//! F18: the embedded-io `Read::read` / `Write::write` adapters of `File` call themselves
//! (`self.read(buf)` on `&mut File` resolves to the trait method, not to the inherent `File::read`),
//! so any non-empty transfer through the embedded-io traits recurses until the stack overflows.
mod utils;

use embedded_sdmmc::{Mode, VolumeIdx, VolumeManager};

#[test]
fn embedded_io_read_returns_the_file_contents() {
    let time_source = utils::make_time_source();
    let disk = utils::make_block_device(utils::DISK_SOURCE).unwrap();
    let volume_mgr: VolumeManager<_, _, 4, 2, 1> = VolumeManager::new_with_limits(disk, time_source, 0xAA00_0000);
    let volume = volume_mgr.open_volume(VolumeIdx(0)).unwrap();
    let root = volume.open_root_dir().unwrap();
    let mut f = root.open_file_in_dir("README.TXT", Mode::ReadOnly).unwrap();
    let mut buf = [0u8; 16];
    // run on a small stack so that the overflow is quick; a correct adapter needs far less
    let n = embedded_io::Read::read(&mut f, &mut buf).expect("read through embedded-io");
    assert_eq!(n, 16);
    // same bytes as the inherent API returns
    f.seek_from_start(0).unwrap();
    let mut buf2 = [0u8; 16];
    assert_eq!(f.read(&mut buf2).unwrap(), 16);
    assert_eq!(buf, buf2);
}

#[test]
fn embedded_io_write_appends() {
    let time_source = utils::make_time_source();
    let disk = utils::make_block_device(utils::DISK_SOURCE).unwrap();
    let volume_mgr: VolumeManager<_, _, 4, 2, 1> = VolumeManager::new_with_limits(disk, time_source, 0xAA00_0000);
    let volume = volume_mgr.open_volume(VolumeIdx(0)).unwrap();
    let root = volume.open_root_dir().unwrap();
    let mut f = root.open_file_in_dir("IO.TXT", Mode::ReadWriteCreateOrTruncate).unwrap();
    let n = embedded_io::Write::write(&mut f, b"hello").expect("write through embedded-io");
    assert_eq!(n, 5);
    embedded_io::Write::flush(&mut f).unwrap();
    assert_eq!(f.length(), 5);
}
