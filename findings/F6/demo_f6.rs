//! F6: truncating a multi-cluster file on FAT32 under-counts the clusters
//! it frees by one, so the FSInfo free-cluster count drifts on every
//! truncation.
//!
//! The test truncates `64MB.DAT` on the FAT32 partition of the stock test
//! image, closes everything, and then compares the change in the FSInfo
//! free-cluster count against the ground truth (number of zero entries in the
//! on-disk FAT before and after).

use std::cell::RefCell;
use std::io::prelude::*;
use std::rc::Rc;

use embedded_sdmmc::{Block, BlockCount, BlockDevice, BlockIdx, Mode, VolumeIdx, VolumeManager};

mod utils;

/// A RAM block device whose backing store is shared with the test.
#[derive(Clone)]
struct SharedDisk(Rc<RefCell<Vec<u8>>>);

impl BlockDevice for SharedDisk {
    type Error = ();

    fn read(&self, blocks: &mut [Block], start: BlockIdx) -> Result<(), ()> {
        let data = self.0.borrow();
        for (i, block) in blocks.iter_mut().enumerate() {
            let off = (start.0 as usize + i) * Block::LEN;
            block
                .as_mut_slice()
                .copy_from_slice(data.get(off..off + Block::LEN).ok_or(())?);
        }
        Ok(())
    }

    fn write(&self, blocks: &[Block], start: BlockIdx) -> Result<(), ()> {
        let mut data = self.0.borrow_mut();
        for (i, block) in blocks.iter().enumerate() {
            let off = (start.0 as usize + i) * Block::LEN;
            data.get_mut(off..off + Block::LEN)
                .ok_or(())?
                .copy_from_slice(block.as_slice());
        }
        Ok(())
    }

    fn num_blocks(&self) -> Result<BlockCount, ()> {
        Ok(BlockCount((self.0.borrow().len() / Block::LEN) as u32))
    }
}

fn u16_at(d: &[u8], off: usize) -> u32 {
    u16::from_le_bytes([d[off], d[off + 1]]) as u32
}

fn u32_at(d: &[u8], off: usize) -> u32 {
    u32::from_le_bytes([d[off], d[off + 1], d[off + 2], d[off + 3]])
}

/// Geometry of a FAT32 partition, parsed straight from the raw image.
struct Fat32Geom {
    fat_byte_offset: usize,
    fsinfo_byte_offset: usize,
    cluster_count: u32,
}

impl Fat32Geom {
    fn parse(disk: &[u8], partition: usize) -> Fat32Geom {
        let entry = 446 + 16 * partition;
        let lba_start = u32_at(disk, entry + 8) as usize;
        let bpb = &disk[lba_start * 512..(lba_start + 1) * 512];
        assert_eq!(u16_at(bpb, 11), 512, "bytes per sector");
        let sectors_per_cluster = bpb[13] as u32;
        let reserved = u16_at(bpb, 14);
        let num_fats = bpb[16] as u32;
        assert_eq!(u16_at(bpb, 22), 0, "FAT32 has fat_size_16 == 0");
        let total_sectors = u32_at(bpb, 32);
        let fat_size = u32_at(bpb, 36);
        let fsinfo_sector = u16_at(bpb, 48);
        let data_sectors = total_sectors - (reserved + num_fats * fat_size);
        Fat32Geom {
            fat_byte_offset: (lba_start + reserved as usize) * 512,
            fsinfo_byte_offset: (lba_start + fsinfo_sector as usize) * 512,
            cluster_count: data_sectors / sectors_per_cluster,
        }
    }

    /// The free count recorded in the FSInfo sector.
    fn fsinfo_free_count(&self, disk: &[u8]) -> u32 {
        let fsinfo = &disk[self.fsinfo_byte_offset..self.fsinfo_byte_offset + 512];
        assert_eq!(u32_at(fsinfo, 0), 0x4161_5252, "FSInfo lead signature");
        assert_eq!(u32_at(fsinfo, 484), 0x6141_7272, "FSInfo struct signature");
        u32_at(fsinfo, 488)
    }

    /// The real number of free clusters, counted from the first FAT.
    fn actual_free_count(&self, disk: &[u8]) -> u32 {
        (2..self.cluster_count + 2)
            .filter(|c| u32_at(disk, self.fat_byte_offset + (*c as usize) * 4) & 0x0FFF_FFFF == 0)
            .count() as u32
    }
}

#[test]
fn fat32_truncate_counts_every_freed_cluster() {
    let mut image = Vec::with_capacity(512 * 1024 * 1024);
    flate2::read::GzDecoder::new(std::io::Cursor::new(utils::DISK_SOURCE))
        .read_to_end(&mut image)
        .expect("unpack disk image");
    let store = Rc::new(RefCell::new(image));

    // Partition 1 is the FAT32 one
    let geom = Fat32Geom::parse(&store.borrow(), 1);
    let recorded_before = geom.fsinfo_free_count(&store.borrow());
    let actual_before = geom.actual_free_count(&store.borrow());
    assert_ne!(recorded_before, 0xFFFF_FFFF, "image has a known free count");

    let volume_mgr: VolumeManager<SharedDisk, utils::TestTimeSource, 4, 2, 1> =
        VolumeManager::new_with_limits(
            SharedDisk(store.clone()),
            utils::make_time_source(),
            0xAA00_0000,
        );
    let volume = volume_mgr
        .open_raw_volume(VolumeIdx(1))
        .expect("open FAT32 volume");
    let root_dir = volume_mgr.open_root_dir(volume).expect("open root dir");
    // 64 MiB file, so many clusters get released
    let f = volume_mgr
        .open_file_in_dir(root_dir, "64MB.DAT", Mode::ReadWriteTruncate)
        .expect("open + truncate file");
    volume_mgr.close_file(f).expect("close file");
    volume_mgr.close_dir(root_dir).expect("close dir");
    volume_mgr.close_volume(volume).expect("close volume");
    drop(volume_mgr);

    let recorded_after = geom.fsinfo_free_count(&store.borrow());
    let actual_after = geom.actual_free_count(&store.borrow());

    let really_freed = actual_after - actual_before;
    assert!(
        really_freed > 1,
        "test needs a multi-cluster truncation, freed {}",
        really_freed
    );
    let recorded_freed = recorded_after.wrapping_sub(recorded_before);
    assert_eq!(
        recorded_freed, really_freed,
        "FSInfo free count went {} -> {} (+{}), but the FAT shows {} clusters were freed ({} -> {})",
        recorded_before, recorded_after, recorded_freed, really_freed, actual_before, actual_after
    );
}
