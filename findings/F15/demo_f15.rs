//! F15: `iterate_dir_lfn` must not attach a long file name to a short entry
//! that does not directly follow that long name's fragments.
//!
//! We patch the (otherwise pristine) `TEST` sub-directory of both volumes of
//! the standard test image so that it contains:
//!
//! ```text
//! slot 3: LFN fragment, seq 0x41 (first-and-last), checksum C, "LongName.txt"
//! slot 4: 8.3 entry AAAAAAAA.TXT   (checksum C)   <- owns the long name
//! slot 5: 8.3 entry ZZAAW.TXT      (checksum C too, by coincidence: 1 in 256)
//! ```
//!
//! `ZZAAW.TXT` has no long name of its own, so it must be listed with `None`.

use embedded_sdmmc::{Block, BlockDevice, BlockIdx, LfnBuffer, VolumeIdx, VolumeManager};

mod utils;

/// First block of the `TEST` directory on partition 0 (FAT16) of disk.img
const FAT16_TEST_DIR_BLOCK: u32 = 2608;
/// First block of the `TEST` directory on partition 1 (FAT32) of disk.img
const FAT32_TEST_DIR_BLOCK: u32 = 396848;

const OWNER: &[u8; 11] = b"AAAAAAAATXT";
const INTRUDER: &[u8; 11] = b"ZZAAW   TXT";
const LONG_NAME: &str = "LongName.txt";

/// The standard VFAT short-name checksum.
fn lfn_csum(name: &[u8; 11]) -> u8 {
    let mut sum = 0u8;
    for b in name.iter() {
        sum = sum.rotate_right(1).wrapping_add(*b);
    }
    sum
}

/// Build a single (first-and-last) LFN fragment holding `name` (<= 13 UTF-16 units).
fn lfn_entry(seq: u8, csum: u8, name: &str) -> [u8; 32] {
    let mut units = [0xFFFFu16; 13];
    let encoded: Vec<u16> = name.encode_utf16().collect();
    assert!(encoded.len() <= 13);
    for (i, u) in encoded.iter().enumerate() {
        units[i] = *u;
    }
    if encoded.len() < 13 {
        units[encoded.len()] = 0x0000;
    }
    let mut e = [0u8; 32];
    e[0] = seq;
    e[11] = 0x0F; // ATTR_LONG_NAME
    e[12] = 0;
    e[13] = csum;
    const OFFSETS: [usize; 13] = [1, 3, 5, 7, 9, 14, 16, 18, 20, 22, 24, 28, 30];
    for (u, off) in units.iter().zip(OFFSETS.iter()) {
        e[*off..*off + 2].copy_from_slice(&u.to_le_bytes());
    }
    e
}

/// Build an empty-file 8.3 entry.
fn sfn_entry(name: &[u8; 11]) -> [u8; 32] {
    let mut e = [0u8; 32];
    e[0..11].copy_from_slice(name);
    e[11] = 0x20; // ATTR_ARCHIVE
    e
}

fn patch_test_dir<D: BlockDevice>(disk: &D, block: u32)
where
    D::Error: core::fmt::Debug,
{
    let csum = lfn_csum(OWNER);
    assert_eq!(
        csum,
        lfn_csum(INTRUDER),
        "test precondition: both short names must share a checksum"
    );

    let mut blocks = [Block::new()];
    disk.read(&mut blocks, BlockIdx(block)).expect("read dir block");
    {
        let b = &mut blocks[0];
        // sanity: this really is the TEST directory (., .., TEST.DAT, <end>)
        assert_eq!(&b[0..11], b".          ");
        assert_eq!(&b[32..43], b"..         ");
        assert_eq!(&b[64..75], b"TEST    DAT");
        assert_eq!(b[96], 0x00);
        b[96..128].copy_from_slice(&lfn_entry(0x41, csum, LONG_NAME));
        b[128..160].copy_from_slice(&sfn_entry(OWNER));
        b[160..192].copy_from_slice(&sfn_entry(INTRUDER));
        assert_eq!(b[192], 0x00);
    }
    disk.write(&blocks, BlockIdx(block)).expect("write dir block");
}

fn list_test_dir(volume: usize, dir_block: u32) -> Vec<(String, Option<String>)> {
    let time_source = utils::make_time_source();
    let disk = utils::make_block_device(utils::DISK_SOURCE).unwrap();
    patch_test_dir(&disk, dir_block);

    let volume_mgr = VolumeManager::new(disk, time_source);
    let volume = volume_mgr
        .open_raw_volume(VolumeIdx(volume))
        .expect("open volume");
    let root_dir = volume_mgr.open_root_dir(volume).expect("open root dir");
    let test_dir = volume_mgr.open_dir(root_dir, "TEST").expect("open TEST");

    let mut storage = [0u8; 128];
    let mut lfn_buffer = LfnBuffer::new(&mut storage);
    let mut listing = Vec::new();
    volume_mgr
        .iterate_dir_lfn(test_dir, &mut lfn_buffer, |d, lfn| {
            listing.push((d.name.to_string(), lfn.map(String::from)));
        })
        .expect("iterate TEST");
    listing
}

fn expected() -> Vec<(String, Option<String>)> {
    vec![
        (String::from("."), None),
        (String::from(".."), None),
        (String::from("TEST.DAT"), None),
        (String::from("AAAAAAAA.TXT"), Some(String::from(LONG_NAME))),
        // Has no long name of its own, so must not inherit the previous one
        (String::from("ZZAAW.TXT"), None),
    ]
}

#[test]
fn fat16_long_name_not_reused_for_next_short_entry() {
    let listing = list_test_dir(0, FAT16_TEST_DIR_BLOCK);
    assert_eq!(listing, expected());
}

#[test]
fn fat32_long_name_not_reused_for_next_short_entry() {
    let listing = list_test_dir(1, FAT32_TEST_DIR_BLOCK);
    assert_eq!(listing, expected());
}
