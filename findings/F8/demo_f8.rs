//! F8: deleting a file must give its clusters back to the volume.
//!
//! `VolumeManager::delete_file_in_dir` only marks the directory slot as deleted
//! (0xE5). The file's cluster chain stays allocated in the FAT forever, so the
//! space can never be reused.
//!
//! Tests that FAIL on the unmodified library:
//!   * `fat16_delete_frees_cluster_chain`      (tests/disk.img.gz, partition 0)
//!   * `fat32_delete_frees_cluster_chain`      (tests/disk.img.gz, partition 1)
//!   * `fill_delete_refill_does_not_run_out_of_space` (synthetic FAT16 volume)
//!   * `delete_is_power_cut_safe_and_frees_chain`     (synthetic FAT16 volume)
//!   * `device_error_while_freeing_is_propagated`     (synthetic FAT16 volume)
//! Guard (passes before and after): `deleting_empty_file_touches_no_fat_entry`.

use std::cell::{Cell, RefCell};
use std::io::prelude::*;
use std::rc::Rc;

use embedded_sdmmc::{
    Block, BlockCount, BlockDevice, BlockIdx, Error, Mode, VolumeIdx, VolumeManager,
};

mod utils;

// ---------------------------------------------------------------------------
// A RAM block device we can look inside while the VolumeManager owns it
// ---------------------------------------------------------------------------

#[derive(Debug)]
#[allow(dead_code)]
enum DiskError {
    OutOfBounds(u32),
    Injected,
}

#[derive(Clone)]
struct SharedDisk {
    bytes: Rc<RefCell<Vec<u8>>>,
    /// Every block written, in order: (block index, contents)
    log: Rc<RefCell<Vec<(u32, Vec<u8>)>>>,
    /// When `Some(n)`: n more block writes succeed, then every write fails
    writes_left: Rc<Cell<Option<usize>>>,
}

impl SharedDisk {
    fn new(bytes: Vec<u8>) -> SharedDisk {
        SharedDisk {
            bytes: Rc::new(RefCell::new(bytes)),
            log: Rc::new(RefCell::new(Vec::new())),
            writes_left: Rc::new(Cell::new(None)),
        }
    }

    fn snapshot(&self) -> Vec<u8> {
        self.bytes.borrow().clone()
    }
}

impl BlockDevice for SharedDisk {
    type Error = DiskError;

    fn read(&self, blocks: &mut [Block], start: BlockIdx) -> Result<(), DiskError> {
        let bytes = self.bytes.borrow();
        for (i, block) in blocks.iter_mut().enumerate() {
            let idx = start.0 + i as u32;
            let off = idx as usize * Block::LEN;
            if off + Block::LEN > bytes.len() {
                return Err(DiskError::OutOfBounds(idx));
            }
            block
                .as_mut_slice()
                .copy_from_slice(&bytes[off..off + Block::LEN]);
        }
        Ok(())
    }

    fn write(&self, blocks: &[Block], start: BlockIdx) -> Result<(), DiskError> {
        let mut bytes = self.bytes.borrow_mut();
        for (i, block) in blocks.iter().enumerate() {
            let idx = start.0 + i as u32;
            let off = idx as usize * Block::LEN;
            if off + Block::LEN > bytes.len() {
                return Err(DiskError::OutOfBounds(idx));
            }
            match self.writes_left.get() {
                Some(0) => return Err(DiskError::Injected),
                Some(n) => self.writes_left.set(Some(n - 1)),
                None => {}
            }
            bytes[off..off + Block::LEN].copy_from_slice(block.as_slice());
            self.log.borrow_mut().push((idx, block.as_slice().to_vec()));
        }
        Ok(())
    }

    fn num_blocks(&self) -> Result<BlockCount, DiskError> {
        Ok(BlockCount((self.bytes.borrow().len() / Block::LEN) as u32))
    }
}

// ---------------------------------------------------------------------------
// An independent, minimal FAT reader working on the raw bytes of the disk
// ---------------------------------------------------------------------------

fn u16_at(b: &[u8], off: usize) -> u32 {
    u16::from_le_bytes([b[off], b[off + 1]]) as u32
}

fn u32_at(b: &[u8], off: usize) -> u32 {
    u32::from_le_bytes([b[off], b[off + 1], b[off + 2], b[off + 3]])
}

#[derive(Debug, Clone, Copy)]
struct Layout {
    fat32: bool,
    /// byte offset of each FAT copy
    fat_offsets: [usize; 2],
    num_fats: usize,
    /// byte offset of the FAT32 FSInfo sector
    info_offset: Option<usize>,
    cluster_count: u32,
    cluster_bytes: u32,
}

impl Layout {
    fn parse(disk: &[u8], partition: usize) -> Layout {
        let pe = 446 + 16 * partition;
        let lba = u32_at(disk, pe + 8) as usize;
        let bpb = &disk[lba * 512..lba * 512 + 512];
        assert_eq!(u16_at(bpb, 11), 512);
        let spc = bpb[13] as u32;
        let reserved = u16_at(bpb, 14);
        let num_fats = bpb[16] as u32;
        let root_entries = u16_at(bpb, 17);
        let total = match u16_at(bpb, 19) {
            0 => u32_at(bpb, 32),
            n => n,
        };
        let fat_size = match u16_at(bpb, 22) {
            0 => u32_at(bpb, 36),
            n => n,
        };
        let root_blocks = (root_entries * 32 + 511) / 512;
        let cluster_count = (total - reserved - num_fats * fat_size - root_blocks) / spc;
        let fat32 = cluster_count >= 65525;
        let fat0 = (lba + reserved as usize) * 512;
        Layout {
            fat32,
            fat_offsets: [fat0, fat0 + fat_size as usize * 512],
            num_fats: num_fats as usize,
            info_offset: if fat32 {
                Some((lba + u16_at(bpb, 48) as usize) * 512)
            } else {
                None
            },
            cluster_count,
            cluster_bytes: spc * 512,
        }
    }

    /// The raw FAT entry for `cluster` in FAT copy `copy`
    fn fat_entry(&self, disk: &[u8], copy: usize, cluster: u32) -> u32 {
        if self.fat32 {
            u32_at(disk, self.fat_offsets[copy] + cluster as usize * 4) & 0x0FFF_FFFF
        } else {
            u16_at(disk, self.fat_offsets[copy] + cluster as usize * 2)
        }
    }

    fn is_eoc(&self, entry: u32) -> bool {
        if self.fat32 {
            entry >= 0x0FFF_FFF8
        } else {
            entry >= 0xFFF8
        }
    }

    /// All the clusters of the chain that starts at `first`
    fn chain(&self, disk: &[u8], first: u32) -> Vec<u32> {
        let mut out = Vec::new();
        let mut c = first;
        while c >= 2 && c < self.cluster_count + 2 {
            out.push(c);
            assert!(out.len() <= self.cluster_count as usize, "FAT loop");
            let e = self.fat_entry(disk, 0, c);
            if self.is_eoc(e) {
                break;
            }
            c = e;
        }
        out
    }

    /// Count the free clusters by scanning the whole FAT
    fn count_free(&self, disk: &[u8]) -> u32 {
        (2..self.cluster_count + 2)
            .filter(|c| self.fat_entry(disk, 0, *c) == 0)
            .count() as u32
    }

    fn info_free_count(&self, disk: &[u8]) -> Option<u32> {
        self.info_offset.map(|off| u32_at(disk, off + 488))
    }

    fn info_next_free(&self, disk: &[u8]) -> Option<u32> {
        self.info_offset.map(|off| u32_at(disk, off + 492))
    }
}

/// `ClusterId`'s number is private, so read the first cluster of a file
/// straight out of its on-disk directory entry.
fn first_cluster(layout: &Layout, disk: &[u8], entry: &embedded_sdmmc::DirEntry) -> u32 {
    let slot = entry.entry_block.0 as usize * 512 + entry.entry_offset as usize;
    let lo = u16_at(disk, slot + 26);
    let hi = if layout.fat32 {
        u16_at(disk, slot + 20)
    } else {
        0
    };
    (hi << 16) | lo
}

// ---------------------------------------------------------------------------
// Disk images
// ---------------------------------------------------------------------------

fn unpack_test_image() -> SharedDisk {
    let mut decoder = flate2::read::GzDecoder::new(std::io::Cursor::new(utils::DISK_SOURCE));
    let mut bytes = Vec::with_capacity(512 * 1024 * 1024);
    decoder.read_to_end(&mut bytes).unwrap();
    SharedDisk::new(bytes)
}

const SYN_CLUSTERS: u32 = 4200;

/// A freshly formatted, empty FAT16 volume: MBR in block 0, partition 0 starts
/// at block 1, 1 block per cluster, two FATs, a 16 entry root directory and
/// `SYN_CLUSTERS` (4200) data clusters - about 2 MiB.
fn make_small_fat16() -> SharedDisk {
    let fat_size: u32 = ((SYN_CLUSTERS + 2) * 2 + 511) / 512;
    let part_blocks: u32 = 1 + 2 * fat_size + 1 + SYN_CLUSTERS;
    let mut d = vec![0u8; (1 + part_blocks as usize) * 512];
    // MBR
    d[446 + 4] = 0x06; // FAT16
    d[446 + 8..446 + 12].copy_from_slice(&1u32.to_le_bytes());
    d[446 + 12..446 + 16].copy_from_slice(&part_blocks.to_le_bytes());
    d[510] = 0x55;
    d[511] = 0xAA;
    // BPB
    {
        let b = &mut d[512..1024];
        b[0..3].copy_from_slice(&[0xEB, 0x3C, 0x90]);
        b[3..11].copy_from_slice(b"MSDOS5.0");
        b[11..13].copy_from_slice(&512u16.to_le_bytes());
        b[13] = 1; // blocks per cluster
        b[14..16].copy_from_slice(&1u16.to_le_bytes()); // reserved
        b[16] = 2; // FATs
        b[17..19].copy_from_slice(&16u16.to_le_bytes()); // root entries
        b[19..21].copy_from_slice(&(part_blocks as u16).to_le_bytes());
        b[21] = 0xF8;
        b[22..24].copy_from_slice(&(fat_size as u16).to_le_bytes());
        b[28..32].copy_from_slice(&1u32.to_le_bytes()); // hidden
        b[38] = 0x29;
        b[43..54].copy_from_slice(b"F8 DEMO    ");
        b[54..62].copy_from_slice(b"FAT16   ");
        b[510] = 0x55;
        b[511] = 0xAA;
    }
    // FAT[0], FAT[1] in both copies
    for copy in 0..2 {
        let off = (2 + copy * fat_size as usize) * 512;
        d[off..off + 4].copy_from_slice(&[0xF8, 0xFF, 0xFF, 0xFF]);
    }
    SharedDisk::new(d)
}

type Mgr = VolumeManager<SharedDisk, utils::TestTimeSource, 4, 4, 1>;

fn write_file(
    mgr: &Mgr,
    dir: embedded_sdmmc::RawDirectory,
    name: &str,
    len: usize,
) -> Result<(), Error<DiskError>> {
    let file = mgr.open_file_in_dir(dir, name, Mode::ReadWriteCreateOrTruncate)?;
    let chunk = [0xA5u8; 4096];
    let mut left = len;
    let mut result = Ok(());
    while left > 0 {
        let n = left.min(chunk.len());
        if let Err(e) = mgr.write(file, &chunk[..n]) {
            result = Err(e);
            break;
        }
        left -= n;
    }
    mgr.close_file(file)?;
    result
}

// ---------------------------------------------------------------------------
// Tests against the real test image
// ---------------------------------------------------------------------------

fn delete_frees_cluster_chain(partition: usize) {
    let disk = unpack_test_image();
    let layout = Layout::parse(&disk.bytes.borrow(), partition);
    let free_before = layout.count_free(&disk.bytes.borrow());
    let info_before = layout.info_free_count(&disk.bytes.borrow());

    let mgr: Mgr = VolumeManager::new_with_limits(disk.clone(), utils::make_time_source(), 100);
    let volume = mgr.open_raw_volume(VolumeIdx(partition)).unwrap();
    let root = mgr.open_root_dir(volume).unwrap();

    // three and a half clusters of data => a four cluster chain
    let len = (layout.cluster_bytes * 7 / 2) as usize;
    write_file(&mgr, root, "F8.DAT", len).unwrap();
    let entry = mgr.find_directory_entry(root, "F8.DAT").unwrap();
    assert_eq!(entry.size as usize, len);
    let chain = layout.chain(
        &disk.bytes.borrow(),
        first_cluster(&layout, &disk.bytes.borrow(), &entry),
    );
    assert_eq!(chain.len(), 4, "sanity: file occupies 4 clusters");
    assert_eq!(layout.count_free(&disk.bytes.borrow()), free_before - 4);

    mgr.delete_file_in_dir(root, "F8.DAT").unwrap();
    assert!(matches!(
        mgr.find_directory_entry(root, "F8.DAT"),
        Err(Error::NotFound)
    ));
    mgr.close_dir(root).unwrap();
    mgr.close_volume(volume).unwrap();

    let after = disk.snapshot();
    for copy in 0..layout.num_fats {
        for c in &chain {
            assert_eq!(
                layout.fat_entry(&after, copy, *c),
                0,
                "F8: cluster {} of deleted file is still allocated in FAT copy {} (chain {:?})",
                c,
                copy,
                chain
            );
        }
    }
    assert_eq!(
        layout.count_free(&after),
        free_before,
        "F8: free space after create+delete differs from free space before"
    );
    if let Some(before) = info_before {
        assert_eq!(
            layout.info_free_count(&after),
            Some(before),
            "F8: FSInfo free cluster count not restored by delete"
        );
        let hint = layout.info_next_free(&after).unwrap();
        assert!(
            hint <= *chain.iter().min().unwrap(),
            "F8: FSInfo next-free hint {} is above lowest freed cluster {:?}",
            hint,
            chain
        );
    }
}

#[test]
fn fat16_delete_frees_cluster_chain() {
    delete_frees_cluster_chain(0);
}

#[test]
fn fat32_delete_frees_cluster_chain() {
    delete_frees_cluster_chain(1);
}

// ---------------------------------------------------------------------------
// Tests against a small synthetic FAT16 volume
// ---------------------------------------------------------------------------

#[test]
fn fill_delete_refill_does_not_run_out_of_space() {
    let disk = make_small_fat16();
    let layout = Layout::parse(&disk.bytes.borrow(), 0);
    assert!(!layout.fat32);
    assert_eq!(layout.cluster_count, SYN_CLUSTERS);
    assert_eq!(layout.count_free(&disk.bytes.borrow()), SYN_CLUSTERS);

    let mgr: Mgr = VolumeManager::new_with_limits(disk.clone(), utils::make_time_source(), 100);
    let volume = mgr.open_raw_volume(VolumeIdx(0)).unwrap();
    let root = mgr.open_root_dir(volume).unwrap();

    // 4000 of the 4200 clusters: fits once, but not twice
    let len = 4000 * 512;
    for round in 0..3 {
        let r = write_file(&mgr, root, "BIG.DAT", len);
        assert!(
            r.is_ok(),
            "F8: round {}: writing a {} byte file to an otherwise empty {} byte volume failed: {:?} ({} clusters free)",
            round,
            len,
            SYN_CLUSTERS * 512,
            r,
            layout.count_free(&disk.bytes.borrow())
        );
        assert_eq!(
            mgr.find_directory_entry(root, "BIG.DAT").unwrap().size as usize,
            len
        );
        mgr.delete_file_in_dir(root, "BIG.DAT").unwrap();
    }
    assert_eq!(
        layout.count_free(&disk.bytes.borrow()),
        SYN_CLUSTERS,
        "F8: volume holds no files but clusters are still allocated"
    );
}

#[test]
fn delete_is_power_cut_safe_and_frees_chain() {
    let disk = make_small_fat16();
    let layout = Layout::parse(&disk.bytes.borrow(), 0);
    let mgr: Mgr = VolumeManager::new_with_limits(disk.clone(), utils::make_time_source(), 100);
    let volume = mgr.open_raw_volume(VolumeIdx(0)).unwrap();
    let root = mgr.open_root_dir(volume).unwrap();

    write_file(&mgr, root, "KEEP.DAT", 3 * 512).unwrap();
    write_file(&mgr, root, "GONE.DAT", 5 * 512).unwrap();
    let keep = mgr.find_directory_entry(root, "KEEP.DAT").unwrap();
    let gone = mgr.find_directory_entry(root, "GONE.DAT").unwrap();

    let before = disk.snapshot();
    let keep_first = first_cluster(&layout, &before, &keep);
    let gone_first = first_cluster(&layout, &before, &gone);
    let keep_chain = layout.chain(&before, keep_first);
    let gone_chain = layout.chain(&before, gone_first);
    assert_eq!(keep_chain.len(), 3);
    assert_eq!(gone_chain.len(), 5);
    let slot = gone.entry_block.0 as usize * 512 + gone.entry_offset as usize;
    assert_eq!(&before[slot..slot + 11], b"GONE    DAT");

    disk.log.borrow_mut().clear();
    mgr.delete_file_in_dir(root, "GONE.DAT").unwrap();
    let writes = disk.log.borrow().clone();

    // Replay the writes one at a time: that's every state a power cut can
    // leave behind.
    let mut image = before.clone();
    for (n, (idx, data)) in writes.iter().enumerate() {
        let off = *idx as usize * 512;
        image[off..off + 512].copy_from_slice(data);
        let live = image[slot] != 0xE5;
        if live {
            assert_eq!(
                layout.chain(&image, gone_first),
                gone_chain,
                "power cut after write #{} (block {}): live entry GONE.DAT points at a damaged chain",
                n,
                idx
            );
        }
        assert_eq!(
            layout.chain(&image, keep_first),
            keep_chain,
            "unrelated file damaged after write #{}",
            n
        );
    }
    assert_eq!(image, disk.snapshot(), "replay must reproduce the final disk");
    assert_eq!(image[slot], 0xE5, "entry must be marked deleted");
    let still_allocated: Vec<u32> = gone_chain
        .iter()
        .copied()
        .filter(|c| (0..2).any(|copy| layout.fat_entry(&image, copy, *c) != 0))
        .collect();
    assert!(
        still_allocated.is_empty(),
        "F8: delete issued {} block write(s); clusters {:?} of the deleted file are still allocated",
        writes.len(),
        still_allocated
    );
    assert_eq!(layout.count_free(&image), SYN_CLUSTERS - 3);

    // ... and the freed space is what gets handed out next
    write_file(&mgr, root, "NEXT.DAT", 5 * 512).unwrap();
    let next = mgr.find_directory_entry(root, "NEXT.DAT").unwrap();
    let next_first = first_cluster(&layout, &disk.bytes.borrow(), &next);
    let mut next_chain = layout.chain(&disk.bytes.borrow(), next_first);
    next_chain.sort();
    assert_eq!(next_chain, gone_chain, "freed clusters should be reused");
}

#[test]
fn device_error_while_freeing_is_propagated() {
    let disk = make_small_fat16();
    let layout = Layout::parse(&disk.bytes.borrow(), 0);
    let mgr: Mgr = VolumeManager::new_with_limits(disk.clone(), utils::make_time_source(), 100);
    let volume = mgr.open_raw_volume(VolumeIdx(0)).unwrap();
    let root = mgr.open_root_dir(volume).unwrap();
    write_file(&mgr, root, "GONE.DAT", 5 * 512).unwrap();
    let gone = mgr.find_directory_entry(root, "GONE.DAT").unwrap();
    let gone_first = first_cluster(&layout, &disk.bytes.borrow(), &gone);
    let chain = layout.chain(&disk.bytes.borrow(), gone_first);
    assert_eq!(chain.len(), 5);

    // The directory update gets through, then the card dies
    disk.writes_left.set(Some(1));
    let r = mgr.delete_file_in_dir(root, "GONE.DAT");
    disk.writes_left.set(None);
    let leaked = chain
        .iter()
        .filter(|c| layout.fat_entry(&disk.bytes.borrow(), 0, **c) != 0)
        .count();
    assert!(
        matches!(r, Err(Error::DeviceError(DiskError::Injected))),
        "F8: delete returned {:?} although {} of the file's {} clusters were left allocated",
        r,
        leaked,
        chain.len()
    );
}

#[test]
fn deleting_empty_file_touches_no_fat_entry() {
    let disk = make_small_fat16();
    let layout = Layout::parse(&disk.bytes.borrow(), 0);
    let mgr: Mgr = VolumeManager::new_with_limits(disk.clone(), utils::make_time_source(), 100);
    let volume = mgr.open_raw_volume(VolumeIdx(0)).unwrap();
    let root = mgr.open_root_dir(volume).unwrap();
    write_file(&mgr, root, "KEEP.DAT", 3 * 512).unwrap();
    write_file(&mgr, root, "EMPTY.DAT", 0).unwrap();
    let empty = mgr.find_directory_entry(root, "EMPTY.DAT").unwrap();
    assert_eq!(first_cluster(&layout, &disk.bytes.borrow(), &empty), 0);
    let before = disk.snapshot();
    mgr.delete_file_in_dir(root, "EMPTY.DAT").unwrap();
    let after = disk.snapshot();
    let fat = layout.fat_offsets[0]..layout.fat_offsets[1] * 2 - layout.fat_offsets[0];
    assert_eq!(before[fat.clone()], after[fat], "FAT must be untouched");
    assert_eq!(layout.count_free(&after), SYN_CLUSTERS - 3);
}
