//! F12: `has_open_handles` must report true if any file OR directory is open.

mod utils;

use embedded_sdmmc::{Mode, VolumeIdx, VolumeManager};

type Mgr = VolumeManager<utils::RamDisk<Vec<u8>>, utils::TestTimeSource, 4, 4, 2>;

fn make_mgr() -> Mgr {
    let time_source = utils::make_time_source();
    let disk = utils::make_block_device(utils::DISK_SOURCE).unwrap();
    VolumeManager::new_with_limits(disk, time_source, 0x1000_0000)
}

#[test]
fn nothing_open() {
    let volume_mgr = make_mgr();
    assert!(!volume_mgr.has_open_handles());
    let volume = volume_mgr.open_raw_volume(VolumeIdx(0)).expect("open volume");
    // A volume is neither a file nor a folder
    assert!(!volume_mgr.has_open_handles());
    volume_mgr.close_volume(volume).expect("close volume");
}

#[test]
fn only_a_directory_open() {
    let volume_mgr = make_mgr();
    let volume = volume_mgr.open_raw_volume(VolumeIdx(0)).expect("open volume");
    let root = volume_mgr.open_root_dir(volume).expect("open root");

    assert!(
        volume_mgr.has_open_handles(),
        "has_open_handles() is false while a directory is open"
    );

    volume_mgr.close_dir(root).expect("close root");
    assert!(!volume_mgr.has_open_handles());
    volume_mgr.close_volume(volume).expect("close volume");
}

#[test]
fn only_a_file_open() {
    let volume_mgr = make_mgr();
    let volume = volume_mgr.open_raw_volume(VolumeIdx(0)).expect("open volume");
    let root = volume_mgr.open_root_dir(volume).expect("open root");
    let file = volume_mgr
        .open_file_in_dir(root, "README.TXT", Mode::ReadOnly)
        .expect("open file");

    // Both open: this is the only case the unfixed code gets right.
    assert!(volume_mgr.has_open_handles());

    // Files outlive the directory they were opened from.
    volume_mgr.close_dir(root).expect("close root");
    assert!(
        volume_mgr.has_open_handles(),
        "has_open_handles() is false while a file is open"
    );

    volume_mgr.close_file(file).expect("close file");
    assert!(!volume_mgr.has_open_handles());
    volume_mgr.close_volume(volume).expect("close volume");
}
