//! F5: `alloc_cluster` reports failure when it hands out the LAST free cluster
//! of a volume.
//!
//! After the new cluster has been committed to the FAT (marked end-of-chain
//! and linked from its predecessor), `alloc_cluster` recomputes its "next free
//! cluster" hint. If there is no further free cluster, that search fails with
//! `NotEnoughSpace` and `alloc_cluster` returns that error - although the
//! allocation itself already happened. `write` then fails with
//! `DiskFull`/`NotEnoughSpace`, so the last free cluster can never hold data,
//! and when it was to be the first cluster of a file it is leaked: marked
//! in-use in the FAT, but owned by no file.
//!
//! A user is entitled to store data up to the nominal capacity of the volume.
//!
//! These tests use volumes whose FAT has NO slack entries after the last real
//! cluster (`cluster_count + 2` is a multiple of the entries per FAT sector),
//! so that they are independent of defect F4: on a FAT with zeroed slack
//! entries, F4 makes the hint search "find" a non-existent cluster, which hides
//! F5 (see `demo_f5_slack_interaction.rs` for that geometry).

use std::cell::RefCell;
use std::rc::Rc;

use embedded_sdmmc::{
    Block, BlockCount, BlockDevice, BlockIdx, Error, Mode, TimeSource, Timestamp, VolumeIdx,
    VolumeManager,
};

const BLOCK: usize = 512;
/// First block of the partition
const LBA_START: u32 = 64;
/// Number of sentinel blocks after the partition ("the next partition")
const GUARD_BLOCKS: u32 = 64;
const GUARD_BYTE: u8 = 0xA5;

// ---------------------------------------------------------------------------
// A RAM block device which records writes and which the test keeps a handle on
// ---------------------------------------------------------------------------

struct Inner {
    data: RefCell<Vec<u8>>,
    writes: RefCell<Vec<u32>>,
}

#[derive(Clone)]
struct SharedDisk(Rc<Inner>);

#[derive(Debug)]
#[allow(dead_code)]
enum DiskError {
    OutOfBounds(u32),
}

impl BlockDevice for SharedDisk {
    type Error = DiskError;

    fn read(&self, blocks: &mut [Block], start: BlockIdx) -> Result<(), DiskError> {
        let data = self.0.data.borrow();
        for (i, b) in blocks.iter_mut().enumerate() {
            let idx = start.0 + i as u32;
            let off = idx as usize * BLOCK;
            if off + BLOCK > data.len() {
                return Err(DiskError::OutOfBounds(idx));
            }
            b.contents.copy_from_slice(&data[off..off + BLOCK]);
        }
        Ok(())
    }

    fn write(&self, blocks: &[Block], start: BlockIdx) -> Result<(), DiskError> {
        let mut data = self.0.data.borrow_mut();
        for (i, b) in blocks.iter().enumerate() {
            let idx = start.0 + i as u32;
            let off = idx as usize * BLOCK;
            if off + BLOCK > data.len() {
                return Err(DiskError::OutOfBounds(idx));
            }
            self.0.writes.borrow_mut().push(idx);
            data[off..off + BLOCK].copy_from_slice(&b.contents);
        }
        Ok(())
    }

    fn num_blocks(&self) -> Result<BlockCount, DiskError> {
        Ok(BlockCount((self.0.data.borrow().len() / BLOCK) as u32))
    }
}

struct Clock;

impl TimeSource for Clock {
    fn get_timestamp(&self) -> Timestamp {
        Timestamp {
            year_since_1970: 33,
            zero_indexed_month: 3,
            zero_indexed_day: 3,
            hours: 13,
            minutes: 30,
            seconds: 4,
        }
    }
}

// ---------------------------------------------------------------------------
// Synthetic volume builder
// ---------------------------------------------------------------------------

#[derive(Clone, Copy, PartialEq)]
enum Kind {
    Fat16,
    Fat32,
}

/// Geometry of a synthetic one-partition disk. All numbers are in blocks; the
/// `*_start` fields are absolute block numbers on the disk.
struct Layout {
    kind: Kind,
    cluster_count: u32,
    fat_blocks: u32,
    fat1_start: u32,
    fat2_start: u32,
    /// FAT16: the fixed root directory block. FAT32: the block of cluster 2.
    root_dir_block: u32,
    first_data_block: u32,
    /// One past the last block of the partition
    partition_end: u32,
}

impl Layout {
    fn new(kind: Kind, cluster_count: u32) -> Layout {
        let ent = match kind {
            Kind::Fat16 => 2,
            Kind::Fat32 => 4,
        };
        let fat_blocks = ((cluster_count + 2) * ent + 511) / 512;
        let reserved = match kind {
            Kind::Fat16 => 1,
            Kind::Fat32 => 32,
        };
        let root_dir_blocks = match kind {
            Kind::Fat16 => 1, // 16 entries
            Kind::Fat32 => 0,
        };
        let fat1_start = LBA_START + reserved;
        let fat2_start = fat1_start + fat_blocks;
        let root = fat2_start + fat_blocks;
        let first_data_block = root + root_dir_blocks;
        Layout {
            kind,
            cluster_count,
            fat_blocks,
            fat1_start,
            fat2_start,
            root_dir_block: root,
            first_data_block,
            partition_end: first_data_block + cluster_count,
        }
    }

    /// How many FAT entries physically fit in the FAT
    fn fat_capacity(&self) -> u32 {
        match self.kind {
            Kind::Fat16 => self.fat_blocks * 256,
            Kind::Fat32 => self.fat_blocks * 128,
        }
    }

    fn cluster_block(&self, cluster: u32) -> u32 {
        self.first_data_block + (cluster - 2)
    }
}

fn put16(img: &mut [u8], off: usize, v: u16) {
    img[off..off + 2].copy_from_slice(&v.to_le_bytes());
}

fn put32(img: &mut [u8], off: usize, v: u32) {
    img[off..off + 4].copy_from_slice(&v.to_le_bytes());
}

fn set_fat(img: &mut [u8], l: &Layout, cluster: u32, value: u32) {
    for fat in [l.fat1_start, l.fat2_start] {
        match l.kind {
            Kind::Fat16 => put16(
                img,
                fat as usize * BLOCK + cluster as usize * 2,
                value as u16,
            ),
            Kind::Fat32 => put32(
                img,
                fat as usize * BLOCK + cluster as usize * 4,
                value & 0x0FFF_FFFF,
            ),
        }
    }
}

fn get_fat(img: &[u8], l: &Layout, cluster: u32) -> u32 {
    match l.kind {
        Kind::Fat16 => {
            let off = l.fat1_start as usize * BLOCK + cluster as usize * 2;
            u32::from(u16::from_le_bytes([img[off], img[off + 1]]))
        }
        Kind::Fat32 => {
            let off = l.fat1_start as usize * BLOCK + cluster as usize * 4;
            u32::from_le_bytes([img[off], img[off + 1], img[off + 2], img[off + 3]]) & 0x0FFF_FFFF
        }
    }
}

/// Link clusters `first..=last` into one chain and give it the directory entry
/// `name` (8.3, space padded) in slot `slot` of the root directory.
fn add_file(img: &mut [u8], l: &Layout, slot: usize, name: &[u8; 11], first: u32, last: u32) {
    for c in first..last {
        set_fat(img, l, c, c + 1);
    }
    set_fat(img, l, last, 0x0FFF_FFFF);
    let off = l.root_dir_block as usize * BLOCK + slot * 32;
    img[off..off + 11].copy_from_slice(name);
    img[off + 11] = 0x20; // ARCHIVE
    put16(img, off + 20, (first >> 16) as u16);
    put16(img, off + 26, first as u16);
    put32(img, off + 28, (last - first + 1) * 512);
}

/// Build an MBR disk with one freshly formatted (empty) FAT partition,
/// followed by guard blocks.
fn format(kind: Kind, cluster_count: u32) -> (Vec<u8>, Layout) {
    let l = Layout::new(kind, cluster_count);
    let total_blocks = l.partition_end - LBA_START;
    let mut img = vec![0u8; (l.partition_end + GUARD_BLOCKS) as usize * BLOCK];
    for b in &mut img[l.partition_end as usize * BLOCK..] {
        *b = GUARD_BYTE;
    }

    // MBR, partition 0
    let p = 446;
    img[p + 4] = match kind {
        Kind::Fat16 => 0x06,
        Kind::Fat32 => 0x0C,
    };
    put32(&mut img, p + 8, LBA_START);
    put32(&mut img, p + 12, total_blocks);
    put16(&mut img, 510, 0xAA55);

    // BPB
    let b = LBA_START as usize * BLOCK;
    img[b..b + 3].copy_from_slice(&[0xEB, 0x3C, 0x90]);
    img[b + 3..b + 11].copy_from_slice(b"SYNTH   ");
    put16(&mut img, b + 11, 512); // bytes per block
    img[b + 13] = 1; // blocks per cluster
    put16(&mut img, b + 14, (l.fat1_start - LBA_START) as u16); // reserved blocks
    img[b + 16] = 2; // number of FATs
    img[b + 21] = 0xF8; // media
    put32(&mut img, b + 28, LBA_START); // hidden blocks
    match kind {
        Kind::Fat16 => {
            put16(&mut img, b + 17, 16); // root entries
            put16(&mut img, b + 19, total_blocks as u16);
            put16(&mut img, b + 22, l.fat_blocks as u16);
            img[b + 43..b + 54].copy_from_slice(b"SYNTH16    ");
        }
        Kind::Fat32 => {
            put32(&mut img, b + 32, total_blocks);
            put32(&mut img, b + 36, l.fat_blocks);
            put16(&mut img, b + 42, 0); // version
            put32(&mut img, b + 44, 2); // root dir cluster
            put16(&mut img, b + 48, 1); // FS info block
            img[b + 71..b + 82].copy_from_slice(b"SYNTH32    ");
            // FS Info block: free count and next free both "unknown"
            let i = b + BLOCK;
            put32(&mut img, i, 0x4161_5252);
            put32(&mut img, i + 484, 0x6141_7272);
            put32(&mut img, i + 488, 0xFFFF_FFFF);
            put32(&mut img, i + 492, 0xFFFF_FFFF);
            put32(&mut img, i + 508, 0xAA55_0000);
        }
    }
    put16(&mut img, b + 510, 0xAA55);

    // Reserved FAT entries
    set_fat(&mut img, &l, 0, 0x0FFF_FFF8);
    set_fat(&mut img, &l, 1, 0x0FFF_FFFF);
    if kind == Kind::Fat32 {
        // root directory lives in cluster 2
        set_fat(&mut img, &l, 2, 0x0FFF_FFFF);
    }
    (img, l)
}

fn new_disk(img: Vec<u8>) -> SharedDisk {
    SharedDisk(Rc::new(Inner {
        data: RefCell::new(img),
        writes: RefCell::new(Vec::new()),
    }))
}

/// First cluster usable for file data on an empty volume
fn first_file_cluster(kind: Kind) -> u32 {
    match kind {
        Kind::Fat16 => 2,
        Kind::Fat32 => 3, // cluster 2 holds the root directory
    }
}

/// Follow a chain in the FAT, returning the clusters in it.
fn chain(img: &[u8], l: &Layout, first: u32) -> Vec<u32> {
    let eoc = match l.kind {
        Kind::Fat16 => 0xFFF8,
        Kind::Fat32 => 0x0FFF_FFF8,
    };
    let mut out = Vec::new();
    let mut c = first;
    while c >= 2 && c < eoc {
        assert!(c < l.cluster_count + 2, "chain leaves the volume at {}", c);
        assert!(out.len() <= l.cluster_count as usize, "loop in chain");
        out.push(c);
        c = get_fat(img, l, c);
    }
    out
}

/// Every cluster marked in-use in the FAT must belong to a file in the root
/// directory (or to the FAT32 root directory itself). Returns the orphans.
fn leaked_clusters(img: &[u8], l: &Layout) -> Vec<u32> {
    let mut owned = vec![false; l.cluster_count as usize + 2];
    if l.kind == Kind::Fat32 {
        for c in chain(img, l, 2) {
            owned[c as usize] = true;
        }
    }
    let root = l.root_dir_block as usize * BLOCK;
    for slot in 0..16 {
        let e = &img[root + slot * 32..root + slot * 32 + 32];
        if e[0] == 0x00 {
            break;
        }
        if e[0] == 0xE5 || e[11] & 0x0F == 0x0F {
            continue;
        }
        let first = u32::from(u16::from_le_bytes([e[26], e[27]]))
            | (u32::from(u16::from_le_bytes([e[20], e[21]])) << 16);
        for c in chain(img, l, first) {
            owned[c as usize] = true;
        }
    }
    (2..l.cluster_count + 2)
        .filter(|&c| get_fat(img, l, c) != 0 && !owned[c as usize])
        .collect()
}

fn pattern(block_no: u32) -> [u8; 512] {
    let mut b = [0u8; 512];
    for (i, x) in b.iter_mut().enumerate() {
        *x = (block_no as usize * 31 + i * 7 + 1) as u8;
    }
    b
}

/// On a freshly formatted volume, one file must be able to take every data
/// cluster.
fn fill_empty_volume_exactly(kind: Kind, cluster_count: u32) {
    let (img, l) = format(kind, cluster_count);
    let disk = new_disk(img);
    let capacity_clusters = cluster_count + 2 - first_file_cluster(kind);

    let volume_mgr: VolumeManager<SharedDisk, Clock, 4, 4, 1> =
        VolumeManager::new_with_limits(disk.clone(), Clock, 0x1000);
    let volume = volume_mgr.open_raw_volume(VolumeIdx(0)).expect("open volume");
    let root = volume_mgr.open_root_dir(volume).expect("open root");
    let f = volume_mgr
        .open_file_in_dir(root, "FILL.DAT", Mode::ReadWriteCreate)
        .expect("create file");

    // one cluster (= one block) per write, so we can say how far we got
    for n in 0..capacity_clusters {
        let r = volume_mgr.write(f, &pattern(n));
        assert!(
            r.is_ok(),
            "volume has {} free clusters of 512 bytes, but writing cluster-sized chunk #{} (0-based) of {} failed with {:?}",
            capacity_clusters,
            n,
            capacity_clusters,
            r
        );
    }
    assert_eq!(
        volume_mgr.file_length(f).expect("length"),
        capacity_clusters * 512
    );
    // ... and now it really is full
    let r = volume_mgr.write(f, &[0u8; 1]);
    assert!(
        matches!(r, Err(Error::DiskFull) | Err(Error::NotEnoughSpace)),
        "writing past capacity returned {:?}",
        r
    );
    volume_mgr.close_file(f).expect("close");

    // Read it all back
    let f = volume_mgr
        .open_file_in_dir(root, "FILL.DAT", Mode::ReadOnly)
        .expect("reopen");
    assert_eq!(
        volume_mgr.file_length(f).expect("length"),
        capacity_clusters * 512
    );
    for n in 0..capacity_clusters {
        let mut buf = [0u8; 512];
        assert_eq!(volume_mgr.read(f, &mut buf).expect("read"), 512);
        assert!(buf == pattern(n), "content mismatch in block {}", n);
    }
    volume_mgr.close_file(f).expect("close");

    let img = disk.0.data.borrow();
    assert_eq!(leaked_clusters(&img, &l), Vec::<u32>::new());
    assert!(
        disk.0
            .writes
            .borrow()
            .iter()
            .all(|&b| b >= LBA_START && b < l.partition_end),
        "wrote outside the partition"
    );
}

/// `BIG.DAT` owns every cluster but `free_cluster`. A new file must be able to
/// use that one remaining cluster.
fn new_file_gets_the_last_free_cluster(kind: Kind, cluster_count: u32, free_cluster: u32) {
    let (mut img, l) = format(kind, cluster_count);
    let first = first_file_cluster(kind);
    let last = cluster_count + 1;
    assert!(free_cluster > first && free_cluster <= last);
    // chain first..=last, skipping over free_cluster
    add_file(&mut img, &l, 0, b"BIG     DAT", first, last);
    if free_cluster == last {
        set_fat(&mut img, &l, last - 1, 0x0FFF_FFFF);
    } else {
        set_fat(&mut img, &l, free_cluster - 1, free_cluster + 1);
    }
    set_fat(&mut img, &l, free_cluster, 0);
    let size_off = l.root_dir_block as usize * BLOCK + 28;
    put32(&mut img, size_off, (last - first) * 512);
    assert_eq!(leaked_clusters(&img, &l), Vec::<u32>::new(), "bad fixture");
    let free: Vec<u32> = (2..cluster_count + 2)
        .filter(|&c| get_fat(&img, &l, c) == 0)
        .collect();
    assert_eq!(free, vec![free_cluster], "bad fixture");
    let disk = new_disk(img);

    let volume_mgr: VolumeManager<SharedDisk, Clock, 4, 4, 1> =
        VolumeManager::new_with_limits(disk.clone(), Clock, 0x1000);
    let volume = volume_mgr.open_raw_volume(VolumeIdx(0)).expect("open volume");
    let root = volume_mgr.open_root_dir(volume).expect("open root");
    let f = volume_mgr
        .open_file_in_dir(root, "NEW.DAT", Mode::ReadWriteCreate)
        .expect("create file");
    let result = volume_mgr.write(f, b"hello, last cluster");
    let _ = volume_mgr.close_file(f);

    {
        let img = disk.0.data.borrow();
        let leaked = leaked_clusters(&img, &l);
        assert!(
            result.is_ok() && leaked.is_empty(),
            "exactly one cluster ({}) was free; write of 19 bytes to a new file returned {:?}; clusters marked in-use but owned by no file afterwards: {:?}",
            free_cluster,
            result,
            leaked
        );
    }

    let entry = volume_mgr
        .find_directory_entry(root, "NEW.DAT")
        .expect("find entry");
    assert_eq!(entry.size, 19);
    let f = volume_mgr
        .open_file_in_dir(root, "NEW.DAT", Mode::ReadOnly)
        .expect("reopen");
    let mut buf = [0u8; 64];
    let n = volume_mgr.read(f, &mut buf).expect("read");
    assert_eq!(&buf[..n], b"hello, last cluster");
    volume_mgr.close_file(f).expect("close");
    // data went into the one free cluster
    let img = disk.0.data.borrow();
    let off = l.cluster_block(free_cluster) as usize * BLOCK;
    assert_eq!(&img[off..off + 19], b"hello, last cluster");
}

// No slack: 4094 clusters -> 4096 FAT16 entries = exactly 16 FAT sectors.
const FAT16_NO_SLACK: u32 = 4094;
// No slack: 65662 clusters -> 65664 FAT32 entries = exactly 513 FAT sectors.
const FAT32_NO_SLACK: u32 = 65662;

#[test]
fn fixtures_have_no_fat_slack() {
    for (kind, cc) in [(Kind::Fat16, FAT16_NO_SLACK), (Kind::Fat32, FAT32_NO_SLACK)] {
        assert_eq!(Layout::new(kind, cc).fat_capacity(), cc + 2);
    }
}

#[test]
fn fat16_file_can_fill_volume_exactly() {
    fill_empty_volume_exactly(Kind::Fat16, FAT16_NO_SLACK);
}

#[test]
fn fat16_new_file_gets_last_free_cluster_at_end() {
    new_file_gets_the_last_free_cluster(Kind::Fat16, FAT16_NO_SLACK, FAT16_NO_SLACK + 1);
}

#[test]
fn fat16_new_file_gets_last_free_cluster_in_middle() {
    new_file_gets_the_last_free_cluster(Kind::Fat16, FAT16_NO_SLACK, 1000);
}

#[test]
fn fat32_file_can_fill_volume_exactly() {
    fill_empty_volume_exactly(Kind::Fat32, FAT32_NO_SLACK);
}

#[test]
fn fat32_new_file_gets_last_free_cluster_at_end() {
    new_file_gets_the_last_free_cluster(Kind::Fat32, FAT32_NO_SLACK, FAT32_NO_SLACK + 1);
}

#[test]
fn fat32_new_file_gets_last_free_cluster_in_middle() {
    new_file_gets_the_last_free_cluster(Kind::Fat32, FAT32_NO_SLACK, 1000);
}
