//! F16: `SdCardInner::read_csd` picks the CSD register layout from the card
//! kind as `SD1 => CsdV1`, `SD2 | SDHC => CsdV2`.
//!
//! `CardType::SD2` is a *standard-capacity* card that implements physical
//! layer v2.x: it answers CMD8, but its OCR has CCS = 0 (otherwise the driver
//! upgrades it to `SDHC`). Per the SD Physical Layer Simplified Specification
//! (5.3.1, CSD_STRUCTURE) every Standard Capacity card uses CSD Version 1.0;
//! only High / Extended Capacity cards use CSD Version 2.0. So the driver
//! decodes a v1-layout register with the v2 field positions and reports a
//! wrong capacity.
//!
//! These tests drive the real, unmodified `SdCard` driver against a fake SPI
//! SD card (a byte-level model of the SPI-mode protocol).

use std::cell::RefCell;
use std::collections::VecDeque;
use std::convert::Infallible;
use std::rc::Rc;

use embedded_hal::spi::{ErrorType, Operation, SpiDevice};
use embedded_sdmmc::sdcard::{AcquireOpts, CardType};
use embedded_sdmmc::{BlockCount, BlockDevice, SdCard};

// ---------------------------------------------------------------------------
// Independent CRC implementations (deliberately not the library's own)
// ---------------------------------------------------------------------------

/// CRC7 (poly x^7 + x^3 + 1), returned in SD wire format: `(crc << 1) | 1`.
fn crc7_wire(data: &[u8]) -> u8 {
    let mut crc: u8 = 0; // 7 bit register
    for &byte in data {
        for bit in (0..8).rev() {
            let inbit = (byte >> bit) & 1;
            let top = (crc >> 6) & 1;
            crc = (crc << 1) & 0x7F;
            if (inbit ^ top) != 0 {
                crc ^= 0x09;
            }
        }
    }
    (crc << 1) | 1
}

/// CRC16-CCITT (XMODEM: poly 0x1021, init 0), as used for SD data packets.
fn crc16_ccitt(data: &[u8]) -> u16 {
    let mut crc: u16 = 0;
    for &byte in data {
        crc ^= u16::from(byte) << 8;
        for _ in 0..8 {
            if (crc & 0x8000) != 0 {
                crc = (crc << 1) ^ 0x1021;
            } else {
                crc <<= 1;
            }
        }
    }
    crc
}

// ---------------------------------------------------------------------------
// CSD register builders
// ---------------------------------------------------------------------------

/// Build a CSD Version 1.0 register (SD Physical Layer spec, table 5-4).
///
/// Everything other than the three capacity fields is what a typical real
/// SDSC card reports.
fn build_csd_v1(read_bl_len: u8, c_size: u16, c_size_mult: u8) -> [u8; 16] {
    assert!(read_bl_len <= 0x0F && c_size <= 0x0FFF && c_size_mult <= 7);
    let mut csd = [0u8; 16];
    csd[0] = 0x00; // [127:126] CSD_STRUCTURE = 0 (Version 1.0), [125:120] reserved
    csd[1] = 0x26; // [119:112] TAAC
    csd[2] = 0x00; // [111:104] NSAC
    csd[3] = 0x32; // [103:96]  TRAN_SPEED (25 MHz)
    csd[4] = 0x5B; // [95:88]   CCC (upper 8 of 12 bits), CCC = 0x5B5
    csd[5] = 0x50 | read_bl_len; // [87:84] CCC low nibble, [83:80] READ_BL_LEN
    // [79] READ_BL_PARTIAL = 1, [78] WRITE_BLK_MISALIGN = 0, [77] READ_BLK_MISALIGN = 0,
    // [76] DSR_IMP = 0, [75:74] reserved, [73:72] C_SIZE[11:10]
    csd[6] = 0x80 | ((c_size >> 10) as u8 & 0x03);
    csd[7] = (c_size >> 2) as u8; // [71:64] C_SIZE[9:2]
    // [63:62] C_SIZE[1:0], [61:59] VDD_R_CURR_MIN = 7, [58:56] VDD_R_CURR_MAX = 7
    csd[8] = (((c_size & 0x03) as u8) << 6) | 0x3F;
    // [55:53] VDD_W_CURR_MIN = 7, [52:50] VDD_W_CURR_MAX = 7, [49:48] C_SIZE_MULT[2:1]
    csd[9] = 0xFC | (c_size_mult >> 1);
    // [47] C_SIZE_MULT[0], [46] ERASE_BLK_EN = 1, [45:40] SECTOR_SIZE[6:1] (SECTOR_SIZE = 31)
    csd[10] = ((c_size_mult & 1) << 7) | 0x40 | 0x0F;
    csd[11] = 0x80; // [39] SECTOR_SIZE[0] = 1, [38:32] WP_GRP_SIZE = 0
    csd[12] = 0x16; // [31] WP_GRP_ENABLE = 0, [28:26] R2W_FACTOR = 5, [25:24] WRITE_BL_LEN[3:2] = 0b10
    csd[13] = 0x80; // [23:22] WRITE_BL_LEN[1:0] = 0b10, [21] WRITE_BL_PARTIAL = 0
    csd[14] = 0x00; // FILE_FORMAT_GRP, COPY, PERM/TMP_WRITE_PROTECT, FILE_FORMAT
    csd[15] = crc7_wire(&csd[0..15]); // [7:1] CRC7, [0] always 1
    csd
}

/// A 2 GiB SDSC card: READ_BL_LEN = 10, C_SIZE = 4095, C_SIZE_MULT = 7
/// => (4095 + 1) * 2^(7 + 2) * 2^10 = 2^31 bytes.
fn csd_v1_2gib() -> [u8; 16] {
    build_csd_v1(10, 4095, 7)
}

/// CSD captured from a real "2 GB" SDSC card (it is the test vector used by
/// the crate's own `proto::test::test_csdv1` unit test, which documents the
/// expected size as 1_978_662_912 bytes). CSD_STRUCTURE = 0, READ_BL_LEN = 10,
/// C_SIZE = 3773, C_SIZE_MULT = 7.
const REAL_2GB_CSD_V1: [u8; 16] = [
    0x00, 0x7F, 0x00, 0x32, 0x5B, 0x5A, 0x83, 0xAF, 0x7F, 0xFF, 0xCF, 0x80, 0x16, 0x80, 0x00, 0x6F,
];

/// CSD Version 2.0 register from a real SDHC card (the crate's own
/// `proto::test::test_csdv2` vector): C_SIZE = 7529 => 7530 * 512 KiB.
const REAL_SDHC_CSD_V2: [u8; 16] = [
    0x40, 0x0E, 0x00, 0x32, 0x5B, 0x59, 0x00, 0x00, 0x1D, 0x69, 0x7F, 0x80, 0x0A, 0x40, 0x00, 0x8B,
];

// ---------------------------------------------------------------------------
// The fake card
// ---------------------------------------------------------------------------

#[derive(Clone, Copy, Debug, PartialEq, Eq)]
enum FakeKind {
    /// Physical layer v1.x standard capacity: CMD8 is an illegal command.
    V1StandardCapacity,
    /// Physical layer v2.x standard capacity: CMD8 OK, OCR CCS = 0.
    V2StandardCapacity,
    /// Physical layer v2.x high capacity: CMD8 OK, OCR CCS = 1.
    V2HighCapacity,
}

#[derive(Debug, Default)]
struct Log {
    /// (command index, argument) for every command frame received
    commands: Vec<(u8, u32)>,
    /// Number of command frames whose CRC7 did not match
    bad_crc7: u32,
}

/// Byte-level model of an SD card in SPI mode. Every byte clocked by the host
/// goes through `clock()`, which returns the byte the card drives on MISO.
struct FakeSdCard {
    kind: FakeKind,
    csd: [u8; 16],
    idle: bool,
    crc_on: bool,
    app_cmd: bool,
    acmd41_polls: u32,
    frame: Vec<u8>,
    tx: VecDeque<u8>,
    log: Rc<RefCell<Log>>,
}

const R1_IDLE: u8 = 0x01;
const R1_ILLEGAL_COMMAND: u8 = 0x04;
const R1_COM_CRC_ERROR: u8 = 0x08;

impl FakeSdCard {
    fn new(kind: FakeKind, csd: [u8; 16]) -> (FakeSdCard, Rc<RefCell<Log>>) {
        let log = Rc::new(RefCell::new(Log::default()));
        (
            FakeSdCard {
                kind,
                csd,
                idle: false,
                crc_on: false,
                app_cmd: false,
                acmd41_polls: 0,
                frame: Vec::new(),
                tx: VecDeque::new(),
                log: log.clone(),
            },
            log,
        )
    }

    fn r1(&self) -> u8 {
        if self.idle {
            R1_IDLE
        } else {
            0x00
        }
    }

    fn clock(&mut self, mosi: u8) -> u8 {
        if !self.frame.is_empty() || (mosi & 0xC0) == 0x40 {
            // Receiving a 6 byte command frame; the card drives MISO high.
            if self.frame.is_empty() {
                self.tx.clear();
            }
            self.frame.push(mosi);
            if self.frame.len() == 6 {
                let frame = std::mem::take(&mut self.frame);
                self.handle_command(&frame);
            }
            0xFF
        } else {
            self.tx.pop_front().unwrap_or(0xFF)
        }
    }

    fn handle_command(&mut self, frame: &[u8]) {
        let cmd = frame[0] & 0x3F;
        let arg = u32::from_be_bytes([frame[1], frame[2], frame[3], frame[4]]);
        self.log.borrow_mut().commands.push((cmd, arg));
        let was_app_cmd = std::mem::replace(&mut self.app_cmd, false);

        // N_CR: one byte of 0xFF before the response.
        self.tx.push_back(0xFF);

        // CMD0 and CMD8 always need a valid CRC7; everything else only once
        // CRC checking has been switched on with CMD59.
        let crc_ok = frame[5] == crc7_wire(&frame[0..5]);
        if !crc_ok {
            self.log.borrow_mut().bad_crc7 += 1;
            if self.crc_on || cmd == 0 || cmd == 8 {
                self.tx.push_back(self.r1() | R1_COM_CRC_ERROR);
                return;
            }
        }

        match (cmd, was_app_cmd) {
            (0, _) => {
                // GO_IDLE_STATE
                self.idle = true;
                self.crc_on = false;
                self.acmd41_polls = 0;
                self.tx.push_back(R1_IDLE);
            }
            (59, _) => {
                // CRC_ON_OFF
                self.crc_on = (arg & 1) != 0;
                self.tx.push_back(self.r1());
            }
            (8, _) => {
                // SEND_IF_COND
                if self.kind == FakeKind::V1StandardCapacity {
                    self.tx.push_back(self.r1() | R1_ILLEGAL_COMMAND);
                } else {
                    // R7: R1, then command version / reserved, voltage accepted, echo
                    self.tx.push_back(self.r1());
                    self.tx
                        .extend([0x00, 0x00, (arg >> 8) as u8 & 0x0F, arg as u8]);
                }
            }
            (55, _) => {
                // APP_CMD
                self.app_cmd = true;
                self.tx.push_back(self.r1());
            }
            (41, true) => {
                // SD_SEND_OP_COND: report "still initialising" once, then ready.
                self.acmd41_polls += 1;
                if self.acmd41_polls >= 2 {
                    self.idle = false;
                }
                self.tx.push_back(self.r1());
            }
            (58, _) => {
                // READ_OCR: bit 31 = power-up complete, bit 30 = CCS, 2.7-3.6 V window.
                let mut ocr: u32 = 0x00FF_8000;
                if !self.idle {
                    ocr |= 0x8000_0000;
                    if self.kind == FakeKind::V2HighCapacity {
                        ocr |= 0x4000_0000;
                    }
                }
                self.tx.push_back(self.r1());
                self.tx.extend(ocr.to_be_bytes());
            }
            (9, _) => {
                // SEND_CSD: R1, then a data packet: token, 16 bytes, CRC16.
                self.tx.push_back(self.r1());
                self.tx.extend([0xFF, 0xFF]); // N_CX
                self.tx.push_back(0xFE);
                self.tx.extend(self.csd);
                self.tx.extend(crc16_ccitt(&self.csd).to_be_bytes());
            }
            _ => {
                self.tx.push_back(self.r1() | R1_ILLEGAL_COMMAND);
            }
        }
    }
}

impl ErrorType for FakeSdCard {
    type Error = Infallible;
}

impl SpiDevice<u8> for FakeSdCard {
    fn transaction(&mut self, operations: &mut [Operation<'_, u8>]) -> Result<(), Self::Error> {
        for op in operations {
            match op {
                Operation::Read(buf) => {
                    for b in buf.iter_mut() {
                        *b = self.clock(0xFF);
                    }
                }
                Operation::Write(buf) => {
                    for b in buf.iter() {
                        let _ = self.clock(*b);
                    }
                }
                Operation::Transfer(read, write) => {
                    let n = read.len().max(write.len());
                    for i in 0..n {
                        let out = write.get(i).copied().unwrap_or(0xFF);
                        let miso = self.clock(out);
                        if let Some(slot) = read.get_mut(i) {
                            *slot = miso;
                        }
                    }
                }
                Operation::TransferInPlace(buf) => {
                    for b in buf.iter_mut() {
                        *b = self.clock(*b);
                    }
                }
                Operation::DelayNs(_) => {}
            }
        }
        Ok(())
    }
}

struct NoDelay;

impl embedded_hal::delay::DelayNs for NoDelay {
    fn delay_ns(&mut self, _ns: u32) {}
}

fn make_card(
    kind: FakeKind,
    csd: [u8; 16],
    use_crc: bool,
) -> (SdCard<FakeSdCard, NoDelay>, Rc<RefCell<Log>>) {
    let (fake, log) = FakeSdCard::new(kind, csd);
    let card = SdCard::new_with_options(
        fake,
        NoDelay,
        AcquireOpts {
            use_crc,
            acquire_retries: 5,
        },
    );
    (card, log)
}

const GIB: u64 = 1024 * 1024 * 1024;

// ---------------------------------------------------------------------------
// Self-checks of the test fixture
// ---------------------------------------------------------------------------

#[test]
fn fixture_self_check() {
    // Known-answer vectors (these are real register dumps).
    assert_eq!(
        crc7_wire(&[
            0x00, 0x26, 0x00, 0x32, 0x5F, 0x59, 0x83, 0xC8, 0xAD, 0xDB, 0xCF, 0xFF, 0xD2, 0x40,
            0x40
        ]),
        0xA5
    );
    assert_eq!(crc7_wire(&[0x40, 0, 0, 0, 0]), 0x95); // CMD0
    assert_eq!(crc7_wire(&[0x48, 0, 0, 0x01, 0xAA]), 0x87); // CMD8 0x1AA
    assert_eq!(
        crc16_ccitt(&[
            0x00, 0x26, 0x00, 0x32, 0x5F, 0x5A, 0x83, 0xAE, 0xFE, 0xFB, 0xCF, 0xFF, 0x92, 0x80,
            0x40, 0xDF
        ]),
        0x9FC5
    );
    assert_eq!(crc7_wire(&REAL_2GB_CSD_V1[0..15]), REAL_2GB_CSD_V1[15]);
    assert_eq!(crc7_wire(&REAL_SDHC_CSD_V2[0..15]), REAL_SDHC_CSD_V2[15]);

    // The builder reproduces the real card's register when given its
    // capacity fields (only TAAC differs between the two).
    let mut rebuilt = build_csd_v1(10, 3773, 7);
    rebuilt[1] = 0x7F;
    rebuilt[15] = crc7_wire(&rebuilt[0..15]);
    assert_eq!(rebuilt, REAL_2GB_CSD_V1);

    // And the synthetic 2 GiB register is what we think it is.
    let csd = csd_v1_2gib();
    assert_eq!(
        csd[0..15],
        [0x00, 0x26, 0x00, 0x32, 0x5B, 0x5A, 0x83, 0xFF, 0xFF, 0xFF, 0xCF, 0x80, 0x16, 0x80, 0x00]
    );
    assert_eq!(csd[0] >> 6, 0, "CSD_STRUCTURE must be 0 (CSD Version 1.0)");
}

// ---------------------------------------------------------------------------
// The defect
// ---------------------------------------------------------------------------

/// A v2.x standard-capacity card holding a 2 GiB CSD Version 1.0 register must
/// report 2 GiB.
#[test]
fn sd2_card_num_bytes_matches_csd_v1_register() {
    for use_crc in [true, false] {
        let (card, log) = make_card(FakeKind::V2StandardCapacity, csd_v1_2gib(), use_crc);

        // The driver must have classified it as a v2 standard-capacity card.
        assert_eq!(card.get_card_type(), Some(CardType::SD2));
        {
            let log = log.borrow();
            assert_eq!(log.bad_crc7, 0);
            assert!(log.commands.contains(&(8, 0x1AA)));
            assert!(log.commands.contains(&(58, 0)));
            assert_eq!(log.commands.contains(&(59, 1)), use_crc);
        }

        let bytes = card.num_bytes().expect("num_bytes");
        assert_eq!(log.borrow().commands.last(), Some(&(9, 0)));
        assert_eq!(
            bytes,
            2 * GIB,
            "SD2 (v2.x standard capacity) card with a CSD v1.0 register encoding 2 GiB \
             (READ_BL_LEN=10, C_SIZE=4095, C_SIZE_MULT=7), use_crc={}",
            use_crc
        );
    }
}

/// Same card, capacity in blocks.
#[test]
fn sd2_card_num_blocks_matches_csd_v1_register() {
    let (card, _log) = make_card(FakeKind::V2StandardCapacity, csd_v1_2gib(), true);
    assert_eq!(card.get_card_type(), Some(CardType::SD2));
    let blocks = card.num_blocks().expect("num_blocks");
    assert_eq!(blocks, BlockCount(4_194_304));
}

/// Same again with the register dump of a real 2 GB SDSC card.
#[test]
fn sd2_card_with_real_2gb_csd_reports_real_capacity() {
    let (card, _log) = make_card(FakeKind::V2StandardCapacity, REAL_2GB_CSD_V1, true);
    assert_eq!(card.get_card_type(), Some(CardType::SD2));
    // (3773 + 1) * 2^(7 + 2) * 2^10
    assert_eq!(card.num_bytes().expect("num_bytes"), 1_978_662_912);
    assert_eq!(
        card.num_blocks().expect("num_blocks"),
        BlockCount(3_864_576)
    );
    // ERASE_BLK_EN sits at the same position in both layouts.
    assert!(card.erase_single_block_enabled().expect("erase_blk_en"));
}

// ---------------------------------------------------------------------------
// Controls: these pass on the unmodified tree and must keep passing
// ---------------------------------------------------------------------------

/// The very same register is decoded correctly when the card does not answer
/// CMD8 (and is therefore an `SD1` card) - so the fake and the register are fine.
#[test]
fn control_sd1_card_reports_csd_v1_capacity() {
    let (card, log) = make_card(FakeKind::V1StandardCapacity, csd_v1_2gib(), true);
    assert_eq!(card.get_card_type(), Some(CardType::SD1));
    assert!(!log.borrow().commands.contains(&(58, 0)));
    assert_eq!(card.num_bytes().expect("num_bytes"), 2 * GIB);
    assert_eq!(
        card.num_blocks().expect("num_blocks"),
        BlockCount(4_194_304)
    );
}

/// High-capacity cards use CSD Version 2.0 and must keep doing so.
#[test]
fn control_sdhc_card_reports_csd_v2_capacity() {
    let (card, _log) = make_card(FakeKind::V2HighCapacity, REAL_SDHC_CSD_V2, true);
    assert_eq!(card.get_card_type(), Some(CardType::SDHC));
    assert_eq!(card.num_bytes().expect("num_bytes"), 7530 * 512 * 1024);
    assert_eq!(
        card.num_blocks().expect("num_blocks"),
        BlockCount(7530 * 1024)
    );
}
