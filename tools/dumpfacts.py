#!/usr/bin/env python3
"""dev helper: extract facts for /repo + <patch> and store them as <out.json> (for analysis/explore.py style poking)"""
import json, os, shutil, subprocess, sys, tempfile
V = os.path.dirname(os.path.dirname(os.path.abspath(__file__)))
sys.path.insert(0, V)
from analysis import facts as factsmod
patch, out = os.path.abspath(sys.argv[1]), sys.argv[2]
tmp = tempfile.mkdtemp(prefix="dump.")
try:
    repo = os.path.join(tmp, "repo")
    os.makedirs(repo)
    for x in ("src", "Cargo.toml", "Cargo.lock"):
        s = os.path.join("/repo", x)
        (shutil.copytree if os.path.isdir(s) else shutil.copy)(s, os.path.join(repo, x))
    r = subprocess.run(["patch", "-p1", "-s", "-i", patch], cwd=repo)
    assert r.returncode == 0
    raw, info = factsmod.extract(repo, "log")
    json.dump(raw, open(out, "w"))
finally:
    shutil.rmtree(tmp, ignore_errors=True)
