#!/bin/bash
# usage: tools/collect_round.sh <round-prefix e.g. w4> <Cxx> [<Cxx> ...]  -- copy out/<k> of finished scratch worktrees into seeded/ with fresh indices, remove the worktree
r=$1; shift
cd /verif
for p in "$@"; do
  last=$(ls -d seeded/$p-* 2>/dev/null | sed "s/.*-//" | sort -n | tail -1); last=${last:-0}
  for k in 1 2 3; do
    src=/tmp/$r-$p/out/$k
    [ -f $src/patch.diff ] || continue
    last=$((last+1)); dst=seeded/$p-$last
    mkdir -p $dst; cp $src/patch.diff $dst/; cp $src/*.rs $src/*.inc $dst/ 2>/dev/null; cp $src/meta.json $dst/meta.agent.json
    echo "$dst <- $src ($(ls $dst | tr '\n' ' '))"
  done
  git -C /repo worktree remove --force /tmp/$r-$p && git -C /repo worktree prune
done
