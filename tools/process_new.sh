#!/bin/bash
# usage: tools/process_new.sh <id> [<id> ...]  -- confirm freshly collected seeded changes (8 at a time, own scratch worktrees) and measure them against every rule
cd /verif
printf '%s\n' "$@" | xargs -P 8 -n 1 tools/confirm_seeded.sh 2>&1 | grep -a -E "CONFIRMED"
tools/run_seeded_par.sh 12 "$@" | grep -a -E "^C[0-9]+-|matrix entries"
