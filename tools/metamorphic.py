#!/usr/bin/env python3
"""Metamorphic self-test of the rules: the facts of the tree under test are rewritten by a transformation that cannot change
behaviour and every rule must stay silent on the result.
  swap-eq   : operands of every == / != swapped (BinaryOp Eq/Ne, PartialEq::eq/ne calls on references)
  mirror-cmp: every a < b written as b > a (Lt<->Gt, Le<->Ge with operands exchanged)
  swap-comm : operands of every + * & | ^ exchanged (also the overflow-checked forms)
  rev-arms  : the value list of every multi-way switch reversed (same value -> target pairs, other order)
  negate-if : every two-way switch on a bool tests the negated value with the targets exchanged
  split-edges: an empty block is put on every switch edge and behind every call
  extra-copies: every call argument and switch subject that is a plain local goes through a fresh temporary first
  swap-minmax: arguments of every min / max call exchanged
  from-to-cast: every lossless integer `T::from(x)` written as `x as T`
  isnone-to-match: `x.is_none()` / `is_some()` / `is_ok()` / `is_err()` tested right away becomes a test of the discriminant
  match-to-ifs: every `match n { a => .., b => .., _ => .. }` on an integer becomes `if n == a {..} else if n == b {..} else {..}`
  rename-locals: every named local / parameter gets another name
  anon-consts: named scalar constants become literals (`ClusterId::ROOT_DIR` as its value, `CMD17` as 0x11)
usage: tools/metamorphic.py [kind ...]   (default: all, one after the other)"""
import json, os, sys
V = os.path.dirname(os.path.dirname(os.path.abspath(__file__)))
sys.path.insert(0, V)
from analysis import registry, framework, facts as factsmod
from analysis.mir import Facts

MIRROR = {"Lt": "Gt", "Gt": "Lt", "Le": "Ge", "Ge": "Le"}


def transform(raw, kind):
    n = 0
    if kind == "split-edges":
        for body in raw["bodies"]:
            B = body["blocks"]
            for bi in range(len(B)):
                blk = B[bi]
                if blk.get("cleanup"):
                    continue
                t = blk["term"]

                def pad(target):
                    # (with a storage marker of a fresh local, as rustc's own such blocks have: the block is not literally empty)
                    body["locals"].append({"ty": "()", "tag": "unit", "name": None})
                    B.append({"stmts": [{"k": "StorageDead", "l": len(body["locals"]) - 1}], "term": {"k": "Goto", "target": target, "sp": t["sp"]}, "cleanup": False})
                    return len(B) - 1
                if t["k"] == "SwitchInt":
                    t["targets"] = [[v, pad(tb)] for v, tb in t["targets"]]
                    t["otherwise"] = pad(t["otherwise"])
                    n += 1
                elif t["k"] == "Call" and t.get("target") is not None:
                    t["target"] = pad(t["target"])
                    n += 1
        return n
    if kind == "extra-copies":
        for body in raw["bodies"]:
            for blk in body["blocks"]:
                if blk.get("cleanup"):
                    continue
                t = blk["term"]
                ops = []
                if t["k"] == "Call":
                    ops = [(t["args"], i) for i in range(len(t["args"]))]
                elif t["k"] == "SwitchInt":
                    ops = [(t, "discr")]
                for holder, key in ops:
                    o = holder[key]
                    if o.get("k") in ("copy", "move") and not o["p"]["proj"]:
                        src = body["locals"][o["p"]["l"]]
                        if src["ty"].startswith("&mut") and o["k"] == "copy":
                            continue
                        nl = len(body["locals"])
                        body["locals"].append({"ty": src["ty"], "tag": src.get("tag"), "name": None})
                        blk["stmts"].append({"k": "Assign", "p": {"l": nl, "proj": []}, "rv": {"k": "Use", "op": o}, "sp": t["sp"]})
                        holder[key] = {"k": "move", "p": {"l": nl, "proj": []}}
                        n += 1
        return n
    if kind == "swap-minmax":
        for body in raw["bodies"]:
            for blk in body["blocks"]:
                t = blk["term"]
                if t["k"] == "Call" and (t.get("callee") or "").split("::")[-1] in ("min", "max") and len(t["args"]) == 2 and ("cmp::" in (t.get("callee") or "")):
                    t["args"][0], t["args"][1] = t["args"][1], t["args"][0]
                    n += 1
        return n
    if kind == "from-to-cast":
        W = {"u8": 8, "u16": 16, "u32": 32, "u64": 64, "usize": 64}
        for body in raw["bodies"]:
            for blk in body["blocks"]:
                t = blk["term"]
                if t["k"] == "Call" and (t.get("callee") or "") == "core::convert::From::from" and len(t["args"]) == 1 and t.get("target") is not None and not t["dest"]["proj"]:
                    a = t["args"][0]
                    dty = body["locals"][t["dest"]["l"]]["ty"]
                    sty = body["locals"][a["p"]["l"]]["ty"] if a.get("k") in ("copy", "move") and not a["p"]["proj"] else a.get("ty")
                    if dty in W and sty in W and W[sty] < W[dty]:
                        blk["stmts"].append({"k": "Assign", "p": t["dest"], "rv": {"k": "Cast", "kind": "IntToInt", "ty": dty, "src": sty, "op": a}, "sp": t["sp"]})
                        blk["term"] = {"k": "Goto", "target": t["target"], "sp": t["sp"]}
                        n += 1
        return n
    if kind == "isnone-to-match":
        VAR = {"is_none": ("core::option::Option", ["None", "Some"], 0), "is_some": ("core::option::Option", ["None", "Some"], 1),
               "is_ok": ("core::result::Result", ["Ok", "Err"], 0), "is_err": ("core::result::Result", ["Ok", "Err"], 1)}
        for body in raw["bodies"]:
            B = body["blocks"]
            for blk in B:
                t = blk["term"]
                if t["k"] != "Call" or t.get("target") is None or t["dest"]["proj"] or len(t["args"]) != 1:
                    continue
                nm = (t.get("callee") or "").split("::")[-1]
                if nm not in VAR or not (t.get("callee") or "").startswith(("core::option::Option", "core::result::Result")):
                    continue
                a = t["args"][0]
                if a.get("k") not in ("copy", "move") or a["p"]["proj"]:
                    continue
                refs = [s_ for s_ in blk["stmts"] if s_["k"] == "Assign" and s_["p"] == a["p"] and s_["rv"]["k"] == "Ref"]
                nb = B[t["target"]]
                sw = nb["term"]
                d = t["dest"]["l"]
                if len(refs) != 1 or sw["k"] != "SwitchInt" or sw.get("discr_ty") != "bool" or sw["discr"].get("k") not in ("copy", "move") or sw["discr"]["p"] != {"l": d, "proj": []} or len(sw["targets"]) != 1 or sw["targets"][0][0] != 0:
                    continue
                if any(s_["k"] == "Assign" for s_ in nb["stmts"]):
                    continue
                # uses of d elsewhere?
                import json as _j
                if _j.dumps(body["blocks"]).count('"l": %d,' % d) > 3:
                    continue
                adt, names, want = VAR[nm]
                nl = len(body["locals"])
                body["locals"].append({"ty": "isize", "tag": "isize", "name": None})
                blk["stmts"].append({"k": "Assign", "p": {"l": nl, "proj": []}, "rv": {"k": "Discriminant", "p": refs[0]["rv"]["p"], "adt": adt, "variants": names}, "sp": t["sp"]})
                blk["term"] = {"k": "Goto", "target": t["target"], "sp": t["sp"]}
                false_t, true_t = sw["targets"][0][1], sw["otherwise"]
                nb["term"] = {"k": "SwitchInt", "discr": {"k": "move", "p": {"l": nl, "proj": []}}, "discr_ty": "isize", "targets": [[want, true_t]], "otherwise": false_t, "sp": sw["sp"]}
                n += 1
        return n
    if kind == "match-to-ifs":
        INTS = ("u8", "u16", "u32", "u64", "usize")
        for body in raw["bodies"]:
            B = body["blocks"]
            for bi in range(len(B)):
                blk = B[bi]
                t = blk["term"]
                if blk.get("cleanup") or t["k"] != "SwitchInt" or t.get("discr_ty") not in INTS or t["discr"].get("k") not in ("copy", "move"):
                    continue
                # (the subject is copied once: it may be a projection such as `(r as Ok).0`)
                dl = len(body["locals"])
                body["locals"].append({"ty": t["discr_ty"], "tag": t["discr_ty"], "name": None})
                blk["stmts"].append({"k": "Assign", "p": {"l": dl, "proj": []}, "rv": {"k": "Use", "op": {"k": "copy", "p": t["discr"]["p"]}}, "sp": t["sp"]})
                ty = t["discr_ty"]
                cur = blk
                for k, (v, tb) in enumerate(t["targets"]):
                    nl = len(body["locals"])
                    body["locals"].append({"ty": "bool", "tag": "bool", "name": None})
                    cur["stmts"].append({"k": "Assign", "p": {"l": nl, "proj": []}, "rv": {"k": "BinaryOp", "op": "Eq", "l": {"k": "copy", "p": {"l": dl, "proj": []}}, "r": {"k": "const", "ty": ty, "tag": ty, "val": v}}, "sp": t["sp"]})
                    last = k == len(t["targets"]) - 1
                    if last:
                        nxt = t["otherwise"]
                    else:
                        B.append({"stmts": [], "term": None, "cleanup": False})
                        nxt = len(B) - 1
                    cur["term"] = {"k": "SwitchInt", "discr": {"k": "move", "p": {"l": nl, "proj": []}}, "discr_ty": "bool", "targets": [[0, nxt]], "otherwise": tb, "sp": t["sp"]}
                    if not last:
                        cur = B[nxt]
                n += 1
        return n
    if kind == "rename-locals":
        for body in raw["bodies"]:
            for i, l in enumerate(body["locals"]):
                if l.get("name") and l["name"] != "self":
                    l["name"] = "v%d" % i
                    n += 1
        return n
    if kind == "anon-consts":
        def walk(x):
            nonlocal n
            if isinstance(x, dict):
                if x.get("k") == "const" and "val" in x and "def" in x and "promoted" not in x:
                    del x["def"]
                    n += 1
                for v in x.values():
                    walk(v)
            elif isinstance(x, list):
                for v in x:
                    walk(v)
        walk(raw["bodies"])
        return n
    for body in raw["bodies"]:
        for blk in body["blocks"]:
            for s in blk["stmts"]:
                if s["k"] != "Assign" or s["rv"]["k"] != "BinaryOp":
                    continue
                rv = s["rv"]
                if kind == "swap-eq" and rv["op"] in ("Eq", "Ne"):
                    rv["l"], rv["r"] = rv["r"], rv["l"]
                    n += 1
                elif kind == "mirror-cmp" and rv["op"] in MIRROR:
                    rv["op"] = MIRROR[rv["op"]]
                    rv["l"], rv["r"] = rv["r"], rv["l"]
                    n += 1
                elif kind == "swap-comm" and rv["op"].replace("WithOverflow", "") in ("Add", "Mul", "BitAnd", "BitOr", "BitXor"):
                    rv["l"], rv["r"] = rv["r"], rv["l"]
                    n += 1
            t = blk["term"]
            if kind == "rev-arms" and t["k"] == "SwitchInt" and len(t["targets"]) >= 2:
                t["targets"] = list(reversed(t["targets"]))
                n += 1
            if kind == "negate-if" and t["k"] == "SwitchInt" and t.get("discr_ty") == "bool" and len(t["targets"]) == 1 and t["targets"][0][0] == 0 and t["discr"].get("k") in ("copy", "move"):
                nl = len(body["locals"])
                body["locals"].append({"ty": "bool", "tag": "bool", "name": None})
                blk["stmts"].append({"k": "Assign", "p": {"l": nl, "proj": []}, "rv": {"k": "UnaryOp", "op": "Not", "x": t["discr"]}, "sp": t["sp"]})
                t["discr"] = {"k": "move", "p": {"l": nl, "proj": []}}
                t["targets"], t["otherwise"] = [[0, t["otherwise"]]], t["targets"][0][1]
                n += 1
            if kind == "swap-eq" and t["k"] == "Call" and (t.get("callee") or "").startswith("core::cmp::PartialEq::") and len(t["args"]) == 2:
                t["args"][0], t["args"][1] = t["args"][1], t["args"][0]
                n += 1
    return n


def main():
    kinds = sys.argv[1:] or ["swap-eq", "mirror-cmp", "swap-comm", "rev-arms", "negate-if", "split-edges", "extra-copies", "swap-minmax", "from-to-cast", "isnone-to-match", "match-to-ifs", "rename-locals", "anon-consts"]
    props = [json.loads(l)["id"] for l in open(os.path.join(V, "properties.jsonl"))]
    if os.environ.get("METAMORPHIC_PROPS"):
        # a subset of the properties (e.g. to put a *variant* of the sources, given as VERIF_REPO, through the transformations)
        props = [p for p in props if p in os.environ["METAMORPHIC_PROPS"].split()]
    bad = 0
    for kind in kinds:
        raw, info = factsmod.extract(os.environ.get("VERIF_REPO", "/repo"), "log")
        n = transform(raw, kind)
        F = Facts(raw)
        cache, fired = {}, {}
        for p in props:
            for rid in registry.rules_for(p):
                if rid not in cache:
                    cache[rid] = framework.run_rules(F, [rid], "log")[0]
                new, _old = framework.classify(cache[rid], p)
                und = [i for i in cache[rid] if i["status"] == "undecided"]
                if new or und:
                    if rid not in fired:
                        for i in (new + und)[:3]:
                            print("    %s %s [%s] %s: %s" % (rid, i.get("function") or "-", i.get("key"), i.get("loc") or "", (i.get("detail") or "")[:260]))
                    fired.setdefault(rid, set()).add(p)
        print("%s (%d sites rewritten) -> %s" % (kind, n, "silent" if not fired else "FALSE-ALARM " + " ".join(sorted(fired))))
        bad += bool(fired)
    return 1 if bad else 0


if __name__ == "__main__":
    sys.exit(main())
