#!/bin/sh
# usage: tools/trymut.sh <patch.diff> <PROP> [<PROP>...]   -- apply a patch to a scratch copy of /repo sources and run checks on it
set -e
P=$(readlink -f "$1"); shift
D=$(mktemp -d /tmp/mut.XXXXXX)
trap 'rm -rf "$D"' EXIT
mkdir -p "$D/repo"
cp -r /repo/src /repo/Cargo.toml /repo/Cargo.lock "$D/repo/"
(cd "$D/repo" && patch -p1 -s < "$P")
cd /verif
for prop in "$@"; do
  VERIF_REPO="$D/repo" VERIF_EVIDENCE_DIR="$D/ev" ./check "$prop" || true
done
