#!/usr/bin/env python3
"""Run every rule against every benign variant (selftest/index.json "benign"): nothing may fire. One extraction per variant."""
import json, os, shutil, subprocess, sys, tempfile
V = os.path.dirname(os.path.dirname(os.path.abspath(__file__)))
sys.path.insert(0, V)
from analysis import registry, framework, facts as factsmod
from analysis.mir import Facts
props = [json.loads(l)["id"] for l in open(os.path.join(V, "properties.jsonl"))]
bad = 0
variants = json.load(open(os.path.join(V, "selftest", "index.json"))).get("benign", [])
if len(sys.argv) > 1:
    # ad-hoc: patch files given on the command line (absolute paths, or relative to /verif)
    variants = [{"id": os.path.basename(a), "patch": os.path.relpath(os.path.abspath(a), V)} for a in sys.argv[1:]]
for m in variants:
    tmp = tempfile.mkdtemp(prefix="benign.")
    try:
        repo = os.path.join(tmp, "repo")
        os.makedirs(repo)
        for x in ("src", "Cargo.toml", "Cargo.lock"):
            s = os.path.join("/repo", x)
            (shutil.copytree if os.path.isdir(s) else shutil.copy)(s, os.path.join(repo, x))
        r = subprocess.run(["patch", "-p1", "-s", "-i", os.path.join(V, m["patch"])], cwd=repo, capture_output=True, text=True)
        if r.returncode != 0:
            print(m["id"], "-> PATCH-FAILED")
            bad += 1
            continue
        raw, info = factsmod.extract(repo, "log")
        F = Facts(raw)
        cache = {}
        fired = {}
        shown = set()
        for p in props:
            for rid in registry.rules_for(p):
                if rid not in cache:
                    cache[rid] = framework.run_rules(F, [rid], "log")[0]
                new, _old = framework.classify(cache[rid], p)
                und = [i for i in cache[rid] if i["status"] == "undecided"]
                if new or und:
                    fired.setdefault(p, set()).add(rid)
                    if os.environ.get("BENIGN_VERBOSE") and rid not in shown:
                        shown.add(rid)
                        for i in (new + und)[:4]:
                            print("    %s %s [%s] %s: %s" % (rid, i.get("function") or "-", i.get("key"), i.get("loc") or "", (i.get("detail") or "")[:int(os.environ.get("BENIGN_VERBOSE"))]), flush=True)
        print(m["id"], "->", "silent" if not fired else "FALSE-ALARM " + " ".join("%s[%s]" % (p, ",".join(sorted(r))) for p, r in sorted(fired.items())), flush=True)
        bad += bool(fired)
    finally:
        shutil.rmtree(tmp, ignore_errors=True)
sys.exit(1 if bad else 0)
