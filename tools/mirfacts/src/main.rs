//! mirfacts: a rustc_private driver that serialises the type-checked MIR of one crate
//! (the one named in MIRFACTS_CRATE, default `embedded_sdmmc`) to a JSON fact file.
//!
//! Used as RUSTC_WORKSPACE_WRAPPER: argv[1] is the real rustc path and is dropped.
//! Output file: $MIRFACTS_OUT (required for the target crate; one write per process).
#![feature(rustc_private)]

extern crate rustc_abi;
extern crate rustc_driver;
extern crate rustc_hir;
extern crate rustc_interface;
extern crate rustc_middle;
extern crate rustc_session;
extern crate rustc_span;

use rustc_driver::{Callbacks, Compilation};
use rustc_hir::def::DefKind;
use rustc_hir::def_id::{DefId, LOCAL_CRATE};
use rustc_interface::interface::Compiler;
use rustc_middle::mir::{
    self, AggregateKind, BasicBlockData, Body, Const, Operand, Place, PlaceElem, Rvalue,
    StatementKind, TerminatorKind, UnwindAction, VarDebugInfoContents,
};
use rustc_middle::ty::{self, Instance, Ty, TyCtxt, TypeVisitableExt, TypingEnv};
use rustc_span::Span;
use std::fmt::Write as _;

fn esc(s: &str) -> String {
    let mut o = String::with_capacity(s.len() + 2);
    o.push('"');
    for c in s.chars() {
        match c {
            '"' => o.push_str("\\\""),
            '\\' => o.push_str("\\\\"),
            '\n' => o.push_str("\\n"),
            '\r' => o.push_str("\\r"),
            '\t' => o.push_str("\\t"),
            c if (c as u32) < 0x20 => {
                let _ = write!(o, "\\u{:04x}", c as u32);
            }
            c => o.push(c),
        }
    }
    o.push('"');
    o
}

fn jlist(items: Vec<String>) -> String {
    let mut o = String::from("[");
    for (i, it) in items.iter().enumerate() {
        if i > 0 {
            o.push(',');
        }
        o.push_str(it);
    }
    o.push(']');
    o
}

fn jobj(items: Vec<(&str, String)>) -> String {
    let mut o = String::from("{");
    for (i, (k, v)) in items.iter().enumerate() {
        if i > 0 {
            o.push(',');
        }
        o.push_str(&esc(k));
        o.push(':');
        o.push_str(v);
    }
    o.push('}');
    o
}

struct Cx<'tcx> {
    tcx: TyCtxt<'tcx>,
}

impl<'tcx> Cx<'tcx> {
    fn span(&self, sp: Span) -> String {
        let sm = self.tcx.sess.source_map();
        // use the call-site span for macro expansions so that lines refer to user code
        let sp2 = sp.source_callsite();
        let lo = sm.lookup_char_pos(sp2.lo());
        let hi = sm.lookup_char_pos(sp2.hi());
        let file = match &lo.file.name {
            rustc_span::FileName::Real(r) => match r.local_path() {
                Some(p) => p.to_string_lossy().to_string(),
                None => format!("{:?}", lo.file.name),
            },
            other => format!("{:?}", other),
        };
        jobj(vec![
            ("file", esc(&file)),
            ("l0", lo.line.to_string()),
            ("c0", (lo.col.0 + 1).to_string()),
            ("l1", hi.line.to_string()),
            ("c1", (hi.col.0 + 1).to_string()),
            ("exp", if sp.from_expansion() { "true".into() } else { "false".into() }),
            ("mac", self.macro_name(sp)),
        ])
    }

    fn macro_name(&self, sp: Span) -> String {
        if !sp.from_expansion() {
            return "null".into();
        }
        // outermost macro
        let mut name = None;
        for ed in sp.macro_backtrace() {
            if let rustc_span::ExpnKind::Macro(_, sym) = ed.kind {
                name = Some(sym.to_string());
            } else if name.is_none() {
                name = Some(format!("{:?}", ed.kind));
            }
        }
        match name {
            Some(n) => esc(&n),
            None => "null".into(),
        }
    }

    fn snippet(&self, sp: Span) -> String {
        let sm = self.tcx.sess.source_map();
        match sm.span_to_snippet(sp.source_callsite()) {
            Ok(s) => {
                let s: String = s.split_whitespace().collect::<Vec<_>>().join(" ");
                let s: String = s.chars().take(160).collect();
                esc(&s)
            }
            Err(_) => "null".into(),
        }
    }

    fn ty(&self, t: Ty<'tcx>) -> String {
        esc(&format!("{}", t))
    }

    /// structural tag of a type, cheap for Python to dispatch on
    fn ty_tag(&self, t: Ty<'tcx>) -> String {
        let s = match t.kind() {
            ty::Bool => "bool".to_string(),
            ty::Char => "char".to_string(),
            ty::Int(i) => i.name_str().to_string(),
            ty::Uint(u) => u.name_str().to_string(),
            ty::Adt(def, _) => format!("adt:{}", self.tcx.def_path_str(def.did())),
            ty::Ref(_, inner, m) => format!(
                "ref{}:{}",
                if m.is_mut() { "mut" } else { "" },
                inner
            ),
            ty::Tuple(l) if l.is_empty() => "unit".to_string(),
            ty::Tuple(_) => "tuple".to_string(),
            ty::Array(..) => "array".to_string(),
            ty::Slice(..) => "slice".to_string(),
            ty::Closure(d, _) => format!("closure:{}", self.tcx.def_path_str(*d)),
            ty::FnDef(d, _) => format!("fndef:{}", self.tcx.def_path_str(*d)),
            ty::Param(_) => "param".to_string(),
            ty::Never => "never".to_string(),
            ty::RawPtr(..) => "rawptr".to_string(),
            ty::Alias(..) => "alias".to_string(),
            _ => "other".to_string(),
        };
        esc(&s)
    }

    fn place(&self, body: &Body<'tcx>, p: &Place<'tcx>) -> String {
        let mut projs = Vec::new();
        let mut pty = mir::PlaceTy::from_ty(body.local_decls[p.local].ty);
        for elem in p.projection.iter() {
            let e = match elem {
                PlaceElem::Deref => jlist(vec![esc("deref")]),
                PlaceElem::Field(f, _) => {
                    let name = match pty.ty.kind() {
                        ty::Adt(def, _) => {
                            let v = match pty.variant_index {
                                Some(v) => Some(v),
                                None => {
                                    if def.is_struct() || def.is_union() {
                                        Some(rustc_abi::FIRST_VARIANT)
                                    } else {
                                        None
                                    }
                                }
                            };
                            match v {
                                Some(v) => def
                                    .variant(v)
                                    .fields
                                    .get(f)
                                    .map(|fd| fd.name.to_string())
                                    .unwrap_or_else(|| f.as_usize().to_string()),
                                None => f.as_usize().to_string(),
                            }
                        }
                        _ => f.as_usize().to_string(),
                    };
                    jlist(vec![esc("field"), f.as_usize().to_string(), esc(&name)])
                }
                PlaceElem::Index(l) => jlist(vec![esc("index"), l.as_usize().to_string()]),
                PlaceElem::ConstantIndex { offset, min_length, from_end } => jlist(vec![
                    esc("cidx"),
                    offset.to_string(),
                    min_length.to_string(),
                    from_end.to_string(),
                ]),
                PlaceElem::Subslice { from, to, from_end } => jlist(vec![
                    esc("subslice"),
                    from.to_string(),
                    to.to_string(),
                    from_end.to_string(),
                ]),
                PlaceElem::Downcast(name, v) => {
                    let n = match name {
                        Some(s) => s.to_string(),
                        None => match pty.ty.kind() {
                            ty::Adt(def, _) => def.variant(v).name.to_string(),
                            _ => v.as_usize().to_string(),
                        },
                    };
                    jlist(vec![esc("downcast"), v.as_usize().to_string(), esc(&n)])
                }
                PlaceElem::OpaqueCast(_) => jlist(vec![esc("opaque")]),
                PlaceElem::UnwrapUnsafeBinder(_) => jlist(vec![esc("unwrapbinder")]),
            };
            projs.push(e);
            pty = pty.projection_ty(self.tcx, elem);
        }
        jobj(vec![("l", p.local.as_usize().to_string()), ("proj", jlist(projs))])
    }

    fn konst(&self, owner: DefId, c: &Const<'tcx>) -> String {
        let tcx = self.tcx;
        let typing_env = TypingEnv::post_analysis(tcx, owner);
        let ty = c.ty();
        let mut items: Vec<(&str, String)> = vec![("k", esc("const")), ("ty", self.ty(ty)), ("tag", self.ty_tag(ty))];
        // function items / constructors
        if let ty::FnDef(def_id, args) = ty.kind() {
            items.push(("fn", esc(&tcx.def_path_str(*def_id))));
            items.push(("fn_full", esc(&tcx.def_path_str_with_args(*def_id, args))));
            let dk = tcx.def_kind(*def_id);
            items.push(("fn_kind", esc(&format!("{:?}", dk))));
            if let DefKind::Ctor(..) = dk {
                // variant / struct constructor: name of the variant
                let parent = tcx.parent(*def_id);
                items.push(("ctor_of", esc(&tcx.def_path_str(parent))));
            }
            return jobj(items);
        }
        if let Const::Unevaluated(uv, _) = c {
            items.push(("def", esc(&tcx.def_path_str(uv.def))));
            if let Some(p) = uv.promoted {
                items.push(("promoted", p.as_usize().to_string()));
            }
        }
        // scalar value, if evaluable. Guard against non-scalar / generic consts.
        let is_scalar_ty = matches!(ty.kind(), ty::Bool | ty::Char | ty::Int(_) | ty::Uint(_) | ty::Adt(..));
        if is_scalar_ty {
            let can_eval = match c {
                Const::Unevaluated(uv, _) => !uv.args.has_param(),
                Const::Ty(_, ct) => !ct.has_param(),
                Const::Val(..) => true,
            };
            if can_eval {
                if let Some(si) = c.try_eval_scalar_int(tcx, typing_env) {
                    let bits = si.to_bits(si.size());
                    let v: i128 = match ty.kind() {
                        ty::Int(_) => {
                            let size = si.size();
                            size.sign_extend(bits) as i128
                        }
                        _ => bits as i128,
                    };
                    items.push(("val", v.to_string()));
                }
            }
        }
        // a reference to a `static` item: name the item (its value, when it is an integer table, is emitted with the consts)
        if let Const::Val(mir::ConstValue::Scalar(rustc_middle::mir::interpret::Scalar::Ptr(ptr, _)), _) = c {
            if let rustc_middle::mir::interpret::GlobalAlloc::Static(sdid) = tcx.global_alloc(ptr.provenance.alloc_id()) {
                items.push(("static", esc(&tcx.def_path_str(sdid))));
            }
        }
        if let Const::Val(mir::ConstValue::ZeroSized, _) = c {
            items.push(("zst", "true".into()));
        } else if !is_scalar_ty {
            // string / byte-string literals: give a printable form
            items.push(("repr", esc(&format!("{}", c))));
        }
        jobj(items)
    }

    fn operand(&self, owner: DefId, body: &Body<'tcx>, o: &Operand<'tcx>) -> String {
        match o {
            Operand::Copy(p) => jobj(vec![("k", esc("copy")), ("p", self.place(body, p))]),
            Operand::Move(p) => jobj(vec![("k", esc("move")), ("p", self.place(body, p))]),
            Operand::Constant(c) => self.konst(owner, &c.const_),
            #[allow(unreachable_patterns)]
            _ => jobj(vec![("k", esc("other")), ("repr", esc(&format!("{:?}", o)))]),
        }
    }

    fn rvalue(&self, owner: DefId, body: &Body<'tcx>, rv: &Rvalue<'tcx>) -> String {
        let tcx = self.tcx;
        match rv {
            Rvalue::Use(o, ..) => jobj(vec![("k", esc("Use")), ("op", self.operand(owner, body, o))]),
            Rvalue::Repeat(o, n) => jobj(vec![
                ("k", esc("Repeat")),
                ("op", self.operand(owner, body, o)),
                ("n", esc(&format!("{}", n))),
            ]),
            Rvalue::Ref(_, bk, p) => jobj(vec![
                ("k", esc("Ref")),
                ("mut", if matches!(bk, mir::BorrowKind::Mut { .. }) { "true".into() } else { "false".into() }),
                ("p", self.place(body, p)),
            ]),
            Rvalue::RawPtr(_, p) => jobj(vec![("k", esc("RawPtr")), ("p", self.place(body, p))]),
            Rvalue::Cast(kind, o, t) => jobj(vec![
                ("k", esc("Cast")),
                ("kind", esc(&format!("{:?}", kind))),
                ("op", self.operand(owner, body, o)),
                ("ty", self.ty(*t)),
                ("tag", self.ty_tag(*t)),
                ("src", self.ty(o.ty(body, self.tcx))),
            ]),
            Rvalue::BinaryOp(op, b) => jobj(vec![
                ("k", esc("BinaryOp")),
                ("op", esc(&format!("{:?}", op))),
                ("l", self.operand(owner, body, &b.0)),
                ("r", self.operand(owner, body, &b.1)),
            ]),
            Rvalue::UnaryOp(op, o) => jobj(vec![
                ("k", esc("UnaryOp")),
                ("op", esc(&format!("{:?}", op))),
                ("x", self.operand(owner, body, o)),
            ]),
            Rvalue::Discriminant(p) => {
                let pty = p.ty(&body.local_decls, tcx).ty;
                let mut items: Vec<(&str, String)> = vec![("k", esc("Discriminant")), ("p", self.place(body, p))];
                if let ty::Adt(def, _) = pty.kind() {
                    items.push(("adt", esc(&tcx.def_path_str(def.did()))));
                    items.push((
                        "variants",
                        jlist(def.variants().iter().map(|v| esc(&v.name.to_string())).collect()),
                    ));
                }
                jobj(items)
            }
            Rvalue::Aggregate(kind, ops) => {
                let mut items: Vec<(&str, String)> = vec![("k", esc("Aggregate"))];
                match &**kind {
                    AggregateKind::Array(_) => items.push(("agg", esc("Array"))),
                    AggregateKind::Tuple => items.push(("agg", esc("Tuple"))),
                    AggregateKind::Adt(did, vidx, _, _, _) => {
                        items.push(("agg", esc("Adt")));
                        items.push(("adt", esc(&tcx.def_path_str(*did))));
                        let def = tcx.adt_def(*did);
                        let v = def.variant(*vidx);
                        items.push(("variant", vidx.as_usize().to_string()));
                        items.push(("variant_name", esc(&v.name.to_string())));
                        items.push((
                            "fields",
                            jlist(v.fields.iter().map(|f| esc(&f.name.to_string())).collect()),
                        ));
                    }
                    AggregateKind::Closure(did, _) => {
                        items.push(("agg", esc("Closure")));
                        items.push(("closure", esc(&tcx.def_path_str(*did))));
                    }
                    AggregateKind::RawPtr(..) => items.push(("agg", esc("RawPtr"))),
                    _ => items.push(("agg", esc("Other"))),
                }
                items.push(("ops", jlist(ops.iter().map(|o| self.operand(owner, body, o)).collect())));
                jobj(items)
            }
            Rvalue::CopyForDeref(p) => jobj(vec![("k", esc("CopyForDeref")), ("p", self.place(body, p))]),
            _ => jobj(vec![("k", esc("Other")), ("repr", esc(&format!("{:?}", rv)))]),
        }
    }

    fn callee(&self, owner: DefId, body: &Body<'tcx>, func: &Operand<'tcx>) -> Vec<(&'static str, String)> {
        let tcx = self.tcx;
        let mut items = Vec::new();
        let fty = func.ty(&body.local_decls, tcx);
        if let ty::FnDef(def_id, args) = fty.kind() {
            items.push(("callee", esc(&tcx.def_path_str(*def_id))));
            items.push(("callee_full", esc(&tcx.def_path_str_with_args(*def_id, args))));
            items.push(("callee_crate", esc(&tcx.crate_name(def_id.krate).to_string())));
            items.push(("callee_local", if def_id.is_local() { "true".into() } else { "false".into() }));
            let targs: Vec<String> = args.iter().filter_map(|a| a.as_type()).map(|t| self.ty(t)).collect();
            items.push(("targs", jlist(targs)));
            // try to resolve to a concrete instance (trait method -> impl method)
            let dk = tcx.def_kind(*def_id);
            if matches!(dk, DefKind::Fn | DefKind::AssocFn) {
                let typing_env = TypingEnv::post_analysis(tcx, owner);
                if let Ok(Some(inst)) = Instance::try_resolve(tcx, typing_env, *def_id, args) {
                    let rid = inst.def_id();
                    let kind = match inst.def {
                        ty::InstanceKind::Item(_) => "item",
                        ty::InstanceKind::Virtual(..) => "virtual",
                        ty::InstanceKind::Intrinsic(_) => "intrinsic",
                        ty::InstanceKind::ClosureOnceShim { .. } => "closure_once_shim",
                        ty::InstanceKind::FnPtrShim(..) => "fnptr_shim",
                        _ => "shim",
                    };
                    items.push(("resolved", esc(&tcx.def_path_str(rid))));
                    items.push(("resolved_kind", esc(kind)));
                    // a trait method that did not resolve to an impl stays on the trait def
                    let unresolved_trait = rid == *def_id && tcx.trait_of_assoc(*def_id).is_some();
                    items.push(("trait_unresolved", if unresolved_trait { "true".into() } else { "false".into() }));
                }
            }
            if let Some(tr) = tcx.trait_of_assoc(*def_id) {
                items.push(("trait", esc(&tcx.def_path_str(tr))));
            }
        } else {
            items.push(("callee", "null".into()));
            items.push(("callee_op", self.operand(owner, body, func)));
            items.push(("callee_ty", self.ty(fty)));
        }
        items
    }

    fn block(&self, owner: DefId, body: &Body<'tcx>, bb: &BasicBlockData<'tcx>) -> String {
        let mut stmts = Vec::new();
        for st in &bb.statements {
            let s = match &st.kind {
                StatementKind::Assign(b) => jobj(vec![
                    ("k", esc("Assign")),
                    ("p", self.place(body, &b.0)),
                    ("rv", self.rvalue(owner, body, &b.1)),
                    ("sp", self.span(st.source_info.span)),
                ]),
                StatementKind::SetDiscriminant { place, variant_index } => jobj(vec![
                    ("k", esc("SetDiscriminant")),
                    ("p", self.place(body, place)),
                    ("variant", variant_index.as_usize().to_string()),
                    ("sp", self.span(st.source_info.span)),
                ]),
                StatementKind::StorageDead(l) => {
                    jobj(vec![("k", esc("StorageDead")), ("l", l.as_usize().to_string())])
                }
                StatementKind::StorageLive(l) => {
                    jobj(vec![("k", esc("StorageLive")), ("l", l.as_usize().to_string())])
                }
                StatementKind::Intrinsic(i) => jobj(vec![
                    ("k", esc("Intrinsic")),
                    ("repr", esc(&format!("{:?}", i))),
                    ("sp", self.span(st.source_info.span)),
                ]),
                _ => continue,
            };
            stmts.push(s);
        }
        let term = bb.terminator();
        let sp = self.span(term.source_info.span);
        let unwind = |u: &UnwindAction| -> String {
            match u {
                UnwindAction::Cleanup(b) => b.as_usize().to_string(),
                _ => "null".into(),
            }
        };
        let t = match &term.kind {
            TerminatorKind::Goto { target } => {
                jobj(vec![("k", esc("Goto")), ("target", target.as_usize().to_string()), ("sp", sp)])
            }
            TerminatorKind::SwitchInt { discr, targets } => {
                let mut ts = Vec::new();
                for (v, b) in targets.iter() {
                    ts.push(jlist(vec![v.to_string(), b.as_usize().to_string()]));
                }
                let dty = discr.ty(&body.local_decls, self.tcx);
                jobj(vec![
                    ("k", esc("SwitchInt")),
                    ("discr", self.operand(owner, body, discr)),
                    ("discr_ty", self.ty(dty)),
                    ("targets", jlist(ts)),
                    ("otherwise", targets.otherwise().as_usize().to_string()),
                    ("sp", sp),
                ])
            }
            TerminatorKind::Return => jobj(vec![("k", esc("Return")), ("sp", sp)]),
            TerminatorKind::Unreachable => jobj(vec![("k", esc("Unreachable")), ("sp", sp)]),
            TerminatorKind::UnwindResume => jobj(vec![("k", esc("UnwindResume")), ("sp", sp)]),
            TerminatorKind::UnwindTerminate(_) => jobj(vec![("k", esc("UnwindTerminate")), ("sp", sp)]),
            TerminatorKind::Drop { place, target, unwind: u, .. } => jobj(vec![
                ("k", esc("Drop")),
                ("p", self.place(body, place)),
                ("target", target.as_usize().to_string()),
                ("unwind", unwind(u)),
                ("sp", sp),
            ]),
            TerminatorKind::Call { func, args, destination, target, unwind: u, fn_span, .. } => {
                let mut items: Vec<(&str, String)> = vec![("k", esc("Call"))];
                items.extend(self.callee(owner, body, func));
                items.push(("args", jlist(args.iter().map(|a| self.operand(owner, body, &a.node)).collect())));
                items.push(("dest", self.place(body, destination)));
                items.push((
                    "target",
                    match target {
                        Some(t) => t.as_usize().to_string(),
                        None => "null".into(),
                    },
                ));
                items.push(("unwind", unwind(u)));
                items.push(("sp", sp));
                items.push(("fn_sp", self.span(*fn_span)));
                items.push(("snip", self.snippet(term.source_info.span)));
                jobj(items)
            }
            TerminatorKind::Assert { cond, expected, msg, target, unwind: u } => {
                let (kind, ops): (String, Vec<String>) = match &**msg {
                    mir::AssertKind::BoundsCheck { len, index } => (
                        "BoundsCheck".into(),
                        vec![self.operand(owner, body, len), self.operand(owner, body, index)],
                    ),
                    mir::AssertKind::Overflow(op, a, b) => (
                        format!("Overflow:{:?}", op),
                        vec![self.operand(owner, body, a), self.operand(owner, body, b)],
                    ),
                    mir::AssertKind::OverflowNeg(a) => ("OverflowNeg".into(), vec![self.operand(owner, body, a)]),
                    mir::AssertKind::DivisionByZero(a) => {
                        ("DivisionByZero".into(), vec![self.operand(owner, body, a)])
                    }
                    mir::AssertKind::RemainderByZero(a) => {
                        ("RemainderByZero".into(), vec![self.operand(owner, body, a)])
                    }
                    other => (format!("{:?}", other).chars().take(40).collect(), vec![]),
                };
                jobj(vec![
                    ("k", esc("Assert")),
                    ("cond", self.operand(owner, body, cond)),
                    ("expected", expected.to_string()),
                    ("kind", esc(&kind)),
                    ("ops", jlist(ops)),
                    ("target", target.as_usize().to_string()),
                    ("unwind", unwind(u)),
                    ("sp", sp),
                    ("snip", self.snippet(term.source_info.span)),
                ])
            }
            TerminatorKind::FalseEdge { real_target, .. } => {
                jobj(vec![("k", esc("Goto")), ("target", real_target.as_usize().to_string()), ("sp", sp)])
            }
            TerminatorKind::FalseUnwind { real_target, .. } => {
                jobj(vec![("k", esc("Goto")), ("target", real_target.as_usize().to_string()), ("sp", sp)])
            }
            other => jobj(vec![("k", esc("Other")), ("repr", esc(&format!("{:?}", other))), ("sp", sp)]),
        };
        jobj(vec![
            ("stmts", jlist(stmts)),
            ("term", t),
            ("cleanup", if bb.is_cleanup { "true".into() } else { "false".into() }),
        ])
    }

    fn body(&self, def_id: DefId) -> String {
        let body: &Body<'tcx> = self.tcx.optimized_mir(def_id);
        self.body_inner(def_id, body, true)
    }

    fn body_inner(&self, def_id: DefId, body: &Body<'tcx>, with_promoted: bool) -> String {
        let tcx = self.tcx;
        let dk = tcx.def_kind(def_id);
        let mut items: Vec<(&str, String)> = Vec::new();
        items.push(("path", esc(&tcx.def_path_str(def_id))));
        items.push(("kind", esc(&format!("{:?}", dk))));
        items.push(("span", self.span(body.span)));
        if matches!(dk, DefKind::Fn | DefKind::AssocFn) {
            let vis = tcx.visibility(def_id);
            items.push(("pub", if vis.is_public() { "true".into() } else { "false".into() }));
            let sig = tcx.fn_sig(def_id).instantiate_identity().skip_norm_wip().skip_binder();
            items.push(("unsafe", if sig.safety().is_unsafe() { "true".into() } else { "false".into() }));
            items.push(("inputs", jlist(sig.inputs().iter().map(|t| self.ty(*t)).collect())));
            items.push(("output", self.ty(sig.output())));
            items.push(("output_tag", self.ty_tag(sig.output())));
            if let Some(imp) = tcx.impl_of_assoc(def_id) {
                let self_ty = tcx.type_of(imp).instantiate_identity().skip_norm_wip();
                items.push(("impl_self", self.ty(self_ty)));
                items.push(("impl_self_tag", self.ty_tag(self_ty)));
                if let Some(tr) = tcx.impl_opt_trait_ref(imp) {
                    let tr = tr.instantiate_identity().skip_norm_wip();
                    items.push(("impl_trait", esc(&tcx.def_path_str(tr.def_id))));
                }
            }
        } else {
            // closure: parent function
            let parent = tcx.typeck_root_def_id(def_id);
            items.push(("parent", esc(&tcx.def_path_str(parent))));
        }
        items.push(("arg_count", body.arg_count.to_string()));
        // locals
        let mut names: Vec<Option<String>> = vec![None; body.local_decls.len()];
        for vdi in &body.var_debug_info {
            if let VarDebugInfoContents::Place(p) = &vdi.value {
                if let Some(l) = p.as_local() {
                    names[l.as_usize()] = Some(vdi.name.to_string());
                }
            }
        }
        let mut locals = Vec::new();
        for (i, d) in body.local_decls.iter().enumerate() {
            locals.push(jobj(vec![
                ("ty", self.ty(d.ty)),
                ("tag", self.ty_tag(d.ty)),
                (
                    "name",
                    match &names[i] {
                        Some(n) => esc(n),
                        None => "null".into(),
                    },
                ),
            ]));
        }
        items.push(("locals", jlist(locals)));
        // captured upvars debug info (closures): name -> projection on _1
        let mut upvars = Vec::new();
        for vdi in &body.var_debug_info {
            if let VarDebugInfoContents::Place(p) = &vdi.value {
                if p.as_local().is_none() {
                    upvars.push(jobj(vec![("name", esc(&vdi.name.to_string())), ("p", self.place(body, p))]));
                }
            }
        }
        items.push(("upvars", jlist(upvars)));
        let mut blocks = Vec::new();
        for bb in body.basic_blocks.iter() {
            blocks.push(self.block(def_id, body, bb));
        }
        items.push(("blocks", jlist(blocks)));
        if with_promoted {
            let mut proms = Vec::new();
            for pb in tcx.promoted_mir(def_id).iter() {
                proms.push(self.body_inner(def_id, pb, false));
            }
            items.push(("promoted", jlist(proms)));
        }
        jobj(items)
    }
}

struct Extract;

impl Callbacks for Extract {
    fn after_analysis<'tcx>(&mut self, _c: &Compiler, tcx: TyCtxt<'tcx>) -> Compilation {
        let want = std::env::var("MIRFACTS_CRATE").unwrap_or_else(|_| "embedded_sdmmc".to_string());
        let name = tcx.crate_name(LOCAL_CRATE).to_string();
        if name != want {
            return Compilation::Continue;
        }
        let out = match std::env::var("MIRFACTS_OUT") {
            Ok(o) => o,
            Err(_) => return Compilation::Continue,
        };
        let cx = Cx { tcx };
        let mut bodies = Vec::new();
        for ldid in tcx.hir_body_owners() {
            let did = ldid.to_def_id();
            let dk = tcx.def_kind(did);
            if !matches!(dk, DefKind::Fn | DefKind::AssocFn | DefKind::Closure) {
                continue;
            }
            if !tcx.is_mir_available(did) {
                continue;
            }
            bodies.push(cx.body(did));
        }
        // ADT tables
        let mut adts = Vec::new();
        let mut consts = Vec::new();
        for ldid in tcx.hir_crate_items(()).definitions() {
            let did = ldid.to_def_id();
            match tcx.def_kind(did) {
                DefKind::Enum | DefKind::Struct => {
                    let def = tcx.adt_def(did);
                    let mut vars = Vec::new();
                    for (vi, v) in def.variants().iter_enumerated() {
                        let discr = if def.is_enum() {
                            def.discriminant_for_variant(tcx, vi).val.to_string()
                        } else {
                            "0".into()
                        };
                        vars.push(jobj(vec![
                            ("name", esc(&v.name.to_string())),
                            ("idx", vi.as_usize().to_string()),
                            ("discr", discr),
                            (
                                "fields",
                                jlist(
                                    v.fields
                                        .iter()
                                        .map(|f| {
                                            let fty = tcx.type_of(f.did).instantiate_identity().skip_norm_wip();
                                            jobj(vec![
                                                ("name", esc(&f.name.to_string())),
                                                ("ty", cx.ty(fty)),
                                                ("pub", if f.vis.is_public() { "true".into() } else { "false".into() }),
                                            ])
                                        })
                                        .collect(),
                                ),
                            ),
                        ]));
                    }
                    adts.push(jobj(vec![
                        ("path", esc(&tcx.def_path_str(did))),
                        ("kind", esc(if def.is_enum() { "enum" } else { "struct" })),
                        ("variants", jlist(vars)),
                    ]));
                }
                DefKind::Static { .. } => {
                    // lookup tables kept in statics: arrays of unsigned integers, element by element
                    let ty = tcx.type_of(did).instantiate_identity().skip_norm_wip();
                    if let ty::Array(elem, n) = ty.kind() {
                        let esz: Option<usize> = match elem.kind() {
                            ty::Uint(u) => Some(u.bit_width().map(|w| (w / 8) as usize).unwrap_or(8)),
                            _ => None,
                        };
                        if let (Some(esz), Some(len), Ok(alloc)) = (esz, n.try_to_target_usize(tcx), tcx.eval_static_initializer(did)) {
                            let a = alloc.inner();
                            let end = esz * len as usize;
                            if len <= 65536 && end <= a.len() {
                                let bytes = a.inspect_with_uninit_and_ptr_outside_interpreter(0..end);
                                let mut elems = Vec::new();
                                for k in 0..len as usize {
                                    let mut v: u128 = 0;
                                    for j in 0..esz {
                                        v |= (bytes[k * esz + j] as u128) << (8 * j);
                                    }
                                    elems.push(v.to_string());
                                }
                                consts.push(jobj(vec![
                                    ("path", esc(&tcx.def_path_str(did))),
                                    ("ty", cx.ty(ty)),
                                    ("elems", jlist(elems)),
                                ]));
                            }
                        }
                    }
                }
                DefKind::Const { .. } | DefKind::AssocConst { .. } => {
                    let generics = tcx.generics_of(did);
                    if generics.count() != 0 && generics.requires_monomorphization(tcx) {
                        // try anyway below only if the type is scalar and no params are used
                    }
                    let ty = tcx.type_of(did).instantiate_identity().skip_norm_wip();
                    // consts of generic impls are evaluated too: const_eval_poly answers TooGeneric (Err) when the
                    // value really depends on a parameter
                    if let Ok(cv) = tcx.const_eval_poly(did) {
                        if let Some(si) = cv.try_to_scalar_int() {
                            let bits = si.to_bits(si.size());
                            let v: i128 = match ty.kind() {
                                ty::Int(_) => si.size().sign_extend(bits) as i128,
                                _ => bits as i128,
                            };
                            consts.push(jobj(vec![
                                ("path", esc(&tcx.def_path_str(did))),
                                ("ty", cx.ty(ty)),
                                ("val", v.to_string()),
                            ]));
                        } else if let (mir::ConstValue::Indirect { alloc_id, offset }, ty::Array(elem, _)) = (cv, ty.kind()) {
                            // lookup tables: arrays of unsigned integers are emitted element by element
                            let esz: Option<usize> = match elem.kind() {
                                ty::Uint(u) => Some(u.bit_width().map(|w| (w / 8) as usize).unwrap_or(8)),
                                _ => None,
                            };
                            let len = match ty.kind() {
                                ty::Array(_, n) => n.try_to_target_usize(tcx),
                                _ => None,
                            };
                            if let (Some(esz), Some(len)) = (esz, len) {
                                if len <= 65536 {
                                    if let rustc_middle::mir::interpret::GlobalAlloc::Memory(mem) = tcx.global_alloc(alloc_id) {
                                        let a = mem.inner();
                                        let start = offset.bytes() as usize;
                                        let end = start + esz * len as usize;
                                        if end <= a.len() {
                                            let bytes = a.inspect_with_uninit_and_ptr_outside_interpreter(start..end);
                                            let mut elems = Vec::new();
                                            for k in 0..len as usize {
                                                let mut v: u128 = 0;
                                                for j in 0..esz {
                                                    v |= (bytes[k * esz + j] as u128) << (8 * j);
                                                }
                                                elems.push(v.to_string());
                                            }
                                            consts.push(jobj(vec![
                                                ("path", esc(&tcx.def_path_str(did))),
                                                ("ty", cx.ty(ty)),
                                                ("elems", jlist(elems)),
                                            ]));
                                        }
                                    }
                                }
                            }
                        }
                    }
                }
                _ => {}
            }
        }
        // a few foreign enums the rules dispatch on
        let mut foreign = Vec::new();
        for (name, sym_path) in [("Result", "result::Result"), ("Option", "option::Option"), ("ControlFlow", "ops::ControlFlow")] {
            let _ = sym_path;
            foreign.push(esc(name));
        }
        let feats: Vec<String> = vec![esc(&std::env::var("MIRFACTS_CFG").unwrap_or_default())];
        let doc = jobj(vec![
            ("crate", esc(&name)),
            ("rustc", esc(&rustc_interface::util::rustc_version_str().unwrap_or("?").to_string())),
            ("cfg", jlist(feats)),
            ("overflow_checks", if tcx.sess.overflow_checks() { "true".into() } else { "false".into() }),
            ("bodies", jlist(bodies)),
            ("adts", jlist(adts)),
            ("consts", jlist(consts)),
        ]);
        std::fs::write(&out, doc).expect("mirfacts: cannot write fact file");
        Compilation::Continue
    }
}

fn main() {
    let mut args: Vec<String> = std::env::args().collect();
    // RUSTC_WORKSPACE_WRAPPER: argv = [wrapper, rustc, args...]
    if args.len() > 1 && (args[1].ends_with("rustc") || args[1].contains("/rustc")) {
        args.remove(1);
    }
    let mut cb = Extract;
    rustc_driver::run_compiler(&args, &mut cb);
}
