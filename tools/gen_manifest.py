#!/usr/bin/env python3
"""Regenerate MANIFEST.json from the rule registry and analysis/propinfo.py."""
import json, os, sys
V = os.path.dirname(os.path.dirname(os.path.abspath(__file__)))
sys.path.insert(0, V)
from analysis import registry
from analysis.framework import RULES
from analysis.propinfo import INFO, NOT_APPLICABLE
props = [json.loads(l) for l in open(os.path.join(V, "properties.jsonl"))]
checks = []
na = []
for p in props:
    pid = p["id"]
    rids = registry.rules_for(pid)
    info = INFO.get(pid)
    if not rids or pid in NOT_APPLICABLE or info is None:
        na.append({"property_id": pid, "reason": NOT_APPLICABLE.get(pid, "no static rule built for this property yet")})
        continue
    checks.append({
        "property_id": pid,
        "quick_cmd": "./check %s --tier quick" % pid,
        "thorough_cmd": "./check %s --tier thorough" % pid,
        "evidence_file": "/verif/evidence/%s.json" % pid,
        "replay_cmd_template": "./check %s --replay {path}" % pid,
        "engine": "mirfacts+rules",
        "level_claimed": {"category": info.get("level", "other"), "text": info["claim"], "design_ref": info.get("design_ref", "DESIGN.md §3 " + pid)},
        "level_note": info["note"],
        "technique": info["technique"],
    })
m = {
    "version": 1,
    "setup_cmd": "./setup.sh",
    "hooks": {"guard": "embedded_sdmmc_verif", "enable": "none needed: the extractor runs inside rustc (RUSTC_WORKSPACE_WRAPPER) and sees private items; nothing is compiled into the library",
              "baseline_off_cmd": "cd /repo && cargo test --workspace --no-fail-fast --offline", "source_commits": [], "add_only": True},
    "engines": [
        {"name": "mirfacts", "path": "tools/mirfacts", "serves_properties": [c["property_id"] for c in checks], "kind_free_text": "rustc_private driver serialising type-checked MIR (mir-opt-level=0, overflow checks on) of /repo's working tree to JSON facts"},
        {"name": "rules", "path": "analysis", "serves_properties": [c["property_id"] for c in checks], "kind_free_text": "Python rule engines over the fact base: CFG algebra, guard/edge-dominance, event-language product (CFG x DFA), value-origin chasing, error-fate, bit-vector/interval abstract interpretation"},
    ],
    "checks": checks,
    "not_applicable": na,
    "notes": "Static analysis only. Every check re-extracts facts from /repo's working tree on each run (fingerprint deleted, nonce output path, fail closed). Known genuine defects recorded in known_findings.json.",
}
json.dump(m, open(os.path.join(V, "MANIFEST.json"), "w"), indent=1)
print("checks:", [c["property_id"] for c in checks], "na:", [n["property_id"] for n in na])
