#!/bin/bash
# usage: tools/confirm_seeded.sh <seeded-id>
# Confirms a seeded change in a scratch worktree of /repo HEAD: (1) patch applies and the existing suite passes,
# (2) the demonstration fails with the change, (3) the demonstration passes without it. Writes seeded/<id>/confirm.json.
id=$1
V=/verif
S=$V/seeded/$id
W=$(mktemp -d /tmp/conf.$id.XXXX)
rmdir $W
git -C /repo worktree add --detach $W HEAD -q || exit 2
cp /repo/Cargo.lock $W/ 2>/dev/null
cd $W
res_apply=ok
git apply $S/patch.diff 2>/dev/null || patch -p1 -s < $S/patch.diff || res_apply=failed
demo=$(ls $S/*.rs | head -1)
dname=$(basename $demo .rs)
suite=$(cargo test --offline --no-fail-fast 2>&1 | grep -a -E "^test result" | awk '{p+=$4; f+=$6} END {print p" "f}')
cp $demo tests/$dname.rs; cp $S/*.inc tests/ 2>/dev/null
with=$(cargo test --offline --test $dname 2>&1 | grep -a -E "^test result" | awk '{p+=$4; f+=$6} END {print p" "f}')
git checkout -q -- src
without=$(cargo test --offline --test $dname 2>&1 | grep -a -E "^test result" | awk '{p+=$4; f+=$6} END {print p" "f}')
head=$(git rev-parse --short HEAD)
cd /
git -C /repo worktree remove --force $W
python3 - <<PY
import json
sp,sf=[int(x) for x in "$suite".split()] if "$suite".strip() else (0,-1)
wp,wf=[int(x) for x in "$with".split()] if "$with".strip() else (0,0)
np_,nf=[int(x) for x in "$without".split()] if "$without".strip() else (0,-1)
ok = "$res_apply"=="ok" and sp>=46 and sf==0 and wf>0 and nf==0 and np_>0
json.dump({"id":"$id","repo_head":"$head","patch_applies":"$res_apply","suite_with_change":{"passed":sp,"failed":sf},"demo_with_change":{"passed":wp,"failed":wf},"demo_without_change":{"passed":np_,"failed":nf},"confirmed":ok,
 "ran":["git worktree add (scratch)","git apply patch.diff","cargo test --offline --no-fail-fast","cp demo tests/ && cargo test --offline --test $dname","git checkout -- src && cargo test --offline --test $dname"]},open("$S/confirm.json","w"),indent=1)
print("$id", "CONFIRMED" if ok else "NOT-CONFIRMED", "$res_apply", "suite", sp, sf, "with", wp, wf, "without", np_, nf)
PY
