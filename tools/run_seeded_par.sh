#!/bin/sh
# usage: tools/run_seeded_par.sh [N] [id-prefix...]  -- run_seeded.py in N parallel shards (own cargo target dirs), merged into seeded/matrix.json
set -e
cd "$(dirname "$0")/.."
N=${1:-8}; [ $# -gt 0 ] && shift
OUT=$(mktemp -d /tmp/seedpar.XXXXXX)
k=0
while [ $k -lt $N ]; do
  SEEDED_SHARD="$k/$N" SEEDED_MATRIX="$OUT/m$k.json" VERIF_CACHE="$PWD/.cache/shard$k" python3 tools/run_seeded.py "$@" > "$OUT/log$k.txt" 2>&1 &
  k=$((k+1))
done
wait
cat "$OUT"/log*.txt | sort
python3 - "$OUT" "$@" <<'PY'
import json, sys, glob, os
out = sys.argv[1]; only = sys.argv[2:]
V = os.getcwd()
mp = os.path.join(V, "seeded", "matrix.json")
mx = json.load(open(mp)) if only and os.path.exists(mp) else {}
for f in sorted(glob.glob(os.path.join(out, "m*.json"))):
    mx.update(json.load(open(f)))
json.dump(mx, open(mp, "w"), indent=1, sort_keys=True)
missed = [k for k, v in mx.items() if k.split("-")[0] not in v]
print("matrix entries:", len(mx), "own-property misses:", missed)
PY
rm -rf "$OUT"
