#!/usr/bin/env python3
"""Build seeded/<id>/meta.json from the author's meta (meta.agent.json), my confirmation run (confirm.json) and the
measured detection matrix (seeded/matrix.json)."""
import json, os, sys, glob
V = os.path.dirname(os.path.dirname(os.path.abspath(__file__)))
mx = json.load(open(os.path.join(V, "seeded", "matrix.json")))
for d in sorted(glob.glob(os.path.join(V, "seeded", "C*-*"))):
    sid = os.path.basename(d)
    mp = os.path.join(d, "meta.json")
    ap = os.path.join(d, "meta.agent.json")
    meta = json.load(open(mp)) if os.path.exists(mp) else {}
    if os.path.exists(ap):
        a = json.load(open(ap))
        for k in ("property", "summary", "needs", "files", "demo_cmd"):
            if k in a and k not in meta:
                meta[k] = a[k]
    meta.setdefault("property", sid.split("-")[0])
    cp = os.path.join(d, "confirm.json")
    if os.path.exists(cp):
        c = json.load(open(cp))
        meta["what_i_ran"] = c.get("ran", meta.get("what_i_ran"))
        meta["confirmation"] = {k: c[k] for k in ("repo_head", "patch_applies", "suite_with_change", "demo_with_change", "demo_without_change", "confirmed") if k in c}
    if sid in mx:
        meta["detected_by"] = mx[sid]
    meta["demonstration"] = sorted(os.path.basename(x) for x in glob.glob(os.path.join(d, "*.rs")))
    json.dump(meta, open(mp, "w"), indent=1)
print("merged", len(glob.glob(os.path.join(V, "seeded", "C*-*"))))
