#!/bin/sh
# usage: tools/run_benign_par.sh [N]  -- every registered benign variant (selftest/index.json) through tools/run_benign.py, N at a time (own fact caches); prints the variants that are not silent
cd "$(dirname "$0")/.."
N=${1:-8}
OUT=$(mktemp -d /tmp/benpar.XXXXXX)
python3 -c "
import json
for m in json.load(open('selftest/index.json'))['benign']: print(m['patch'])" | xargs -P "$N" -I{} sh -c 'n=$(basename {} .diff); BENIGN_VERBOSE=300 VERIF_CACHE='"$PWD"'/.cache/ben_$n python3 tools/run_benign.py {} > '"$OUT"'/$n.out 2>&1; rm -rf '"$PWD"'/.cache/ben_$n'
cat "$OUT"/*.out > "$OUT/all.txt"
echo "silent: $(grep -c -- '-> silent' "$OUT/all.txt") of $(grep -c -- ' -> ' "$OUT/all.txt")"
grep -B6 -- "-> FALSE-ALARM\|PATCH-FAILED" "$OUT/all.txt" | cut -c1-400
rm -rf "$OUT"
