#!/usr/bin/env python3
"""Run every property's rules against every seeded / selftest mutant (one fact extraction per mutant).
Writes seeded/matrix.json (seeded id -> property -> rules that fire) and prints the matrix."""
import json, os, shutil, subprocess, sys, tempfile
V = os.path.dirname(os.path.dirname(os.path.abspath(__file__)))
sys.path.insert(0, V)
from analysis import registry, framework, facts as factsmod
from analysis.mir import Facts

props = [json.loads(l)["id"] for l in open(os.path.join(V, "properties.jsonl"))]
only = sys.argv[1:]
items = []
for d in sorted(os.listdir(os.path.join(V, "seeded"))):
    p = os.path.join(V, "seeded", d, "patch.diff")
    if os.path.exists(p):
        items.append((d, p))
for m in json.load(open(os.path.join(V, "selftest", "index.json")))["mutants"]:
    items.append(("selftest:" + m["id"], os.path.join(V, m["patch"])))
mx_path = os.environ.get("SEEDED_MATRIX") or os.path.join(V, "seeded", "matrix.json")
mx = json.load(open(mx_path)) if os.path.exists(mx_path) and only else {}
if os.environ.get("SEEDED_SHARD"):
    # "k/n": this process handles every n-th item (tools/run_seeded_par.sh runs the shards in parallel, each with its own VERIF_CACHE)
    k, n = [int(x) for x in os.environ["SEEDED_SHARD"].split("/")]
    items = [it for j, it in enumerate(x for x in items if not only or any(x[0].startswith(o) or x[0] == "selftest:" + o for o in only)) if j % n == k]
    mx = {}
os.environ.setdefault("VERIF_TIER", "quick")
for sid, patch in items:
    if only and not any(sid.startswith(o) or sid == "selftest:" + o for o in only):
        continue
    tmp = tempfile.mkdtemp(prefix="seed.")
    try:
        repo = os.path.join(tmp, "repo")
        os.makedirs(repo)
        for x in ("src", "Cargo.toml", "Cargo.lock"):
            s = os.path.join("/repo", x)
            (shutil.copytree if os.path.isdir(s) else shutil.copy)(s, os.path.join(repo, x))
        r = subprocess.run(["patch", "-p1", "-s", "-i", patch], cwd=repo, capture_output=True, text=True)
        if r.returncode != 0:
            print(sid, "-> PATCH-FAILED", r.stdout[:200].replace("\n", " "), flush=True)
            continue
        try:
            raw, info = factsmod.extract(repo, "log")
        except factsmod.ExtractError as e:
            print(sid, "-> DOES-NOT-COMPILE", flush=True)
            continue
        F = Facts(raw)
        det = {}
        cache = {}
        for p in props:
            fired = set()
            for rid in registry.rules_for(p):
                if rid not in cache:
                    inst, _ = framework.run_rules(F, [rid], "log")
                    cache[rid] = inst
                new, _old = framework.classify(cache[rid], p)
                und = [i for i in cache[rid] if i["status"] == "undecided"]
                if new:
                    # "~" marks a detection that rests only on a count floor / missing anchor (fail-closed), not on a clause of the rule
                    soft = all(i.get("key") == "floor" or (i.get("kind") == "anchor-missing") for i in new)
                    fired.add(rid + ("~" if soft else ""))
                elif und:
                    fired.add(rid + "?")
            if fired:
                det[p] = sorted(fired)
        if not sid.startswith("selftest:"):
            mx[sid] = {p: [r.rstrip("~") for r in rs if not r.endswith("?")] for p, rs in det.items() if any(not r.endswith("?") for r in rs)}
            softonly = [p for p, rs in det.items() if rs and all(r.endswith(("~", "?")) for r in rs)]
            if softonly:
                print(sid, "   (detected only through count floors / anchors for: %s)" % " ".join(softonly), flush=True)
        own = sid.split("-")[0] if not sid.startswith("selftest:") else None
        flag = "" if own is None or own in det else "   (own property %s: MISSED)" % own
        print(sid, "->", " ".join("%s[%s]" % (p, ",".join(rs)) for p, rs in sorted(det.items())) or "MISSED", flag, flush=True)
    finally:
        shutil.rmtree(tmp, ignore_errors=True)
json.dump(mx, open(mx_path, "w"), indent=1, sort_keys=True)
