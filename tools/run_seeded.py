#!/usr/bin/env python3
"""Run the registered checks against every seeded change (scratch copy of /repo + patch). Prints a matrix."""
import json, os, shutil, subprocess, sys, tempfile
V = os.path.dirname(os.path.dirname(os.path.abspath(__file__)))
props = [c["property_id"] for c in json.load(open(os.path.join(V, "MANIFEST.json")))["checks"]] or sys.argv[2:]
only = sys.argv[1:] 
rows = []
for d in sorted(os.listdir(os.path.join(V, "seeded"))):
    if only and not any(d.startswith(o) for o in only):
        continue
    patch = os.path.join(V, "seeded", d, "patch.diff")
    if not os.path.exists(patch):
        continue
    tmp = tempfile.mkdtemp(prefix="seed.")
    try:
        repo = os.path.join(tmp, "repo")
        os.makedirs(repo)
        for x in ("src", "Cargo.toml", "Cargo.lock"):
            s = os.path.join("/repo", x)
            (shutil.copytree if os.path.isdir(s) else shutil.copy)(s, os.path.join(repo, x))
        r = subprocess.run(["patch", "-p1", "-s", "-i", patch], cwd=repo, capture_output=True, text=True)
        if r.returncode != 0:
            rows.append((d, "PATCH-FAILED " + r.stdout[:200]))
            continue
        hits = []
        env = dict(os.environ, VERIF_REPO=repo, VERIF_EVIDENCE_DIR=os.path.join(tmp, "ev"))
        for p in props:
            r = subprocess.run([os.path.join(V, "check"), p], cwd=V, env=env, capture_output=True, text=True)
            if r.returncode == 1:
                rules = sorted({l.split("rule=")[1].split()[0] for l in r.stdout.splitlines() if l.strip().startswith("rule=")})
                hits.append("%s[%s]" % (p, ",".join(rules)))
            elif r.returncode != 0:
                hits.append("%s[exit%d]" % (p, r.returncode))
        rows.append((d, " ".join(hits) if hits else "MISSED"))
    finally:
        shutil.rmtree(tmp, ignore_errors=True)
    print(rows[-1][0], "->", rows[-1][1], flush=True)
