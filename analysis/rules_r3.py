"""Rules added after the third round of seeded changes: dirty-flag discipline (DR1), chain-extension anchor (AC1),
mount-time validation is not bypassed (MT5), cluster-range bounds agree (FT11)."""
from .framework import rule
from .ev import all_guards, guarded, g_call, g_cmp, g_try_ok, try_inner
from .mir import tstr, callee_of, path_matches, strip_refs, subterms, tmatch, find_sub, strip_generics
from .fsmodel import VM, VMD, FATVOL, call_matches, ok_returns, err_returns, medium_effects, state_effects, FAT_MUTATORS, CACHE_MUTATORS
from .dataflow import var_def_terms
from .rules_guard import has_sub, last_field
from .rules_fs import fat_arms


def dirty_stores(fn):
    """(block, idx, value) of stores into <open_files[..]>.dirty"""
    out = []
    for b, i, s in fn.stmts():
        if s["k"] == "Assign" and s["p"]["proj"] and s["p"]["proj"][-1][0] == "field" and s["p"]["proj"][-1][2] == "dirty":
            v = fn.term_of_rvalue(s["rv"], b)
            out.append((b, i, v[1] if v[0] == "c" else None))
    return out


@rule("DR1", ["C02", "C09", "C05", "C01"], floor=8,
      doc="dirty-flag discipline: in VolumeManager::write the store open_files[f].dirty = true lies on every path to every medium mutation (alloc_cluster, cache write) and every change of the file's recorded entry (length, first cluster, attributes, mtime), so whatever a write changed - even one that later fails - is committed to the directory entry by the next flush/close; and no function clears the flag before the last fallible medium write it stands for")
def dr1(F, R):
    fn = F.fn(VM + "::write")
    sets = [(b, i) for (b, i, v) in dirty_stores(fn) if v in (1, True)]
    R.require(len(sets) >= 1, fn, "sets-dirty", "write() never marks the file dirty", fn.loc(0))
    cut = [b for b, i in sets]
    free = fn.reach([0], cut_blocks=cut)
    sites = [(b, "medium:" + d) for (b, i, k, d) in medium_effects(fn)] + [(b, "state:" + d) for (b, i, k, d) in state_effects(fn) if "dirty" not in d and "current_cluster" not in d and "seek_" not in d]
    for b, d in sites:
        R.require(b not in free, fn, "dirty-before:" + d, "write() can reach %s without having marked the file dirty: the change is never committed to the directory entry (length/first cluster/mtime lost after close)" % d, fn.loc(b))
    # clearing
    n = 0
    for g in F.fns:
        if not g.npath.startswith("volume_mgr::VolumeManager"):
            continue
        for (b, i, v) in dirty_stores(g):
            if v in (1, True):
                continue
            n += 1
            after = g.reach_after(b) | {b}
            late = [(bb, d) for (bb, ii, k, d) in medium_effects(g) if bb in after and bb != b]
            R.require(not late, g, "clear-after-writes", "%s clears the dirty flag before %s has succeeded: a failed flush is forgotten and a retry writes nothing" % (g.npath.split("::")[-1], ", ".join(sorted({d for _, d in late}))), g.loc(b, i))
    if n == 0:
        R.ok(None, "no-early-clear", "no function clears the dirty flag (flush always rewrites the entry)")


@rule("AC1", ["C03", "C09", "C01", "C05"], floor=3,
      doc="a chain is only ever extended at its tail: every alloc_cluster(.., Some(prev), ..) is reached only on the EndOfFile answer of a chain lookup (next_cluster(c) / find_data_on_disk(&mut cursor, ..)) and prev is exactly the cluster that lookup ended on (c, respectively cursor.1 as advanced by the lookup) - never the directory's / file's first cluster or a cached cursor")
def ac1(F, R):
    n = 0
    for fn in F.fns:
        if fn.npath.startswith(("fat::test", "volume_mgr::tests")) or "{closure" in fn.npath:
            continue
        for b, t in fn.calls():
            if not call_matches(t, ("FatVolume::alloc_cluster",)) or fn.npath.endswith("::alloc_cluster"):
                continue
            prev = strip_refs(fn.term_of_operand(t["args"][2], b))
            if prev[0] == "agg" and prev[2] and prev[2].endswith("Option::None"):
                R.ok(fn, "new-chain", "alloc_cluster(None): starts a new chain", fn.loc(b))
                continue
            n += 1
            if not (prev[0] == "agg" and prev[2] and prev[2].endswith("Option::Some")):
                R.bad(fn, "extend:prev-opaque", "alloc_cluster is given a computed Option as predecessor (%s): cannot see that it is the chain tail" % tstr(prev), fn.loc(b))
                continue
            x = strip_refs(prev[3][0])
            # the EndOfFile guards on every path to this call
            eofs = [(gb, gi, g) for (gb, gi, g) in all_guards(fn) if g.kind == "variant" and g.variant == "EndOfFile"]
            okg = False
            anchor = None
            for (gb, gi, g) in eofs:
                if not fn.unreachable_without(b, [(gb, gi)]):
                    continue
                calls = [q for q in subterms(g.term) if q[0] == "call" and q[1] and (path_matches(q[1], "FatVolume::next_cluster") or path_matches(q[1], "find_data_on_disk"))]
                if not calls:
                    continue
                c = calls[0]
                okg = True
                if path_matches(c[1], "FatVolume::next_cluster"):
                    anchor = strip_refs(c[2][2])
                    good = anchor == x
                    what = "next_cluster(%s)" % tstr(anchor)
                else:
                    cur = strip_refs(c[2][2])
                    good = x[0] == "place" and tuple(x[2]) == ("1",) and strip_refs(x[1]) == cur and cur[0] == "var"
                    what = "find_data_on_disk(&mut %s, ..)" % tstr(cur)
                R.require(good, fn, "extend:tail", "the chain is extended after %s although the lookup that reported the end of the chain was %s: the new cluster is linked behind a cluster that is not the tail, cutting the rest of the chain off" % (tstr(x), what), fn.loc(b),
                          okdetail="extends after %s = tail reported by %s" % (tstr(x), what))
                break
            if not okg:
                R.bad(fn, "extend:no-eof", "alloc_cluster(Some(%s)) is not reached through the EndOfFile answer of a chain lookup" % tstr(x), fn.loc(b))
    R.require(n >= 3, None, "sites", "expected at least 3 chain-extension sites (write, directory growth FAT16/FAT32), found %d" % n)


@rule("MT5", ["C04", "C15", "C16"], floor=3,
      doc="mount-time validation is not bypassed: parse_volume returns a volume only past the success edge of Bpb::create_from_bytes (signature, geometry), and a FAT32 volume - the only kind whose info_location is later rewritten by update_info_sector - only past the success edge of InfoSector::create_from_bytes on the block read from that very info_location (lead/struct/trail signatures), so the block update_info_sector stamps is one that carried the FSInfo signatures at mount")
def mt5(F, R):
    fn = F.fn("fat::volume::parse_volume")
    oks = ok_returns(fn)
    R.require(len(oks) >= 2, fn, "ok-returns", "expected a FAT16 and a FAT32 success return", fn.loc(0))

    def try_ok_of(name):
        def pred(g):
            if g.kind != "variant" or g.variant not in ("Continue", "Ok"):
                return False
            x = try_inner(g.term) if g.variant == "Continue" else g.term
            while x is not None and x[0] == "call" and x[1] and x[1].endswith("::map_err"):
                x = x[2][0]
            return x is not None and x[0] == "call" and x[1] and path_matches(x[1], name)
        return pred

    n32 = 0
    for (b, i, v) in oks:
        g1, _ = guarded(fn, b, try_ok_of("Bpb::create_from_bytes"))
        R.require(g1, fn, "bpb-validated", "parse_volume can return a volume without Bpb::create_from_bytes having accepted the boot sector", fn.loc(b, i))
        is32 = has_sub(v, lambda q: q[0] == "agg" and q[2] and q[2].endswith("FatSpecificInfo::Fat32")) or any(
            s["k"] == "Assign" and s["rv"]["k"] == "Aggregate" and s["rv"].get("variant_name") == "Fat32" and "FatSpecificInfo" in s["rv"].get("adt", "") and b in (fn.reach_after(bb) | {bb})
            for bb, ii, s in fn.stmts())
        g32, _ = guarded(fn, b, lambda g: g.kind == "value" and "fat_type" in tstr(g.term) or (g.kind == "variant" and g.variant == "Fat32" and "fat_type" in tstr(g.term)))
        if not is32:
            continue
        n32 += 1
        # the validated block is the one read from the info location stored in the volume
        def okp(g):
            if not try_ok_of("InfoSector::create_from_bytes")(g):
                return False
            return has_sub(g.term, lambda q: q[0] == "call" and q[1] and path_matches(q[1], "BlockCache::read"))
        g2, _ = guarded(fn, b, okp)
        R.require(g2, fn, "fsinfo-validated", "parse_volume can return a FAT32 volume whose FSInfo block was not validated (InfoSector::create_from_bytes failing is ignored): update_info_sector later stamps hints into whatever block BPB_FSInfo points at (boot sector, data area)", fn.loc(b, i))
    R.require(n32 >= 1, fn, "fat32-return", "no FAT32 success return found", fn.loc(0))
    # the location stored in the volume is the location that was read and validated
    rd = [strip_refs(fn.term_of_operand(t["args"][1], b)) for b, t in fn.calls() if call_matches(t, ("BlockCache::read",))]
    stored = []
    for b, i, s in fn.stmts():
        if s["k"] == "Assign" and s["rv"]["k"] == "Aggregate" and s["rv"].get("adt", "").endswith("Fat32Info") and "info_location" in (s["rv"].get("fields") or []):
            stored.append(strip_refs(fn.term_of_operand(s["rv"]["ops"][s["rv"]["fields"].index("info_location")], b)))
    R.require(len(stored) == 1 and stored[0] in rd, fn, "validated=stored", "the FSInfo location stored in the volume (%s) is not the block that was read and validated (%s)" % ([tstr(x)[:80] for x in stored], [tstr(x)[:80] for x in rd]), fn.loc(0))


@rule("FT11", ["C05", "C03", "C16"], floor=5,
      doc="all cluster-range tests agree on the last cluster: every comparison of a cluster number with a bound built from self.cluster_count in FatVolume is, as a polynomial inequality, x < cluster_count + 2 (clusters 2 ..= cluster_count+1 are valid), and every find_next_free_cluster call is given end = cluster_count + 2; so the allocator, the hint check and the chain-freeing walk accept exactly the same clusters")
def ft11(F, R):
    from .poly import _pdict, _padd, show, peq, ADD, C
    cc = ("place", ("arg", 1, "self"), ("*", "cluster_count"))
    want_end = ADD(cc, C(2))
    ncmp = ncall = 0
    for fn in F.fns:
        if not fn.npath.startswith(FATVOL + "::") or "{closure" in fn.npath:
            continue
        seen = set()
        for (b, i, g) in all_guards(fn):
            if not (g.kind == "bool" and g.term[0] == "cmp" and g.term[1] in ("Lt", "Le", "Gt", "Ge")):
                continue
            if "cluster_count" not in tstr(g.term):
                continue
            k = tstr(g.term)
            if k in seen:
                continue
            seen.add(k)
            op, a, bb = g.term[1], g.term[2], g.term[3]
            if op in ("Gt", "Ge"):
                a, bb = bb, a
                op = {"Gt": "Lt", "Ge": "Le"}[op]
            diff = _padd(_pdict(bb), _pdict(a), -1)          # b - a  (> 0 for Lt, >= 0 for Le)
            if op == "Le":
                diff = _padd(diff, {(): 1})
            # expected: cluster_count + 2 - x
            exp = _padd(_pdict(want_end), {}, 1)
            rest = _padd(diff, exp, -1)
            ok = len(rest) == 1 and list(rest.values()) == [-1] and all(len(m) == 1 for m in rest)
            ncmp += 1
            R.require(ok, fn, "bound:%s" % fn.npath.split("::")[-1], "cluster range test `%s %s %s` is not `x < cluster_count + 2`: this site disagrees with the allocator about the last valid cluster (cluster_count + 1)" % (show(g.term[2]), g.term[1], show(g.term[3])), fn.loc(b))
        for b, t in fn.calls():
            if call_matches(t, ("FatVolume::find_next_free_cluster",)):
                ncall += 1
                e = fn.term_of_operand(t["args"][3], b)
                R.require(peq(e, want_end), fn, "search-end", "find_next_free_cluster is given end = %s, expected cluster_count + 2" % show(e), fn.loc(b))
    R.require(ncmp >= 2 and ncall >= 4, None, "sites", "expected >= 2 range comparisons and >= 4 free-cluster searches, found %d / %d" % (ncmp, ncall))


@rule("FA1", ["C01", "C06", "C18", "C02"], floor=8,
      doc="FAT-type agreement: inside the Fat16 / Fat32 arm of a match on fat_specific_info every FatType constant (passed to the entry decoder / encoder) is the arm's own type, helpers named *_fat16 / *_fat32 use and are called from the matching type only; otherwise the high 16 bits of a FAT32 start cluster are dropped (or garbage is read as such on FAT16)")
def fa1(F, R):
    n = 0
    for fn in F.fns:
        if fn.npath.startswith(("fat::test", "volume_mgr::tests")) or "{closure" in fn.npath or not fn.npath.startswith("fat::volume::"):
            continue
        arms = fat_arms(fn)
        suffix = "Fat16" if fn.npath.endswith("fat16") else ("Fat32" if fn.npath.endswith("fat32") else None)
        for b, i, s in fn.stmts():
            if s["k"] == "Assign" and s["rv"]["k"] == "Aggregate" and s["rv"].get("adt", "").endswith("fat::FatType"):
                v = s["rv"]["variant_name"]
                arm = "Fat16" if b in arms["Fat16"] else ("Fat32" if b in arms["Fat32"] else suffix)
                if arm is None:
                    R.bad(fn, "fat-type-const:unscoped", "FatType::%s used outside a FAT16/FAT32 arm" % v, fn.loc(b, i))
                    continue
                n += 1
                R.require(v == arm, fn, "fat-type-const:%s" % arm, "FatType::%s is used in the %s path of %s: directory entries are decoded/encoded with the wrong layout (start-cluster high word)" % (v, arm, fn.npath.split("::")[-1]), fn.loc(b, i))
        for b, t in fn.calls():
            c = (callee_of(t) or "")
            want = "Fat16" if c.endswith("fat16") else ("Fat32" if c.endswith("fat32") else None)
            if want and t.get("callee_local"):
                arm = "Fat16" if b in arms["Fat16"] else ("Fat32" if b in arms["Fat32"] else None)
                n += 1
                R.require(arm == want, fn, "helper:%s" % c.split("::")[-1], "%s is called from the %s path" % (c.split("::")[-1], arm), fn.loc(b))
    R.require(n >= 8, None, "sites", "expected >= 8 typed sites, found %d" % n)


@rule("NT1", ["C01", "C04", "C06"], floor=10,
      doc="the integer newtypes are plain integers: every Add/Sub/AddAssign/SubAssign impl of BlockIdx, BlockCount and ClusterId is exactly field arithmetic (Self(self.0 op rhs.0) resp. self.0 = self.0 op rhs.0), which is what lets the formula rules (CB1, SK5, LS4, BM1) treat `a + b` on these types as integer addition; BlockCount::from_bytes is the ceiling division by 512")
def nt1(F, R):
    from .poly import peq, ADD, SUB
    n = 0
    for fn in F.fns:
        p = fn.npath
        if not (p.startswith("<") and " as core::ops::" in p and any(x in p.split(" as ")[0] for x in ("BlockIdx", "BlockCount", "ClusterId"))):
            continue
        op = p.split("::")[-1]
        if op not in ("add", "sub", "add_assign", "sub_assign"):
            continue
        n += 1
        a = ("arg", 1, "self")
        b = ("arg", 2, "rhs")
        want = ADD(a, b) if op.startswith("add") else SUB(a, b)
        if op in ("add", "sub"):
            rets = [fn.term_of_rvalue(d[3], d[1]) if d[0] == "assign" else fn.call_term(d[2], d[1]) for d in fn.defs().get(0, [])]
            ok = len(rets) == 1 and rets[0][0] == "agg" and peq(rets[0], want)
        else:
            st = [fn.term_of_rvalue(s["rv"], bb) for bb, i, s in fn.stmts() if s["k"] == "Assign" and s["p"]["proj"] and s["p"]["l"] == 1]
            ok = len(st) == 1 and peq(st[0], ADD(("place", a, ("*",)), b) if op.startswith("add") else SUB(("place", a, ("*",)), b))
        R.require(ok, fn, "plain:" + p.split(" as ")[0].split("::")[-1] + "::" + op, "%s is not plain field arithmetic" % p, fn.loc(0))
    R.require(n >= 10, None, "impls", "expected >= 10 arithmetic impls on the newtypes, found %d" % n)
