"""Rules added after the third round of seeded changes: dirty-flag discipline (DR1), chain-extension anchor (AC1),
mount-time validation is not bypassed (MT5), cluster-range bounds agree (FT11)."""
from .framework import rule
from .ev import all_guards, guarded, g_call, g_cmp, g_try_ok, try_inner
from .mir import is_log_call, tstr, callee_of, path_matches, strip_refs, subterms, tmatch, find_sub, strip_generics, flat_place, rvalue_places
from .fsmodel import is_cluster_const, VM, VMD, FATVOL, table_of_term, call_matches, ok_returns, err_returns, medium_effects, state_effects, FAT_MUTATORS, CACHE_MUTATORS
from .dataflow import var_def_terms
from .rules_guard import has_sub, last_field
from .rules_fs import fat_arms
from .specialise import specialise_on, specialise_all, compared_constants, accepted_values, _fold, _subst_pred, _value_pred


def dirty_stores(fn):
    """(block, idx, value) of stores into <open_files[..]>.dirty"""
    out = []
    for b, i, s in fn.stmts():
        if s["k"] == "Assign" and s["p"]["proj"] and s["p"]["proj"][-1][0] == "field" and s["p"]["proj"][-1][2] == "dirty":
            v = fn.term_of_rvalue(s["rv"], b)
            out.append((b, i, v[1] if v[0] == "c" else None))
    return out


def dirty_setters(F):
    """Crate functions that store true into <their first argument>.dirty on every path to their return: calling one on
    open_files[f] is a set site (the store moved into a helper leaves the behaviour unchanged)."""
    out = set()
    for g in F.fns:
        st = [(b, i) for (b, i, v) in dirty_stores(g) if v in (1, True)]
        if not st or g.arg_count < 1:
            continue
        ok = True
        for (b, i) in st:
            s = g.blocks[b]["stmts"][i]
            base = strip_refs(g.term_of_place({"l": g.canon_place(s["p"])["l"], "proj": []}))
            if not (base[0] == "arg" and base[1] == 1):
                ok = False
        if not ok:
            continue
        free = g.reach([0], cut_blocks=[b for b, i in st])
        if any(g.blocks[b]["term"]["k"] == "Return" for b in free):
            continue
        out.add(g.npath)
    return out


@rule("DR1", ["C02", "C09", "C05", "C01"], floor=8,
      doc="dirty-flag discipline: in VolumeManager::write the store open_files[f].dirty = true lies on every path to every medium mutation (alloc_cluster, cache write) and every change of the file's recorded entry (length, first cluster, attributes, mtime), so whatever a write changed - even one that later fails - is committed to the directory entry by the next flush/close; and no function clears the flag before the last fallible medium write it stands for")
def dr1(F, R):
    fn = F.fn(VM + "::write")
    sets = [(b, i) for (b, i, v) in dirty_stores(fn) if v in (1, True)]
    setters = dirty_setters(F)
    for b, t in fn.calls():
        c = callee_of(t)
        if c and strip_generics(c) in setters and t["args"] and table_of_term(fn.term_of_operand(t["args"][0], b)) == "open_files":
            sets.append((b, None))
    R.require(len(sets) >= 1, fn, "sets-dirty", "write() never marks the file dirty", fn.loc(0))
    cut = [b for b, i in sets]
    free = fn.reach([0], cut_blocks=cut)
    sites = [(b, "medium:" + d) for (b, i, k, d) in medium_effects(fn)] + [(b, "state:" + d) for (b, i, k, d) in state_effects(fn) if "dirty" not in d and "current_cluster" not in d and "seek_" not in d]
    for b, d in sites:
        R.require(b not in free, fn, "dirty-before:" + d, "write() can reach %s without having marked the file dirty: the change is never committed to the directory entry (length/first cluster/mtime lost after close)" % d, fn.loc(b))
    # clearing
    n = 0
    for g in F.fns:
        if not g.npath.startswith("volume_mgr::VolumeManager"):
            continue
        for (b, i, v) in dirty_stores(g):
            if v in (1, True):
                continue
            n += 1
            after = g.reach_after(b) | {b}
            late = [(bb, d) for (bb, ii, k, d) in medium_effects(g) if bb in after and bb != b]
            R.require(not late, g, "clear-after-writes", "%s clears the dirty flag before %s has succeeded: a failed flush is forgotten and a retry writes nothing" % (g.npath.split("::")[-1], ", ".join(sorted({d for _, d in late}))), g.loc(b, i))
    if n == 0:
        R.ok(None, "no-early-clear", "no function clears the dirty flag (flush always rewrites the entry)")


@rule("AC1", ["C03", "C09", "C01", "C05"], floor=3,
      doc="a chain is only ever extended at its tail: every alloc_cluster(.., Some(prev), ..) is reached only on the EndOfFile answer of a chain lookup (next_cluster(c) / find_data_on_disk(&mut cursor, ..)) and prev is exactly the cluster that lookup ended on (c, respectively cursor.1 as advanced by the lookup) - never the directory's / file's first cluster or a cached cursor")
def ac1(F, R):
    n = 0
    for fn in F.fns:
        if fn.npath.startswith(("fat::test", "volume_mgr::tests")) or "{closure" in fn.npath:
            continue
        for b, t in fn.calls():
            if not call_matches(t, ("FatVolume::alloc_cluster",)) or fn.npath.endswith("::alloc_cluster"):
                continue
            prev = strip_refs(fn.term_of_operand(t["args"][2], b))
            if prev[0] == "agg" and prev[2] and prev[2].endswith("Option::None"):
                R.ok(fn, "new-chain", "alloc_cluster(None): starts a new chain", fn.loc(b))
                continue
            n += 1
            if not (prev[0] == "agg" and prev[2] and prev[2].endswith("Option::Some")):
                R.bad(fn, "extend:prev-opaque", "alloc_cluster is given a computed Option as predecessor (%s): cannot see that it is the chain tail" % tstr(prev), fn.loc(b))
                continue
            x = strip_refs(prev[3][0])
            # the EndOfFile guards on every path to this call
            eofs = [(gb, gi, g) for (gb, gi, g) in all_guards(fn) if g.kind == "variant" and g.variant == "EndOfFile"]
            okg = False
            anchor = None
            for (gb, gi, g) in eofs:
                if not fn.unreachable_without(b, [(gb, gi)]):
                    continue
                calls = [q for q in subterms(g.term) if q[0] == "call" and q[1] and (path_matches(q[1], "FatVolume::next_cluster") or path_matches(q[1], "find_data_on_disk"))]
                if not calls:
                    continue
                c = calls[0]
                okg = True
                if path_matches(c[1], "FatVolume::next_cluster"):
                    anchor = strip_refs(c[2][2])
                    good = anchor == x
                    what = "next_cluster(%s)" % tstr(anchor)
                else:
                    cur = strip_refs(c[2][2])
                    good = x[0] == "place" and tuple(x[2]) == ("1",) and strip_refs(x[1]) == cur and cur[0] == "var"
                    what = "find_data_on_disk(&mut %s, ..)" % tstr(cur)
                R.require(good, fn, "extend:tail", "the chain is extended after %s although the lookup that reported the end of the chain was %s: the new cluster is linked behind a cluster that is not the tail, cutting the rest of the chain off" % (tstr(x), what), fn.loc(b),
                          okdetail="extends after %s = tail reported by %s" % (tstr(x), what))
                break
            if not okg:
                R.bad(fn, "extend:no-eof", "alloc_cluster(Some(%s)) is not reached through the EndOfFile answer of a chain lookup" % tstr(x), fn.loc(b))
    R.require(n >= 3, None, "sites", "expected at least 3 chain-extension sites (write, directory growth FAT16/FAT32), found %d" % n)


@rule("MT5", ["C04", "C15", "C16"], floor=3,
      doc="mount-time validation is not bypassed: parse_volume returns a volume only past the success edge of Bpb::create_from_bytes (signature, geometry), and a FAT32 volume - the only kind whose info_location is later rewritten by update_info_sector - only past the success edge of InfoSector::create_from_bytes on the block read from that very info_location (lead/struct/trail signatures), so the block update_info_sector stamps is one that carried the FSInfo signatures at mount")
def mt5(F, R):
    fn = F.fn("fat::volume::parse_volume")
    oks = ok_returns(fn)
    R.require(len(oks) >= 2, fn, "ok-returns", "expected a FAT16 and a FAT32 success return", fn.loc(0))

    def try_ok_of(name):
        def pred(g):
            if g.kind != "variant" or g.variant not in ("Continue", "Ok"):
                return False
            x = try_inner(g.term) if g.variant == "Continue" else g.term
            while x is not None and x[0] == "call" and x[1] and x[1].endswith("::map_err"):
                x = x[2][0]
            return x is not None and x[0] == "call" and x[1] and path_matches(x[1], name)
        return pred

    n32 = 0
    for (b, i, v) in oks:
        g1, _ = guarded(fn, b, try_ok_of("Bpb::create_from_bytes"))
        R.require(g1, fn, "bpb-validated", "parse_volume can return a volume without Bpb::create_from_bytes having accepted the boot sector", fn.loc(b, i))
        is32 = has_sub(v, lambda q: q[0] == "agg" and q[2] and q[2].endswith("FatSpecificInfo::Fat32")) or any(
            s["k"] == "Assign" and s["rv"]["k"] == "Aggregate" and s["rv"].get("variant_name") == "Fat32" and "FatSpecificInfo" in s["rv"].get("adt", "") and b in (fn.reach_after(bb) | {bb})
            for bb, ii, s in fn.stmts())
        g32, _ = guarded(fn, b, lambda g: g.kind == "value" and "fat_type" in tstr(g.term) or (g.kind == "variant" and g.variant == "Fat32" and "fat_type" in tstr(g.term)))
        if not is32:
            continue
        n32 += 1
        # the validated block is the one read from the info location stored in the volume
        def okp(g):
            if not try_ok_of("InfoSector::create_from_bytes")(g):
                return False
            return has_sub(g.term, lambda q: q[0] == "call" and q[1] and path_matches(q[1], "BlockCache::read"))
        g2, _ = guarded(fn, b, okp)
        R.require(g2, fn, "fsinfo-validated", "parse_volume can return a FAT32 volume whose FSInfo block was not validated (InfoSector::create_from_bytes failing is ignored): update_info_sector later stamps hints into whatever block BPB_FSInfo points at (boot sector, data area)", fn.loc(b, i))
    R.require(n32 >= 1, fn, "fat32-return", "no FAT32 success return found", fn.loc(0))
    # the location stored in the volume is the location that was read and validated
    rd = [strip_refs(fn.term_of_operand(t["args"][1], b)) for b, t in fn.calls() if call_matches(t, ("BlockCache::read",))]
    stored = []
    for b, i, s in fn.stmts():
        if s["k"] == "Assign" and s["rv"]["k"] == "Aggregate" and s["rv"].get("adt", "").endswith("Fat32Info") and "info_location" in (s["rv"].get("fields") or []):
            stored.append(strip_refs(fn.term_of_operand(s["rv"]["ops"][s["rv"]["fields"].index("info_location")], b)))
    R.require(len(stored) == 1 and stored[0] in rd, fn, "validated=stored", "the FSInfo location stored in the volume (%s) is not the block that was read and validated (%s)" % ([tstr(x)[:80] for x in stored], [tstr(x)[:80] for x in rd]), fn.loc(0))


@rule("FT11", ["C05", "C03", "C16"], floor=5,
      doc="all cluster-range tests agree on the last cluster: every comparison of a cluster number with a bound built from self.cluster_count in FatVolume is, as a polynomial inequality, x < cluster_count + 2 (clusters 2 ..= cluster_count+1 are valid), and every find_next_free_cluster call is given end = cluster_count + 2; so the allocator, the hint check and the chain-freeing walk accept exactly the same clusters")
def ft11(F, R):
    from .poly import _pdict, _padd, show, peq, ADD, C
    cc = ("place", ("arg", 1, "self"), ("*", "cluster_count"))
    want_end = ADD(cc, C(2))
    ncmp = ncall = 0
    for fn in F.fns:
        if not fn.npath.startswith(FATVOL + "::") or "{closure" in fn.npath:
            continue
        seen = set()
        from .ev import tested_comparisons
        tests = [(b, op, a, bb) for (b, i, g) in all_guards(fn) for (op, a, bb) in tested_comparisons(g)]
        # comparisons computed as values (`lo <= c && c < end` in a predicate, kept in a flag): the same obligation
        for b, i, s_ in fn.stmts():
            if s_["k"] == "Assign" and s_["rv"]["k"] == "BinaryOp" and s_["rv"]["op"] in ("Lt", "Le", "Gt", "Ge"):
                tv = fn.term_of_rvalue(s_["rv"], b)
                if tv[0] == "bin":
                    tests.append((b, tv[1], tv[2], tv[3]))
        for (b, op, a, bb) in tests:
            if op not in ("Lt", "Le", "Gt", "Ge"):
                continue
            if "cluster_count" not in tstr(a) + tstr(bb):
                continue
            k = "%s %s %s" % (op, tstr(a), tstr(bb))
            if k in seen:
                continue
            seen.add(k)
            # the test splits the cluster numbers at an exclusive bound E (x < E on one side, x >= E on the other), whichever
            # way round it is written and whichever edge is taken: x < B / x >= B -> E = B; x <= B / x > B -> E = B + 1;
            # with the bound on the left: B > x / B <= x -> E = B; B >= x / B < x -> E = B + 1
            bound_right = "cluster_count" in tstr(bb)
            x_side, b_side = (a, bb) if bound_right else (bb, a)
            plus1 = (op in ("Le", "Gt")) if bound_right else (op in ("Ge", "Lt"))
            E = _pdict(b_side)
            if plus1:
                E = _padd(E, {(): 1})
            ok = _padd(E, _pdict(want_end), -1) == {} and "cluster_count" not in tstr(x_side)
            ncmp += 1
            R.require(ok, fn, "bound:%s" % fn.npath.split("::")[-1], "cluster range test `%s %s %s` is not `x < cluster_count + 2`: this site disagrees with the allocator about the last valid cluster (cluster_count + 1)" % (show(a), op, show(bb)), fn.loc(b))
        for b, t in fn.calls():
            if call_matches(t, ("FatVolume::find_next_free_cluster",)):
                ncall += 1
                e = fn.term_of_operand(t["args"][3], b)
                R.require(peq(e, want_end), fn, "search-end", "find_next_free_cluster is given end = %s, expected cluster_count + 2" % show(e), fn.loc(b))
    R.require(ncmp >= 2 and ncall >= 4, None, "sites", "expected >= 2 range comparisons and >= 4 free-cluster searches, found %d / %d" % (ncmp, ncall))


@rule("FA1", ["C01", "C06", "C18", "C02"], floor=8,
      doc="FAT-type agreement: inside the Fat16 / Fat32 arm of a match on fat_specific_info every FatType constant (passed to the entry decoder / encoder) is the arm's own type, helpers named *_fat16 / *_fat32 use and are called from the matching type only; otherwise the high 16 bits of a FAT32 start cluster are dropped (or garbage is read as such on FAT16)")
def fa1(F, R):
    n = 0
    for fn in F.fns:
        if fn.npath.startswith(("fat::test", "volume_mgr::tests")) or "{closure" in fn.npath or not fn.npath.startswith("fat::volume::"):
            continue
        arms = fat_arms(fn)
        suffix = "Fat16" if fn.npath.endswith("fat16") else ("Fat32" if fn.npath.endswith("fat32") else None)
        for b, i, s in fn.stmts():
            if s["k"] == "Assign" and s["rv"]["k"] == "Aggregate" and s["rv"].get("adt", "").endswith("fat::FatType"):
                v = s["rv"]["variant_name"]
                arm = "Fat16" if b in arms["Fat16"] else ("Fat32" if b in arms["Fat32"] else suffix)
                if arm is None:
                    R.bad(fn, "fat-type-const:unscoped", "FatType::%s used outside a FAT16/FAT32 arm" % v, fn.loc(b, i))
                    continue
                n += 1
                R.require(v == arm, fn, "fat-type-const:%s" % arm, "FatType::%s is used in the %s path of %s: directory entries are decoded/encoded with the wrong layout (start-cluster high word)" % (v, arm, fn.npath.split("::")[-1]), fn.loc(b, i))
        for b, t in fn.calls():
            c = (callee_of(t) or "")
            want = "Fat16" if c.endswith("fat16") else ("Fat32" if c.endswith("fat32") else None)
            if want and t.get("callee_local"):
                arm = "Fat16" if b in arms["Fat16"] else ("Fat32" if b in arms["Fat32"] else None)
                n += 1
                R.require(arm == want, fn, "helper:%s" % c.split("::")[-1], "%s is called from the %s path" % (c.split("::")[-1], arm), fn.loc(b))
    R.require(n >= 8, None, "sites", "expected >= 8 typed sites, found %d" % n)


def _eval_newtype_fn(F, fn, vals):
    """Run a small function over the integer newtypes on concrete values.  vals: one int per parameter (a parameter of
    reference type gets a cell holding the value).  -> (result as int | None, values of the reference parameters afterwards)"""
    from .absint import Interp, State
    from .absval import const, agg as _agg, int_const, is_int, is_agg, is_ptr
    I = Interp(F, mode="bv", max_paths=64)
    st = State()
    args, cells = [], []
    for k, v in enumerate(vals):
        ty = fn.locals[k + 1]["ty"]
        base = ty.replace("&mut ", "").replace("&", "").strip()
        width = {"u8": 8, "u16": 16, "u32": 32, "u64": 64, "usize": 64}.get(base)
        val = const(v, width) if width else _agg("struct", base, 0, [const(v, 32)])
        if ty.strip().startswith("&"):
            c = I.heap_alloc(st, val)
            cells.append(c)
            args.append(c)
        else:
            args.append(val)
    outs = I.run(fn, args, st, 0)
    if len(outs) != 1:
        return None, None

    def unwrap(x):
        while is_agg(x) and len(x[4]) == 1:
            x = x[4][0]
        return int_const(x) if is_int(x) else None
    rv, s2 = outs[0]
    return unwrap(rv), [unwrap(I.read_loc(s2, (c[1], c[2], c[3], None))) for c in cells]


@rule("NT1", ["C01", "C04", "C06"], floor=10,
      doc="the integer newtypes are plain integers: every Add/Sub/AddAssign/SubAssign impl of BlockIdx, BlockCount and ClusterId is exactly field arithmetic (Self(self.0 op rhs.0) resp. self.0 = self.0 op rhs.0), which is what lets the formula rules (CB1, SK5, LS4, BM1) treat `a + b` on these types as integer addition; BlockCount::offset_bytes(n) = self + n/512 and BlockIdx::into_bytes = self*512")
def nt1(F, R):
    """Decided by evaluation on sample values plus 'no data-dependent branch' (a branch-free integer function that agrees
    with a + b / a - b / a + n/512 / a*512 on these samples is that function: its result is a fixed polynomial-with-division
    of its arguments) - however the impl is written (directly, through the *Assign impl, through a helper)."""
    from .absint import Undecided
    n = 0
    samples = [(0, 0), (5, 3), (1000, 7), (0x40000000, 0x1234), (0xFFFF0000, 0xFFFF)]
    for fn in F.fns:
        p = fn.npath
        if not (p.startswith("<") and " as core::ops::" in p and any(x in p.split(" as ")[0] for x in ("BlockIdx", "BlockCount", "ClusterId"))):
            continue
        op = p.split("::")[-1]
        if op not in ("add", "sub", "add_assign", "sub_assign"):
            continue
        n += 1
        # rhs may be a plain integer (ClusterId += u32) or another newtype
        bad = None
        branches = [b for b in fn.live_blocks() if fn.term(b)["k"] == "SwitchInt"]
        try:
            for (a, b) in samples:
                if op.startswith("sub") and b > a:
                    a, b = b, a
                want = a + b if op.startswith("add") else a - b
                rv, cells = _eval_newtype_fn(F, fn, [a, b])
                got = cells[0] if op.endswith("_assign") else rv
                if got != want:
                    bad = "for (%d, %d) it gives %s, expected %d" % (a, b, got, want)
                    break
        except Undecided as e:
            bad = "cannot evaluate: %s" % e
        R.require(bad is None and not branches, fn, "plain:" + p.split(" as ")[0].split("::")[-1] + "::" + op, "%s is not plain field arithmetic: %s" % (p, bad or "it branches on its operands"), fn.loc(0))
    R.require(n >= 10, None, "impls", "expected >= 10 arithmetic impls on the newtypes, found %d" % n)
    for name, f_, pts in (("blockdevice::BlockCount::offset_bytes", lambda a, b: a + b // 512, [(0, 0), (3, 511), (3, 512), (10, 1025), (7, 0xFFFFFFFF)]),
                          ("blockdevice::BlockIdx::into_bytes", lambda a: a * 512, [(0,), (1,), (12345,), (0xFFFFFFFF,)])):
        fn = F.fn(name)
        bad = None
        try:
            for pt in pts:
                rv, _c = _eval_newtype_fn(F, fn, list(pt))
                if rv != f_(*pt):
                    bad = "for %s it gives %s, expected %d" % (pt, rv, f_(*pt))
                    break
        except Undecided as e:
            bad = "cannot evaluate: %s" % e
        branches = [b for b in fn.live_blocks() if fn.term(b)["k"] == "SwitchInt"]
        short = name.split("::")[-1]
        R.require(bad is None and not branches, fn, short, "%s must be %s: %s" % (name, "self + n / 512 (the FAT sector holding byte offset n)" if short == "offset_bytes" else "self * 512", bad or "it branches on its operands"), fn.loc(0))


WRAPPER_TABLE = {
    # wrapper method -> (VolumeManager method, handle field)
    "filesystem::files::File::read": ("read", "raw_file"),
    "filesystem::files::File::write": ("write", "raw_file"),
    "filesystem::files::File::is_eof": ("file_eof", "raw_file"),
    "filesystem::files::File::seek_from_current": ("file_seek_from_current", "raw_file"),
    "filesystem::files::File::seek_from_start": ("file_seek_from_start", "raw_file"),
    "filesystem::files::File::seek_from_end": ("file_seek_from_end", "raw_file"),
    "filesystem::files::File::length": ("file_length", "raw_file"),
    "filesystem::files::File::offset": ("file_offset", "raw_file"),
    "filesystem::files::File::flush": ("flush_file", "raw_file"),
    "filesystem::files::File::close": ("close_file", "raw_file"),
    "filesystem::directory::Directory::open_dir": ("open_dir", "raw_directory"),
    "filesystem::directory::Directory::find_directory_entry": ("find_directory_entry", "raw_directory"),
    "filesystem::directory::Directory::iterate_dir": ("iterate_dir", "raw_directory"),
    "filesystem::directory::Directory::iterate_dir_lfn": ("iterate_dir_lfn", "raw_directory"),
    "filesystem::directory::Directory::open_file_in_dir": ("open_file_in_dir", "raw_directory"),
    "filesystem::directory::Directory::delete_file_in_dir": ("delete_file_in_dir", "raw_directory"),
    "filesystem::directory::Directory::make_dir_in_dir": ("make_dir_in_dir", "raw_directory"),
    "filesystem::directory::Directory::close": ("close_dir", "raw_directory"),
    "Volume::open_root_dir": ("open_root_dir", "raw_volume"),
    "Volume::close": ("close_volume", "raw_volume"),
}


@rule("WP1", ["C01", "C06", "C07", "C08"], floor=20,
      doc="the handle wrappers File / Directory / Volume are pure delegation: each method makes exactly one VolumeManager call, the one of the same meaning (table in the rule), on its own volume_mgr with its own raw handle first and its remaining parameters in order; so everything established for the raw API holds through the wrappers (seek_from_end is not seek_from_start, length is not offset, ...)")
def wp1(F, R):
    for wname, (target, hfield) in WRAPPER_TABLE.items():
        fn = F.fn(wname)
        vm = [(b, t) for b, t in fn.calls() if strip_generics(t.get("resolved") or t.get("callee") or "").startswith("volume_mgr::VolumeManager::")]
        ok = len(vm) == 1
        det = "expected exactly one VolumeManager call, found %s" % [strip_generics(t.get("resolved") or t["callee"]).split("::")[-1] for b, t in vm]
        if ok:
            b, t = vm[0]
            callee = strip_generics(t.get("resolved") or t["callee"]).split("::")[-1]
            args = [strip_refs(fn.term_of_operand(a, b)) for a in t["args"]]
            ok = callee == target
            det = "calls VolumeManager::%s, expected %s" % (callee, target)
            if ok:
                a0, a1 = args[0], args[1]
                lf = lambda x: ([e for e in x[2] if isinstance(e, str) and e != "*"] or [None])[-1] if x[0] == "place" else None
                ok = lf(a0) == "volume_mgr" and strip_refs(a0[1])[:2] == ("arg", 1) and lf(a1) == hfield and strip_refs(a1[1])[:2] == ("arg", 1)
                det = "must be called on self.volume_mgr with self.%s, got (%s, %s)" % (hfield, tstr(a0), tstr(a1))
            if ok:
                rest = args[2:]
                want = list(range(2, 2 + len(rest)))
                got = [x[1] if x[0] == "arg" else None for x in rest]
                ok = got == want
                det = "remaining arguments must be the wrapper's own parameters in order, got %s" % [tstr(x) for x in rest]
        R.require(ok, fn, "delegates:" + wname.split("::")[-1], "%s: %s" % (wname, det), fn.loc(0), okdetail="-> VolumeManager::%s(self.%s, ..)" % (target, hfield))
    # change_dir: open_dir(self.raw, name) then close_dir(self.raw) then self.raw = new
    fn = F.fn("filesystem::directory::Directory::change_dir")
    seq = [strip_generics(t.get("resolved") or t["callee"]).split("::")[-1] for b, t in fn.calls() if strip_generics(t.get("resolved") or t.get("callee") or "").startswith("volume_mgr::VolumeManager::")]
    R.require(seq == ["open_dir", "close_dir"], fn, "change_dir", "change_dir must open the new directory and then close the old one, got %s" % seq, fn.loc(0))
    cl = [b for b, t in fn.calls() if strip_generics(t.get("resolved") or t.get("callee") or "").endswith("VolumeManager::close_dir")]
    st = [(b, i) for b, i, s in fn.stmts() if s["k"] == "Assign" and s["p"]["proj"] and [e[2] for e in s["p"]["proj"] if e[0] == "field"][-1:] == ["raw_directory"]]
    okc = bool(cl) and all(guarded(fn, b, g_try_ok("VolumeManager::open_dir"))[0] for b in cl) and bool(st) and all(guarded(fn, b, g_try_ok("VolumeManager::open_dir"))[0] for b, i in st)
    R.require(okc, fn, "change_dir:only-on-success", "a refused change_dir (name is a file, missing, invalid) must leave the Directory as it was: the old handle is closed / replaced only after open_dir succeeded", fn.loc(cl[0]) if cl else fn.loc(0))
    # the handle that is closed is the one the Directory held *before* the new one is stored: the value handed to close_dir is read
    # from self.raw_directory at a point the store cannot precede (directly, or saved in a local first)
    okold = bool(cl) and bool(st)
    for b, t in fn.calls():
        if b not in cl:
            continue
        a = t["args"][1] if len(t["args"]) > 1 else None
        rd = None
        if a is not None and a.get("k") in ("copy", "move") and not a["p"]["proj"]:
            l_ = a["p"]["l"]
            for _k in range(4):
                d = fn.single_def(l_)
                if d is None or d[0] != "assign" or d[3]["k"] != "Use" or d[3]["op"].get("k") not in ("copy", "move"):
                    break
                p_ = d[3]["op"]["p"]
                if p_["proj"]:
                    if [e[2] for e in p_["proj"] if e[0] == "field"][-1:] == ["raw_directory"]:
                        rd = (d[1], d[2])
                    break
                l_ = p_["l"]
        okold = okold and rd is not None and not any(rd[0] in fn.reach_after(sb) or (rd[0] == sb and rd[1] > si) for sb, si in st)
    R.require(okold, fn, "change_dir:closes-the-old-handle", "change_dir hands close_dir the handle it has just stored (or a value not read from self.raw_directory before the store): the directory that was left stays open and the Directory keeps a closed handle", fn.loc(cl[0]) if cl else fn.loc(0))


@rule("HV3", ["C08", "C01"], floor=3,
      doc="handle lookup is exact: get_volume_by_id / get_dir_by_id / get_file_by_id return Ok(i) only for the enumerate() index i of an entry of the matching table whose stored raw handle equals the argument, and Err(BadHandle) otherwise; no other success value")
def hv3(F, R):
    for name, table, field in (("get_volume_by_id", "open_volumes", "raw_volume"), ("get_dir_by_id", "open_dirs", "raw_directory"), ("get_file_by_id", "open_files", "raw_file")):
        fn = F.fn(VMD + "::" + name)
        # iterator form: self.<table>.iter().position(|x| x.<handle> == id).ok_or(Error::BadHandle)
        ds = fn.defs().get(0, [])
        ct0 = fn._local_term(0, 0)          # (the result of a lowered `..ok_or(e)` is still that call as a term)
        if (len(ds) == 1 and ds[0][0] == "call") or (ct0[0] == "call" and (ct0[1] or "").endswith(("Option::ok_or", "Option::ok_or_else"))):
            ct = fn.call_term(ds[0][2], ds[0][1]) if (len(ds) == 1 and ds[0][0] == "call") else ct0
            if (ct[1] or "").endswith(("Option::ok_or", "Option::ok_or_else")):
                from .rules_guard import closure_equalities, _iter_table
                pos = strip_refs(ct[2][0])
                errv = strip_refs(ct[2][1])
                okp = pos[0] == "call" and (pos[1] or "").endswith("Iterator::position") and _iter_table(fn, pos) == table
                conj = closure_equalities(F, pos[2][1]) if okp else (False, [], [])
                okp = okp and conj[0] and len(conj[1]) == 1 and conj[1][0][0] == (field,) and conj[1][0][1] is not None and conj[1][0][1][:2] == ("arg", 2)
                # position() counts from the start of the same iteration: the index of the matching entry
                it0 = strip_refs(pos[2][0]) if okp else None
                R.require(okp, fn, "exact:" + name, "%s: the lookup must be self.%s.iter().position(|x| x.%s == <the handle asked for>); got %s (%s)" % (name, table, field, tstr(ct)[:100], conj[2]), fn.loc(0))
                isbad = errv[0] == "agg" and errv[2] and errv[2].endswith("Error::BadHandle")
                if not isbad and errv[0] == "agg" and errv[1] == "Closure":
                    from .mir import inline_closure
                    b_ = inline_closure(F, errv, [])
                    isbad = b_ is not None and strip_refs(b_)[0] == "agg" and (strip_refs(b_)[2] or "").endswith("Error::BadHandle")
                R.require(isbad, fn, "badhandle:" + name, "%s must fail with BadHandle only" % name, fn.loc(0))
                continue
        oks = ok_returns(fn)
        ok = len(oks) == 1
        det = "expected one Ok return, found %d" % len(oks)
        if ok:
            b, i, v = oks[0]
            # the value is the .0 of the enumerate item, the iterator iterates self.<table>
            it = [q for q in subterms(v) if q[0] == "call" and q[1] and q[1].endswith("Iterator::next")]
            ok = v[0] == "place" and tuple(v[2]) == ("as:Some", "0", "0") and len(it) == 1
            det = "Ok value must be the enumerate() index of the matching entry, got %s" % tstr(v)
            if ok:
                itv = strip_refs(it[0][2][0])
                defs = var_def_terms(fn, itv[1]) if itv[0] == "var" else [itv]
                ok = len(defs) == 1 and "enumerate(iter(" in tstr(defs[0]) and table in tstr(defs[0]) and has_sub(defs[0], lambda q: q[0] == "place" and q[1][:2] == ("arg", 1) and last_field(q) == table)
                det = "the lookup must enumerate self.%s from its start, iterates %s" % (table, [tstr(d) for d in defs])
            if ok:
                def eqp(g):
                    if not (g.kind == "bool" and g.truth and g.term[0] == "cmp" and g.term[1] == "Eq"):
                        return False
                    a, z = strip_refs(g.term[2]), strip_refs(g.term[3])
                    for x, y in ((a, z), (z, a)):
                        if y[:2] == ("arg", 2) and x[0] == "place" and last_field(x) == field and has_sub(x, lambda q: q == it[0]):
                            return True
                    return False
                ok = guarded(fn, b, eqp)[0]
                det = "Ok(i) must be guarded by entry.%s == the handle asked for" % field
        R.require(ok, fn, "exact:" + name, "%s: %s" % (name, det), fn.loc(0))
        errs = err_returns(fn)
        R.require(len(errs) == 1 and errs[0][2] == "BadHandle", fn, "badhandle:" + name, "%s must fail with BadHandle only" % name, fn.loc(0))


ATTR_BITS = {"READ_ONLY": 0x01, "HIDDEN": 0x02, "SYSTEM": 0x04, "VOLUME": 0x08, "DIRECTORY": 0x10, "ARCHIVE": 0x20, "LFN": 0x0F}
ATTR_PREDS = {"is_read_only": "READ_ONLY", "is_hidden": "HIDDEN", "is_system": "SYSTEM", "is_volume": "VOLUME", "is_directory": "DIRECTORY", "is_archive": "ARCHIVE", "is_lfn": "LFN"}


@rule("AT1", ["C06", "C07", "C18", "C02"], floor=15,
      doc="attribute byte per the FAT specification: READ_ONLY 0x01, HIDDEN 0x02, SYSTEM 0x04, VOLUME 0x08, DIRECTORY 0x10, ARCHIVE 0x20, LFN 0x0F; each is_x() is (bits & X) == X for its own X; create_from_fat is the identity on the byte; set_archive only ever ORs 0x20 / 0 into the byte")
def at1(F, R):
    def ret(fn):
        r = [fn.term_of_rvalue(d[3], d[1]) if d[0] == "assign" else fn.call_term(d[2], d[1]) for d in fn.defs().get(0, [])]
        return r[0] if len(r) == 1 else None
    for nm, v in ATTR_BITS.items():
        got = F.const("filesystem::attributes::Attributes::" + nm)
        R.require(got == v, None, "const:" + nm, "Attributes::%s is %#x, the FAT specification says %#x" % (nm, got, v), okdetail="%s = %#x" % (nm, v))
    # the predicates and set_archive are functions of one byte: decided by evaluating them for all 256 values (through
    # whatever private helper they are written with)
    from .absint import Interp, State, Undecided
    from .absval import const, agg as _agg, int_const, is_int, is_agg
    adt = "filesystem::attributes::Attributes"

    def run1(fn, byte, extra=()):
        I = Interp(F, mode="bv", max_paths=64)
        st = State()
        val = _agg("struct", adt, 0, [const(byte, 8)])
        cell = I.heap_alloc(st, val)
        byref = fn.locals[1]["ty"].lstrip().startswith("&")
        outs = I.run(fn, [cell if byref else val] + list(extra), st, 0)
        return I, st, cell, outs
    for pn, cn in ATTR_PREDS.items():
        fn = F.fn("filesystem::attributes::Attributes::" + pn)
        m = ATTR_BITS[cn]
        wrong = None
        try:
            for byte in range(256):
                I, st, cell, outs = run1(fn, byte)
                got = {int_const(rv) if is_int(rv) else None for rv, _s in outs}
                if got != {1 if (byte & m) == m else 0}:
                    wrong = (byte, sorted(got, key=repr))
                    break
        except Undecided as e:
            wrong = ("?", str(e))
        R.require(wrong is None, fn, "pred:" + pn, "%s must be (bits & %s) == %s with %s = %#x; for the attribute byte %s it answers %s" % (pn, cn, cn, cn, m, hex(wrong[0]) if wrong and wrong[0] != "?" else "?", wrong[1] if wrong else None), fn.loc(0),
                  okdetail="%s == ((bits & %#x) == %#x) for all 256 attribute bytes" % (pn, m, m))
    fn = F.fn("filesystem::attributes::Attributes::create_from_fat")
    t = ret(fn)
    R.require(t is not None and t[0] == "agg" and len(t[3]) == 1 and t[3][0][:2] == ("arg", 1), fn, "create_from_fat", "create_from_fat must wrap the byte unchanged, got %s" % (tstr(t) if t else None), fn.loc(0))
    fn = F.fn("filesystem::attributes::Attributes::set_archive")
    wrong = None
    try:
        for byte in range(256):
            for flag in (0, 1):
                I, st, cell, outs = run1(fn, byte, [const(flag, 1)])
                res = set()
                for rv, s2 in outs:
                    v = I.read_loc(s2, (cell[1], cell[2], cell[3], None))
                    res.add(int_const(v[4][0]) if is_agg(v) and is_int(v[4][0]) else None)
                if res != {byte | (0x20 if flag else 0)}:
                    wrong = (byte, flag, sorted(res, key=repr))
                    break
            if wrong:
                break
    except Undecided as e:
        wrong = ("?", "?", str(e))
    R.require(wrong is None, fn, "set_archive", "set_archive must OR the ARCHIVE bit (0x20) into the byte and touch nothing else; set_archive(%s) on byte %s gives %s" % (wrong[1] if wrong else None, hex(wrong[0]) if wrong and wrong[0] != "?" else "?", wrong[2] if wrong else None), fn.loc(0))


@rule("MT6", ["C15"], floor=5,
      doc="BPB field selection per the FAT specification: fat_size() is BPB_FATSz16 when that is non-zero and BPB_FATSz32 otherwise; total_blocks() is BPB_TotSec16 when non-zero and BPB_TotSec32 otherwise (the 32-bit field of a FAT16 volume with a 16-bit count is not meaningful); fs_info_block() is Some(BPB_FSInfo) exactly for FAT32; total_clusters() is the count computed at parse time")
def mt6(F, R):
    from .poly import nkey
    # decided on a boot sector whose 16-bit field is set to concrete values and whose other bytes are symbolic: the result is
    # the 16-bit value when that is non-zero and (bit for bit) the little-endian 32-bit field otherwise - whichever private
    # helpers / closures the selection is written with
    from .absint import Interp, State, Undecided
    from .absval import const, bits_of, is_int, int_const
    from .rules_codec import data_struct, le_bits, fat_spec
    S = fat_spec()["bpb"]
    for name, f16, f32 in (("fat_size", "fat_size16", "fat_size32"), ("total_blocks", "total_blocks16", "total_blocks32")):
        fn = F.fn("fat::bpb::Bpb::" + name)
        o16, o32 = S[f16][0], S[f32][0]
        problems = []
        try:
            for v16 in (0, 1, 5, 0x00FF, 0x0100, 0x8000, 0xFFFF):
                I = Interp(F, mode="bv", max_paths=64)
                st = State()
                self_p, bytes_ = data_struct(I, st, F, "fat::bpb::Bpb", 512)
                # overwrite the two bytes of the 16-bit field in the heap array
                arrv = I.read_loc(st, (self_p[1], self_p[2], self_p[3], None))
                dptr = arrv[4][[f["name"] for f in F.adts["fat::bpb::Bpb"]["variants"][0]["fields"]].index("data")]
                cells = list(I.read_loc(st, (dptr[1], dptr[2], dptr[3], None))[1])
                cells[o16], cells[o16 + 1] = const(v16 & 0xFF, 8), const(v16 >> 8, 8)
                I.write_loc(st, (dptr[1], dptr[2], dptr[3], None), ("arr", tuple(cells)))
                outs = I.run(fn, [self_p], st, 0)
                for rv, s2 in outs:
                    if not is_int(rv):
                        problems.append("%s = %#x: result is not an integer" % (f16, v16))
                        continue
                    got = bits_of(rv)
                    want = tuple((v16 >> k) & 1 for k in range(32)) if v16 else le_bits(cells, o32, 4)
                    if tuple(got[:32]) != tuple(want[:32]):
                        problems.append("%s = %#x: returns %s" % (f16, v16, "something other than the 16-bit value" if v16 else "something other than %s" % f32))
                if not outs:
                    problems.append("%s = %#x: no result" % (f16, v16))
        except Undecided as e:
            problems.append("cannot evaluate: %s" % e)
        R.require(not problems, fn, "select:" + name, "%s() must be %s() if that is non-zero and %s() otherwise; %s" % (name, f16, f32, "; ".join(problems[:3])), fn.loc(0),
                  okdetail="%s == (%s != 0 ? %s : %s) for 7 values of the 16-bit field, other bytes symbolic" % (name, f16, f16, f32))
    fn = F.fn("fat::bpb::Bpb::fs_info_block")
    alts = []
    for d in fn.defs().get(0, []):
        t = fn.term_of_rvalue(d[3], d[1]) if d[0] == "assign" else fn.call_term(d[2], d[1])
        alts.append((t, d[1]))
    somes = [(t, b) for t, b in alts if t[0] == "agg" and t[2] and t[2].endswith("Option::Some")]
    nones = [(t, b) for t, b in alts if t[0] == "agg" and t[2] and t[2].endswith("Option::None")]
    ok = len(somes) == 1 and len(nones) == 1 and len(alts) == 2
    if ok:
        k = nkey(somes[0][0][3][0])
        ok = isinstance(k, tuple) and k[0] == "call" and k[1].endswith("Bpb::fs_info")
        # decided per value of self.fat_type (match, if ==, matches! alike)
        from .ev import specialise_enum
        is_ft = lambda t_: strip_refs(t_)[0] == "place" and last_field(strip_refs(t_)) == "fat_type"
        vs_ = F.variants("fat::FatType")
        r32 = fn.reach([0], cut_edges=specialise_enum(fn, is_ft, vs_, "Fat32"))
        r16 = fn.reach([0], cut_edges=specialise_enum(fn, is_ft, vs_, "Fat16"))
        ok = ok and somes[0][1] in r32 and nones[0][1] not in r32 and nones[0][1] in r16 and somes[0][1] not in r16
    R.require(ok, fn, "fs_info_block", "fs_info_block() must be Some(BlockCount(fs_info())) for FAT32 and None for FAT16; got %s" % [tstr(t) for t, _ in alts], fn.loc(0))
    fn = F.fn("fat::bpb::Bpb::total_clusters")
    rets = [fn.term_of_rvalue(d[3], d[1]) if d[0] == "assign" else fn.call_term(d[2], d[1]) for d in fn.defs().get(0, [])]
    R.require(len(rets) == 1 and rets[0][0] == "place" and last_field(rets[0]) == "cluster_count", fn, "total_clusters", "total_clusters() must return the parsed cluster_count", fn.loc(0))
    # the three regions used by the cluster count: (total - (reserved + fats*fat_size + root_dir_blocks)) / blocks_per_cluster is established by MT1/MT2
    R.ok(None, "note", "cluster-count formula itself: rules MT1 / MT2")


def _alts(fn, t):
    from .rules_walk import alternatives
    return alternatives(fn, t)


@rule("TS3", ["C18", "C02"], floor=8,
      doc="Timestamp::from_calendar stores (year - 1970) as u8, month - 1, day - 1, hours, minutes, seconds and succeeds only under year in 1970..=2225, month in 1..=12, day in 1..=31, hours <= 23, minutes <= 59, seconds <= 59 (so the narrowing cast and the decrements are exact and the FAT encoder's `+ 1` cannot overflow)")
def ts3(F, R):
    from .poly import peq, SUB, C
    fn = F.fn("filesystem::timestamp::Timestamp::from_calendar")
    oks = ok_returns(fn)
    R.require(len(oks) == 1, fn, "single-ok", "expected one Ok(Timestamp{..}) return", fn.loc(0))
    for (b, i, v) in oks:
        ok = v[0] == "agg" and len(v[3]) == 6
        if ok:
            y, mo, d, h, mi, s_ = v[3]
            ok = y[0] == "cast" and y[1] == "u8" and peq(y[2], SUB(("arg", 1, None), C(1970))) and peq(mo, SUB(("arg", 2, None), C(1))) and peq(d, SUB(("arg", 3, None), C(1)))
            ok = ok and h[:2] == ("arg", 4) and mi[:2] == ("arg", 5) and s_[:2] == ("arg", 6)
        R.require(ok, fn, "fields", "from_calendar must store (year-1970) as u8, month-1, day-1, hours, minutes, seconds; got %s" % tstr(v), fn.loc(b, i))

        for nm, idx, width, lo, hi in (("year", 1, 16, 1970, 2225), ("month", 2, 8, 1, 12), ("day", 3, 8, 1, 31), ("hours", 4, 8, 0, 23), ("minutes", 5, 8, 0, 59), ("seconds", 6, 8, 0, 59)):
            got, used = accepted_values(fn, b, lambda a, idx=idx: a[:2] == ("arg", idx), width)
            want = set(range(lo, hi + 1))
            if got != want:
                extra, missing = sorted(got - want), sorted(want - got)
                R.bad(fn, "range:" + nm, "Ok must require exactly %s in %d..=%d; %s" % (nm, lo, hi, ("also accepts %s%s" % (extra[:4], ".." if len(extra) > 4 else "") if extra else "rejects %s" % missing[:4])), fn.loc(b, i))
            else:
                R.ok(fn, "range:" + nm, "Ok return lies behind %d test(s) that together admit exactly %d..=%d" % (used, lo, hi), fn.loc(b, i))


IDX_SOURCE = {"get_volume_by_id": "open_volumes", "get_dir_by_id": "open_dirs", "get_file_by_id": "open_files"}


def _index_sources(fn, t, depth=0):
    """the get_*_by_id call(s) that *produce* the index value t (not calls nested in their arguments)"""
    t = strip_refs(t)
    if depth > 12:
        return set()
    if t[0] == "place":
        return _index_sources(fn, t[1], depth + 1)
    if t[0] == "cast":
        return _index_sources(fn, t[2], depth + 1)
    if t[0] == "call" and t[1]:
        nm = t[1].split("::")[-1]
        if nm in IDX_SOURCE:
            return {nm}
        if nm in ("branch", "unwrap", "expect", "map_err", "unwrap_or", "clone", "from", "into") and t[2]:
            return _index_sources(fn, t[2][0], depth + 1)
        return set()
    if t[0] == "var":
        out = set()
        for d in var_def_terms(fn, t[1]):
            out |= _index_sources(fn, d, depth + 1)
        return out
    return set()


def _stored_index(fn, t, depth=0):
    """the table-element field an index value was read from, if any"""
    from .fsmodel import table_of_term, TABLES
    t = strip_refs(t)
    if depth > 8:
        return None
    if t[0] == "cast":
        return _stored_index(fn, t[2], depth + 1)
    if t[0] == "place":
        names = [e for e in t[2] if isinstance(e, str)]
        if any(e in TABLES for e in names[:-1]) or (names and table_of_term(t[1]) is not None):
            return t
        return None
    if t[0] == "var" and isinstance(t[1], int):
        for d in var_def_terms(fn, t[1]):
            r = _stored_index(fn, d, depth + 1)
            if r is not None:
                return r
    return None


@rule("IX1", ["C08", "C01", "C07"], floor=100,
      doc="index/table agreement: an index obtained from get_volume_by_id only ever subscripts open_volumes, one from get_dir_by_id only open_dirs, one from get_file_by_id only open_files (in every function of volume_mgr, in reads, stores and call arguments) - a slot number of one table is meaningless in another")
def ix1(F, R):
    from .fsmodel import table_of_term, TABLES
    n = 0
    for fn in F.fns:
        if not fn.npath.startswith("volume_mgr::") or fn.npath.startswith("volume_mgr::tests"):
            continue
        seen = set()

        def visit(term, b):
            nonlocal n
            for q in subterms(term):
                if q[0] != "place":
                    continue
                proj = q[2]
                for k, e in enumerate(proj):
                    if not (isinstance(e, tuple) and e[0] == "idx"):
                        continue
                    tab = None
                    for x in reversed(proj[:k]):
                        if isinstance(x, str) and x in TABLES:
                            tab = x
                            break
                    if tab is None:
                        tab = table_of_term(q[1])
                    if tab is None:
                        continue
                    srcs = _index_sources(fn, e[1])
                    if not srcs:
                        # an index that was *stored* (read back out of a table element) instead of looked up: swap_remove
                        # moves elements, so a remembered position names another element after any close
                        st = _stored_index(fn, e[1])
                        if st is not None and ("stored", tab, b) not in seen:
                            seen.add(("stored", tab, b))
                            R.bad(fn, "stored-index:%s" % tab, "%s is subscripted with a position read from %s: positions change whenever an element is removed (swap_remove), only a handle lookup gives the current one" % (tab, tstr(st)), fn.loc(b))
                        continue
                    key = (tab, tuple(sorted(srcs)), b)
                    if key in seen:
                        continue
                    seen.add(key)
                    n += 1
                    want = {IDX_SOURCE[s] for s in srcs}
                    R.require(want == {tab}, fn, "index:%s" % tab, "%s is subscripted with an index obtained from %s (a slot of %s)" % (tab, "/".join(sorted(srcs)), "/".join(sorted(want))), fn.loc(b),
                              okdetail="%s[%s(..)]" % (tab, "/".join(sorted(srcs))))

        for b, i, s in fn.stmts():
            if s["k"] == "Assign":
                visit(fn.term_of_rvalue(s["rv"], b), b)
                if s["p"]["proj"]:
                    visit(fn.term_of_place(s["p"]), b)
        for b, t in fn.calls():
            for a in t["args"]:
                visit(fn.term_of_operand(a, b), b)
        for b in fn.live_blocks():
            t = fn.term(b)
            if t["k"] == "SwitchInt":
                visit(fn.term_of_operand(t["discr"], b), b)
    R.require(n >= 100, None, "sites", "expected >= 100 table subscripts with a traced index, found %d" % n)


@rule("FT12", ["C16", "C03"], floor=4,
      doc="every FAT update is mirrored whenever the volume has a second FAT: in update_fat the choice between write_back_with_duplicate(dup) and the plain write_back() is a match on one local that is None initially and is set to Some(..) on every path on which self.second_fat_start is Some - it depends on the volume's geometry only, never on a parameter or on which entry is written")
def ft12(F, R):
    fn = F.fn(FATVOL + "::update_fat")
    wbd = [b for b, t in fn.calls() if call_matches(t, ("BlockCache::write_back_with_duplicate",))]
    wb = [b for b, t in fn.calls() if call_matches(t, ("BlockCache::write_back",)) and not call_matches(t, ("BlockCache::write_back_with_duplicate",))]
    R.require(len(wbd) >= 1, fn, "sites", "no mirrored write-back in update_fat", fn.loc(0))
    if not wbd:
        return
    # form A: the write-back is chosen by matching self.second_fat_start itself
    is_geo = lambda var: (lambda g: g.kind == "variant" and g.variant == var and g.term[0] == "place" and last_field(g.term) == "second_fat_start" and strip_refs(g.term[1])[:2] == ("arg", 1))
    if all(guarded(fn, b, is_geo("Some"))[0] for b in wbd) and all(guarded(fn, b, is_geo("None"))[0] for b in wb):
        R.ok(fn, "decider", "write-back variant chosen by matching self.second_fat_start directly")
        for k in ("plain-only-if-none", "decider-defs", "some-implies-dup", "geometry-tests"):
            R.ok(fn, k, "(implied by the direct match)")
        return
    # form A': matched on self.second_fat_start.map(|s| ..) (possibly through a local with that single definition)
    def geo_map(x):
        x = strip_refs(x)
        if x[0] == "var":
            ds_ = var_def_terms(fn, x[1])
            x = strip_refs(ds_[0]) if len(ds_) == 1 else x
        return x[0] == "call" and (x[1] or "").endswith("Option::map") and (lambda y: y[0] == "place" and last_field(y) == "second_fat_start" and strip_refs(y[1])[:2] == ("arg", 1))(strip_refs(x[2][0]))
    is_map = lambda var: (lambda g: g.kind == "variant" and g.variant == var and geo_map(g.term))
    if all(guarded(fn, b, is_map("Some"))[0] for b in wbd) and all(guarded(fn, b, is_map("None"))[0] for b in wb):
        R.ok(fn, "decider", "write-back variant chosen by matching self.second_fat_start.map(..): Some exactly when the volume has a second FAT")
        for k in ("plain-only-if-none", "decider-defs", "some-implies-dup", "geometry-tests"):
            R.ok(fn, k, "(implied by the match on the mapped geometry)")
        return
    # form B: the deciding local
    R.require(len(wbd) == 1 and len(wb) <= 1, fn, "sites-b", "expected one mirrored write-back (and at most one plain one) in update_fat, found %d / %d" % (len(wbd), len(wb)), fn.loc(0))
    if len(wbd) != 1:
        return
    cands = set()
    for (gb, gi, g) in all_guards(fn):
        if g.kind == "variant" and g.variant == "Some" and strip_refs(g.term)[0] == "var" and fn.unreachable_without(wbd[0], [(gb, gi)]):
            cands.add(strip_refs(g.term)[1])
    R.require(len(cands) == 1, fn, "decider", "the mirrored write-back must be selected by `if let Some(dup) = <local>` directly (found deciding locals %s): a filtered / recomputed condition makes mirroring depend on something other than the volume's geometry" % sorted(cands), fn.loc(wbd[0]))
    if len(cands) != 1:
        return
    v = cands.pop()
    for b in wb:
        g, _ = guarded(fn, b, lambda g: g.kind == "variant" and g.variant == "None" and strip_refs(g.term)[:2] == ("var", v))
        R.require(g, fn, "plain-only-if-none", "the unmirrored write_back() is reachable although the duplicate location is known", fn.loc(b))
    defs = fn.defs().get(v, [])
    dts = [(d, fn.term_of_rvalue(d[3], d[1]) if d[0] == "assign" else fn.call_term(d[2], d[1])) for d in defs if d[0] in ("assign", "call")]
    somes = [d for d, t in dts if t[0] == "agg" and t[2] and t[2].endswith("Option::Some")]
    # self.second_fat_start.map(|s| ..) is Some exactly when the geometry has a second FAT: a Some-definition that needs no test
    geo_term = lambda x: (lambda y: y[0] == "place" and last_field(y) == "second_fat_start" and strip_refs(y[1])[:2] == ("arg", 1))(strip_refs(x))
    maps = [d for d, t in dts if t[0] == "call" and t[1] and t[1].endswith("Option::map") and geo_term(t[2][0])]
    others = [tstr(t) for d, t in dts if d not in maps and not (t[0] == "agg" and t[2] and (t[2].endswith("Option::Some") or t[2].endswith("Option::None")))]
    R.require(not others and len(somes) + len(maps) >= 1, fn, "decider-defs", "the duplicate location must be None or Some(location) only (found %s; %d Some-definitions)" % (others, len(somes)), fn.loc(0))
    # whenever second_fat_start is Some the local becomes Some before the write-back
    n = 0
    for (gb, gi, g) in all_guards(fn):
        if g.kind == "variant" and g.variant == "Some" and g.term[0] == "place" and last_field(g.term) == "second_fat_start" and strip_refs(g.term[1])[:2] == ("arg", 1):
            n += 1
            tgt = fn.succ(gb)[gi][0]
            free = fn.reach([tgt], cut_blocks=[d[1] for d in somes + maps])
            R.require(not any(b in free for b in wbd + wb), fn, "some-implies-dup", "a path on which second_fat_start is Some reaches the write-back without recording the duplicate location", fn.loc(gb))
    n += len(maps)
    # one test / map per FAT type's path is what is needed: shared code before the per-type arms serves both
    from .rules_fs import fat_slices
    sl = fat_slices(fn)
    geo_blocks = [d[1] for d in maps] + [gb for (gb, gi, g) in all_guards(fn) if g.kind == "variant" and g.variant == "Some" and g.term[0] == "place" and last_field(g.term) == "second_fat_start" and strip_refs(g.term[1])[:2] == ("arg", 1)]
    if all(any(b in sl[T] for b in geo_blocks) for T in ("Fat16", "Fat32")):
        n = max(n, 2)
    R.require(n >= 2, fn, "geometry-tests", "expected the second_fat_start test in both FAT arms, found %d" % n, fn.loc(0))


@rule("LF8", ["C17"], floor=6,
      doc="carry discipline of LfnBuffer::push (fragments arrive last-first): the held-back unit is taken (Option::take) and decoded *after* this fragment's units (chain(fragment, carry)); an unpaired surrogate is held back only as the first item decoded from the fragment - the flag deciding that is true before the loop and set to false on every trip round the decode loop, whatever the item was - and is otherwise replaced by U+FFFD; decoded chars are emitted back to front")
def lf8(F, R):
    fn = F.fn("filesystem::filename::LfnBuffer::push")
    dec = [(b, fn.call_term(t, b)) for b, t in fn.calls() if (callee_of(t) or "").endswith("decode_utf16")]
    R.require(len(dec) == 1, fn, "decode-site", "expected one decode_utf16 call", fn.loc(0))
    if len(dec) != 1:
        return
    src = strip_refs(dec[0][1][2][0])
    ok = src[0] == "call" and src[1] and src[1].endswith("::chain") and len(src[2]) == 2
    if ok:
        first, second = src[2]
        ok = has_sub(first, lambda q: q[:2] == ("arg", 2)) and not has_sub(first, lambda q: q[0] == "call" and q[1] and q[1].endswith("Option::take"))
        ok = ok and has_sub(second, lambda q: q[0] == "call" and q[1] and q[1].endswith("Option::take") and has_sub(q, lambda z: z[0] == "place" and last_field(z) == "unpaired_surrogate"))
    R.require(ok, fn, "carry-after-fragment", "decode_utf16 must run over chain(this fragment's units, the unit carried over from the previous call taken with Option::take); got %s" % tstr(src)[:200], fn.loc(dec[0][0]))
    # once the held-back unit has been taken out of self it must reach the decoder: no way out of push in between
    takes = [b for b, t in fn.calls() if (callee_of(t) or "").endswith("Option::take") and "unpaired_surrogate" in tstr(fn.call_term(t, b))]
    lost = [b for b in takes if any(r in fn.reach_after(b, cut_blocks=[dec[0][0]]) for r in fn.return_blocks())]
    R.require(bool(takes) and not lost, fn, "carry-not-dropped", "push can return after taking the held-back surrogate half out of the buffer without decoding it (an early return for an empty fragment?): the half of a pair carried across an empty fragment is lost", fn.loc(lost[0]) if lost else fn.loc(0))
    # a fragment ends at its first 0x0000 unit and nowhere else (0xFFFF is an ordinary code unit before the terminator)
    pos = [(b, t) for b, t in fn.calls() if (callee_of(t) or "").endswith("Iterator::position")]
    okt = False
    if len(pos) == 1:
        cl = strip_refs(fn.term_of_operand(pos[0][1]["args"][1], pos[0][0]))
        if cl[0] == "agg" and cl[1] == "Closure":
            c = F.closure(cl[2])
            rets = [c.term_of_rvalue(d[3], d[1]) if d[0] == "assign" else c.call_term(d[2], d[1]) for d in c.defs().get(0, [])]
            def _unit_is_zero(r_):
                if not (r_[0] == "bin" and r_[1] == "Eq"):
                    return False
                a_, b_ = strip_refs(r_[2]), strip_refs(r_[3])
                return (b_[:2] == ("c", 0) and a_[0] in ("place", "arg")) or (a_[:2] == ("c", 0) and b_[0] in ("place", "arg"))
            okt = len(rets) == 1 and _unit_is_zero(rets[0]) and not [1 for bb in c.live_blocks() if c.term(bb)["k"] == "SwitchInt"]
    R.require(okt, fn, "terminator", "the fragment must be cut at the first unit equal to 0x0000 and at nothing else", fn.loc(pos[0][0]) if pos else fn.loc(0))
    if len(pos) == 1:
        # ... searched in all 13 units (a 12-character tail has its terminator in the last one)
        src_ = strip_refs(fn.term_of_operand(pos[0][1]["args"][0], pos[0][0]))
        for _k in range(6):
            if src_[0] == "var":
                ds_ = var_def_terms(fn, src_[1])
                src_ = strip_refs(ds_[0]) if len(ds_) == 1 else src_
            if src_[0] == "call" and src_[1] and src_[1].split("::")[-1] in ("iter", "into_iter", "deref", "copied", "cloned", "as_slice") and src_[2]:
                src_ = strip_refs(src_[2][0])
            elif src_[0] == "place" and all(e == "*" for e in src_[2]):
                src_ = strip_refs(src_[1])
            else:
                break
        # ... in every fragment: no way through push() around the search (a terminator in a fragment that is not the name's last
        # would otherwise be decoded, with the padding behind it, as characters of the name)
        around = fn.reach([0], cut_blocks=[pos[0][0]])
        R.require(not any(fn.term(rb)["k"] == "Return" for rb in around), fn, "terminator-every-fragment", "push() can run to its end without searching the fragment for the 0x0000 terminator (the search is skipped under some condition)", fn.loc(pos[0][0]))
        R.require(src_[:2] == ("arg", 2), fn, "terminator-whole-fragment", "the 0x0000 terminator is searched in %s, not in the whole 13-unit fragment: a terminator in a slot left out is decoded as a U+0000 character of the name" % tstr(src_)[:80], fn.loc(pos[0][0]))
    # the decode loop
    loops = [(h, body, backs) for (h, body, backs) in fn.loops() if any(fn.term(b)["k"] == "Call" and (callee_of(fn.term(b)) or "").endswith("Iterator::next") and "DecodeUtf16" in fn.term(b).get("callee_full", "") for b in body)]
    R.require(len(loops) == 1, fn, "decode-loop", "expected one loop over the decoder", fn.loc(0))
    if len(loops) != 1:
        return
    h, body, backs = loops[0]
    saves = [(b, i) for b, i, s in fn.stmts() if b in body and s["k"] == "Assign" and s["p"]["proj"] and s["p"]["proj"][-1][0] == "field" and s["p"]["proj"][-1][2] == "unpaired_surrogate"]
    R.require(len(saves) == 1, fn, "save-site", "expected one place where a surrogate is held back", fn.loc(h))
    flag = None
    for (b, i) in saves:
        for (gb, gi, g) in all_guards(fn):
            if g.kind == "bool" and g.truth is True and strip_refs(g.term)[0] == "var" and fn.unreachable_without(b, [(gb, gi)]) and fn.locals[strip_refs(g.term)[1]]["ty"] == "bool":
                flag = strip_refs(g.term)[1]
        R.require(flag is not None, fn, "save-only-first", "a surrogate is held back without testing that it is the first item of the fragment", fn.loc(b, i))
        isErr, _ = guarded(fn, b, lambda g: g.kind == "variant" and g.variant == "Err")
        R.require(isErr, fn, "save-only-unpaired", "the carry is stored for an item that is not an unpaired surrogate", fn.loc(b, i))
    if flag is None:
        return
    defs = fn.defs().get(flag, [])
    vals = [(d[1], fn.term_of_rvalue(d[3], d[1])) for d in defs if d[0] == "assign"]
    init_true = [b for b, v in vals if v[:2] == ("c", 1) and b not in body]
    clears = [b for b, v in vals if v[:2] == ("c", 0) and b in body]
    other = [tstr(v) for b, v in vals if v[:2] not in (("c", 1), ("c", 0))] + [d for d in defs if d[0] != "assign"]
    R.require(len(init_true) == 1 and clears and not other and not [b for b, v in vals if v[:2] == ("c", 1) and b in body], fn, "flag-defs", "the first-item flag must be true before the loop and only ever cleared inside it (defs: %s)" % [(b, tstr(v)) for b, v in vals], fn.loc(h))
    # every trip round the loop clears the flag
    inside = fn.reach([h], cut_blocks=clears + [x for x in fn.live_blocks() if x not in body])
    again = [bs for bs in backs if bs in inside]
    R.require(not again, fn, "flag-cleared-every-item", "the decode loop can go round without clearing the first-item flag (e.g. when the item was an unpaired surrogate): a second unpaired surrogate then overwrites the held one instead of becoming U+FFFD", fn.loc(h))
    # otherwise U+FFFD
    repl = [b for b, t in fn.calls() if b in body and (callee_of(t) or "").endswith("::push") and any(fn.term_of_operand(a, b)[:2] == ("c", 0xFFFD) for a in t["args"])]
    okr = len(repl) == 1 and guarded(fn, repl[0], lambda g: g.kind == "bool" and g.truth is False and strip_refs(g.term)[:2] == ("var", flag))[0]
    R.require(okr, fn, "else-replacement", "an unpaired surrogate that is not the first item must be replaced by U+FFFD", fn.loc(h))
    # emission order
    revs = [tstr(fn.call_term(t, b)) for b, t in fn.calls() if (callee_of(t) or "").endswith("Iterator::rev")]
    # the bytes of one character either go in back to front one by one, or as one block into the window below `free`
    from .rules_lfn import window_store
    win = window_store(fn)
    chars_rev = any("char_vec" in r or "deref" in r for r in revs)
    bytewise = len(revs) == 2 and chars_rev and any("bytes(" in r for r in revs)
    blockwise = win is not None and not win["problems"] and len(revs) == 1 and chars_rev
    R.require(bytewise or blockwise, fn, "back-to-front", "chars and their UTF-8 bytes must both be emitted back to front (the buffer is filled from its end); rev() sites: %s" % [r[:60] for r in revs], fn.loc(0))


@rule("CD5", ["C18", "C06"], floor=4,
      doc="printing an 8.3 name: Display walks all 11 bytes in order and prints byte c (as the ISO-8859-1 character `c as char`) exactly when c != 0x20 - no other byte is ever dropped - preceded by '.' exactly when its index is 8; so a printed name parses back to the same 11 bytes (the parser half is CD3)")
def cd5(F, R):
    fns = [f for f in F.fns if f.npath.startswith("<filesystem::filename::ShortFileName as core::fmt::Display>::fmt") and f.kind != "Closure"]
    R.require(len(fns) == 1, None, "anchor", "Display impl of ShortFileName not found")
    if len(fns) != 1:
        return
    fn = fns[0]
    loops = [(h, body, backs) for (h, body, backs) in fn.loops() if any(fn.term(b)["k"] == "Call" and (callee_of(fn.term(b)) or "").endswith("Iterator::next") and "Enumerate" in fn.term(b).get("callee_full", "") for b in body)]
    R.require(len(loops) == 1, fn, "byte-loop", "expected one enumerate() loop over the name bytes", fn.loc(0))
    if len(loops) != 1:
        return
    h, body, backs = loops[0]
    nxt = [b for b in body if fn.term(b)["k"] == "Call" and (callee_of(fn.term(b)) or "").endswith("Iterator::next")][0]
    itd = var_def_terms(fn, strip_refs(fn.term_of_operand(fn.term(nxt)["args"][0], nxt))[1])
    R.require(len(itd) == 1 and "enumerate(iter(" in tstr(itd[0]) and has_sub(itd[0], lambda q: q[0] == "place" and last_field(q) == "contents" and strip_refs(q[1])[:2] == ("arg", 1)), fn, "all-bytes", "the loop must enumerate self.contents from the start, iterates %s" % [tstr(x) for x in itd], fn.loc(h))
    item = lambda k: (lambda q: q[0] == "place" and tuple(q[2][:3]) == ("as:Some", "0", k) and q[1][0] == "call" and q[1][3] == nxt)
    writes = [(b, fn.call_term(fn.term(b), b)) for b in body if fn.term(b)["k"] == "Call" and (callee_of(fn.term(b)) or "").split("::")[-1] in ("write_fmt", "write_str", "write_char")]
    def as_char(q):
        """`c as char` or char::from(c): the byte as the ISO-8859-1 character"""
        if q[0] == "cast" and q[1] == "char":
            return has_sub(q[2], item("1"))
        if q[0] == "call" and q[1] and q[1].endswith("From::from") and isinstance(q[3], int) and len(q[2]) == 1:
            return "<char as " in fn.term(q[3]).get("callee_full", "") and has_sub(q[2][0], item("1"))
        return False
    chars = [(b, t) for b, t in writes if has_sub(t, as_char)]
    dots = [(b, t) for b, t in writes if '"."' in tstr(t)]
    R.require(len(chars) == 1 and len(dots) == 1 and len(writes) == 2, fn, "writes", "expected exactly two output sites in the byte loop (the '.' and the byte as a char), found %d" % len(writes), fn.loc(h))
    from .ev import cmp_forms

    def eq_form(g, k, const, truth):
        """the edge is taken exactly when (item.k == const) has the given truth value, however the comparison is written"""
        return any(op == "Eq" and t == truth and has_sub(a, item(k)) and strip_refs(b_)[:2] == ("c", const) for (op, a, b_, t) in cmp_forms(g))
    not_space = lambda g: eq_form(g, "1", 0x20, False)
    is_space = lambda g: eq_form(g, "1", 0x20, True)
    for b, t in chars:
        # printed iff != ' ' : guarded by the not-space edge, and from the loop body entry no *other* test lies between
        g = guarded(fn, b, not_space)[0]
        others = [(gb, gi, gg) for (gb, gi, gg) in all_guards(fn) if gb in body and fn.unreachable_without(b, [(gb, gi)]) and not not_space(gg) and not (gg.kind == "variant" and gg.variant in ("Some", "Continue"))]
        R.require(g and not others, fn, "printed-iff-not-space", "a name byte must be printed exactly when it is not 0x20; extra / different conditions: %s" % [repr(x[2])[:80] for x in others], fn.loc(b))
    for b, t in dots:
        g1 = guarded(fn, b, not_space)[0]
        g2 = guarded(fn, b, lambda g: eq_form(g, "0", 8, True))[0]
        R.require(g1 and g2 and all(cb in fn.reach_after(b, cut_blocks=[h]) for cb, _ in chars), fn, "dot-at-8", "the '.' must be written before the first printed extension byte (index 8) and nowhere else", fn.loc(b))


@rule("SK3", ["C01", "C03"], floor=3,
      doc="cursor re-anchoring in VolumeManager::write: the only stores into the open file's cluster cursor are (a) the rewind to (0, entry.cluster), taken exactly when the cursor's cluster is smaller than the file's first cluster (a file that has just received its first cluster, cursor still at 0), placed after the first-cluster allocation and before the first lookup, and (b) the write-back of the cursor that find_data_on_disk advanced, after the data block has been written")
def sk3(F, R):
    fn = F.fn(VM + "::write")
    stores = [(b, i, fn.term_of_rvalue(s["rv"], b)) for b, i, s in fn.stmts()
              if s["k"] == "Assign" and s["p"]["proj"] and s["p"]["proj"][-1][0] == "field" and s["p"]["proj"][-1][2] == "current_cluster"]
    is_entry_cluster = lambda t: (lambda x: x[0] == "place" and tuple(e for e in x[2] if isinstance(e, str))[-2:] == ("entry", "cluster"))(strip_refs(t))
    rew = [(b, i, v) for (b, i, v) in stores if v[0] == "agg" and len(v[3]) == 2 and v[3][0][:2] == ("c", 0) and is_entry_cluster(v[3][1])]
    wbk = [(b, i, v) for (b, i, v) in stores if strip_refs(v)[0] == "var"]
    R.require(len(rew) == 1 and len(wbk) == 1 and len(stores) == 2, fn, "cursor-stores", "expected exactly the rewind (0, entry.cluster) and the write-back of the advanced cursor, found %s" % [tstr(v)[-60:] for (_, _, v) in stores], fn.loc(0))
    fdd = [b for b, t in fn.calls() if call_matches(t, ("find_data_on_disk",))]
    allocs = [b for b, t in fn.calls() if call_matches(t, ("FatVolume::alloc_cluster",)) and strip_refs(fn.term_of_operand(t["args"][2], b))[2].endswith("Option::None")]
    for (b, i, v) in rew:
        def lt(g):
            if not (g.kind == "bool" and g.truth is True and g.term[0] == "cmp" and g.term[1] == "Lt"):
                return False
            a, z = strip_refs(g.term[2]), strip_refs(g.term[3])
            return a[0] == "place" and tuple(e for e in a[2] if isinstance(e, str))[-2:] == ("current_cluster", "1") and is_entry_cluster(z)
        def gt(g):
            if not (g.kind == "bool" and g.truth is True and g.term[0] == "cmp" and g.term[1] == "Gt"):
                return False
            a, z = strip_refs(g.term[2]), strip_refs(g.term[3])
            return is_entry_cluster(a) and z[0] == "place" and tuple(e for e in z[2] if isinstance(e, str))[-2:] == ("current_cluster", "1")
        R.require(guarded(fn, b, lt)[0] or guarded(fn, b, gt)[0], fn, "rewind-when-behind", "the rewind must be taken exactly when cursor.1 < entry.cluster", fn.loc(b, i))
        # every way to the lookups passes the cursor test (either answer)
        R.require(all(fn.unreachable_without(f, [(gb, gi) for (gb, gi, g) in all_guards(fn) if (lt(g) or gt(g))] + [(gb, gi) for (gb, gi, g) in all_guards(fn) if g.kind == "bool" and g.truth is False and g.term[0] == "cmp" and "current_cluster" in tstr(g.term)]) for f in fdd), fn, "rewind-before-lookup", "find_data_on_disk is reachable without the cursor test", fn.loc(b, i))
        R.require(all(b in fn.reach_after(a) for a in allocs) and all(f in fn.reach_after(b) for f in fdd), fn, "rewind-position", "the rewind must lie after the first-cluster allocation and before the lookups", fn.loc(b, i))
    for (b, i, v) in wbk:
        var = strip_refs(v)[1]
        okv = any(strip_refs(fn.term_of_operand(t["args"][2], bb)) == ("var", var, fn.local_name(var)) or has_sub(fn.term_of_operand(t["args"][2], bb), lambda q: q[:2] == ("var", var)) for bb, t in fn.calls() if call_matches(t, ("find_data_on_disk",)))
        wb = [bb for bb, t in fn.calls() if call_matches(t, ("BlockCache::write_back",))]
        R.require(okv and any(b in fn.reach_after(x) for x in wb) and guarded(fn, b, g_try_ok("BlockCache::write_back"))[0], fn, "cursor-write-back", "the cursor stored back must be the one find_data_on_disk advanced, after the block write succeeded", fn.loc(b, i))


@rule("FT13", ["C05", "C03", "C01"], floor=5,
      doc="lower end of the cluster range: clusters 0 and 1 are reserved and cluster 2 is the first data cluster, at every site alike - each comparison of a cluster number with the bare constant RESERVED_ENTRIES (2) is `x < 2` / `x >= 2` (\"owns no cluster\" / \"is a data cluster\"); the only `x > 2` tests are alloc_cluster's two 'did the search start above 2, so rescan from 2' conditions")
def ft13(F, R):
    n = 0
    for fn in F.fns:
        if not (fn.npath.startswith(FATVOL + "::") or fn.npath.startswith("volume_mgr::VolumeManager")) or "{closure" in fn.npath:
            continue
        seen = set()
        from .ev import tested_comparisons
        for (b, i, g, op, a, z) in [(b, i, g, op, a, z) for (b, i, g) in all_guards(fn) for (op, a, z) in tested_comparisons(g)]:
            if op not in ("Lt", "Le", "Gt", "Ge", "Eq"):
                continue
            # RESERVED_ENTRIES by name, or the literal 2 compared with a cluster number (the `.0` of a ClusterId)
            def is_cluster_no(t):
                """the `.0` of a ClusterId: of a ClusterId-typed local / parameter, or of a field whose declared type is ClusterId"""
                y = strip_refs(t)
                if y[0] != "place":
                    return False
                fs_ = [e for e in y[2] if isinstance(e, str) and e != "*" and not e.startswith("as:")]
                if fs_[-1:] != ["0"]:
                    return False
                if len(fs_) == 1:
                    b_ = strip_refs(y[1])
                    return b_[0] in ("var", "arg") and isinstance(b_[1], int) and "ClusterId" in fn.locals[b_[1]]["ty"]
                return any(f_["name"] == fs_[-2] and "ClusterId" in f_["ty"] for a_ in F.adts.values() for v_ in a_["variants"] for f_ in v_["fields"])
            is_res = lambda t, other=None: t[0] == "c" and t[1] == 2 and ((t[2] and t[2].endswith("RESERVED_ENTRIES")) or (not t[2] and other is not None and is_cluster_no(other)))
            if not (is_res(a, z) or is_res(z, a)):
                continue
            k = "%s %s %s" % (op, tstr(a), tstr(z))
            if k in seen:
                continue
            seen.add(k)
            n += 1
            if is_res(a, z):    # constant on the left: mirror
                op = {"Lt": "Gt", "Le": "Ge", "Gt": "Lt", "Ge": "Le", "Eq": "Eq"}[op]
            short = fn.npath.split("::")[-1]
            if short == "alloc_cluster" and op == "Gt":
                R.ok(fn, "rescan-test", "search started above cluster 2: rescan from 2", fn.loc(b))
                continue
            R.require(op in ("Lt", "Ge"), fn, "first-data-cluster:" + short, "%s tests a cluster number with `%s RESERVED_ENTRIES`: cluster 2 is a data cluster like any other, the reserved ones are < 2 (a file starting in cluster 2 would be treated as owning no cluster)" % (short, {"Le": "<=", "Gt": ">", "Eq": "=="}.get(op, op)), fn.loc(b))
    R.require(n >= 5, None, "sites", "expected >= 5 comparisons with RESERVED_ENTRIES, found %d" % n)


def _in_iteration_after(fn, site_block, ok_pred, loop):
    """within one trip of `loop`, every path from the loop header to `site_block` crosses an edge satisfying ok_pred"""
    h, body, backs = loop
    edges = [(gb, gi) for (gb, gi, g) in all_guards(fn) if gb in body and ok_pred(g)]
    inside = fn.reach([h], cut_edges=edges, cut_blocks=[x for x in fn.live_blocks() if x not in body])
    return bool(edges) and site_block not in inside


@rule("SK6", ["C01", "C03", "C11"], floor=3,
      doc="position bookkeeping follows success, trip by trip: in find_data_on_disk the cursor offset is advanced (start.0 += bytes_per_cluster) only after this trip's next_cluster(..)? succeeded and its result was stored, so a walk that ends with EndOfFile leaves (offset, cluster) consistent for the caller to extend from; in VolumeManager::read the file position moves (seek_from_current) only after this trip's block read succeeded, so a failed read can be retried from the same position")
def sk6(F, R):
    fn = F.fn(VMD + "::find_data_on_disk")
    loops = [l for l in fn.loops() if any(fn.term(b)["k"] == "Call" and call_matches(fn.term(b), ("FatVolume::next_cluster",)) for b in l[1])]
    R.require(len(loops) == 1, fn, "walk-loop", "expected one chain-walk loop in find_data_on_disk", fn.loc(0))
    for loop in loops:
        from .rules_walk import arg_field_store
        adv = [(b, i) for b, i, s in fn.stmts() if b in loop[1] and arg_field_store(s, 3, 0, fn)]
        R.require(len(adv) == 1, fn, "advance-site", "expected one cursor-offset advance in the walk loop, found %d" % len(adv), fn.loc(loop[0]))
        for (b, i) in adv:
            R.require(_in_iteration_after(fn, b, g_try_ok("FatVolume::next_cluster"), loop), fn, "advance-after-link", "the cursor offset is advanced before this trip's next_cluster has succeeded: when the chain ends here the caller is left with an offset one cluster ahead of the cluster it names, and the extension that follows writes into the old last cluster", fn.loc(b, i))
            st1 = [(bb, ii) for bb, ii, s in fn.stmts() if bb in loop[1] and arg_field_store(s, 3, 1, fn)]
            R.require(len(st1) == 1 and (fn.dominates(st1[0][0], b) or st1[0][0] == b), fn, "cluster-before-offset", "the new cluster must be stored before the offset is advanced", fn.loc(b, i))
    rd = F.fn(VM + "::read")
    loops = [l for l in rd.loops() if any(rd.term(b)["k"] == "Call" and call_matches(rd.term(b), ("BlockCache::read",)) for b in l[1])]
    R.require(len(loops) == 1, rd, "read-loop", "expected one copy loop in read()", rd.loc(0))
    for loop in loops:
        sk = [b for b in loop[1] if rd.term(b)["k"] == "Call" and call_matches(rd.term(b), ("FileInfo::seek_from_current", "FileInfo::seek_from_start"))]
        R.require(len(sk) == 1, rd, "seek-site", "expected one position update per trip in read()", rd.loc(loop[0]))
        for b in sk:
            R.require(_in_iteration_after(rd, b, g_try_ok("BlockCache::read"), loop), rd, "position-after-read", "read() moves the file position before the data block has been read successfully: a read that fails with a device error has already consumed bytes it never delivered", rd.loc(b))


@rule("TR1", ["C05", "C10", "C03", "C01"], floor=3,
      doc="truncate-on-open keeps the file's first cluster and keeps referring to it: open_file_in_dir never stores into an entry's first-cluster field and never calls free_cluster_chain (truncate_cluster_chain frees everything *behind* the first cluster, which stays allocated and stays named by the entry); FileInfo::update_length changes the size only; a DirEntry's first cluster is only ever assigned the result of alloc_cluster (a cluster-less file's first write, make_dir)")
def tr1(F, R):
    fn = F.fn(VM + "::open_file_in_dir")
    st = [(b, i) for b, i, s in fn.stmts() if s["k"] == "Assign" and [e[2] for e in s["p"]["proj"] if e[0] == "field"][-2:] == ["entry", "cluster"]]
    st += [(b, i) for b, i, s in fn.stmts() if s["k"] == "Assign" and [e[2] for e in s["p"]["proj"] if e[0] == "field"][-1:] == ["cluster"] and "DirEntry" in fn.locals[s["p"]["l"]]["ty"] + "".join(str(e) for e in s["p"]["proj"])]
    R.require(not st, fn, "keeps-first-cluster", "open_file_in_dir rewrites the entry's first cluster: a truncated file keeps its first cluster allocated, so dropping the reference leaks it (and freeing it before the entry is rewritten leaves a live entry on a free cluster)", fn.loc(st[0][0], st[0][1]) if st else fn.loc(0))
    fc = [b for b, t in fn.calls() if call_matches(t, ("FatVolume::free_cluster_chain",))]
    R.require(not fc, fn, "no-free-on-open", "open_file_in_dir calls free_cluster_chain: truncation must go through truncate_cluster_chain, which terminates the kept head before freeing the tail", fn.loc(fc[0]) if fc else fn.loc(0))
    # writers of a DirEntry's cluster field, crate-wide: only ever the result of an allocation
    from .dataflow import roots as _roots
    bad = []
    n = 0
    for g in F.fns:
        if g.npath.startswith(("fat::test", "volume_mgr::tests")):
            continue
        for b, i, s in g.stmts():
            if s["k"] == "Assign" and s["p"]["proj"]:
                flds = [e[2] for e in s["p"]["proj"] if e[0] == "field"]
                if flds[-1:] == ["cluster"] and ("entry" in flds or "DirEntry" in g.locals[s["p"]["l"]]["ty"]):
                    n += 1
                    rs = _roots(g, g.term_of_rvalue(s["rv"], b), stop=lambda n_: path_matches(n_, "FatVolume::alloc_cluster"))
                    if not (rs and all(r[0] == "call" and r[1] and path_matches(r[1], "FatVolume::alloc_cluster") for r in rs)):
                        bad.append("%s at %s" % (g.npath.split("::")[-1], g.loc(b, i)))
    R.require(n >= 2 and not bad, None, "cluster-writers", "an existing entry's first cluster may only be set to a freshly allocated cluster; other stores: %s" % bad)


@rule("ML1", ["C05"], floor=2,
      doc="make_dir cannot run out of space after it has taken a cluster: every step that may legitimately fail for lack of space (finding / growing a slot in the parent: write_new_directory_entry; the allocation itself) precedes the point at which the new directory's cluster is allocated, so a refused mkdir (full FAT16 root, last free cluster needed for the parent) leaves no cluster marked in use without an owner")
def ml1(F, R):
    fn = F.fn(FATVOL + "::make_dir")
    allocs = [b for b, t in fn.calls() if call_matches(t, ("FatVolume::alloc_cluster",))]
    R.require(len(allocs) == 1, fn, "alloc-site", "expected one alloc_cluster call in make_dir, found %d" % len(allocs), fn.loc(0))
    for a in allocs:
        later = [b for b, t in fn.calls() if b in fn.reach_after(a) and b != a and call_matches(t, ("FatVolume::write_new_directory_entry", "FatVolume::alloc_cluster"))]
        if later:
            # alternative discipline: allocate first but give the cluster back on every failing exit
            frees = [b for b, t in fn.calls() if call_matches(t, ("FatVolume::free_cluster_chain", "FatVolume::update_fat", "FatVolume::truncate_cluster_chain"))]
            exits = [b for b, t in fn.calls() if (callee_of(t) or "").endswith("FromResidual::from_residual") and b in fn.reach_after(a)]
            exits += [x[0] for x in err_returns(fn) if x[0] in fn.reach_after(a)]
            if frees and exits and not any(e in fn.reach_after(a, cut_blocks=frees) for e in exits):
                R.ok(fn, "space-steps-first", "cluster allocated first, released on every failing exit")
                continue
        R.require(not later, fn, "space-steps-first", "make_dir takes the new directory's cluster before the parent entry is secured: when the parent cannot take another entry (NotEnoughSpace) the cluster stays marked in use with no owner", fn.loc(later[0]) if later else fn.loc(a))


NC_TABLE16 = [(0x0000, ("ok", 0)), (0x0001, ("ok", 1)), (0x0002, ("ok", 2)), (0x1234, ("ok", 0x1234)), (0xFFEF, ("ok", 0xFFEF)), (0xFFF0, ("ok", 0xFFF0)), (0xFFF5, ("ok", 0xFFF5)),
              (0xFFF6, ("ok", 0xFFF6)), (0xFFF7, ("err", "BadCluster")), (0xFFF8, ("err", "EndOfFile")), (0xFFF9, ("err", "EndOfFile")), (0xFFFE, ("err", "EndOfFile")), (0xFFFF, ("err", "EndOfFile"))]
NC_TABLE32 = [(0x00000000, ("err", "UnterminatedFatChain")), (0x00000001, ("err", "EndOfFile")), (0x00000002, ("ok", 2)), (0x00010000, ("ok", 0x10000)), (0x0FFFFFEF, ("ok", 0x0FFFFFEF)),
              (0x0FFFFFF6, ("ok", 0x0FFFFFF6)), (0x0FFFFFF7, ("err", "BadCluster")), (0x0FFFFFF8, ("err", "EndOfFile")), (0x0FFFFFF9, ("err", "EndOfFile")), (0x0FFFFFFC, ("err", "EndOfFile")), (0x0FFFFFFF, ("err", "EndOfFile")),
              (0x10000002, ("ok", 2)), (0xF0012345, ("ok", 0x12345)), (0xF0000000, ("err", "UnterminatedFatChain")), (0xFFFFFFF8, ("err", "EndOfFile")), (0xA0000001, ("err", "EndOfFile"))]


@rule("NC1", ["C03", "C05", "C06", "C01"], floor=29,
      doc="next_cluster classifies a FAT entry as the specification says (as this crate has always done): FAT16 0xFFF7 bad, 0xFFF8..=0xFFFF end of chain, every other value - including 0xFFF0..0xFFF6, which are valid cluster numbers on a maximal volume - is the next cluster; FAT32 looks at the low 28 bits only, 0 unterminated, 1 and 0x0FFFFFF8.. end, 0x0FFFFFF7 bad, otherwise the next cluster is the *masked* value; decided by evaluating the classification code on the boundary values of every class, plus a check that no other constant takes part in the classification")
def nc1(F, R):
    from .absint import Interp, State, Undecided
    from .absval import const, is_agg, int_const, is_int
    fn = F.fn(FATVOL + "::next_cluster")
    from .rules_fs import fat_views
    views = fat_views(fn)
    for arm, rd, width, table, consts in (("Fat16", "read_u16", 16, NC_TABLE16, {0xFFF7, 0xFFF8, 0xFFFF}), ("Fat32", "read_u32", 32, NC_TABLE32, {0, 1, 0x0FFFFFF7, 0x0FFFFFF8, 0x0FFFFFFF, 0x0FFFFFFF})):
        # (decided on the function as it is for this FAT type: markers kept in per-type variables are constants there)
        fv = views[arm]
        sites = [(b, t) for b, t in fv.calls() if (callee_of(t) or "").endswith(rd)]
        if len(sites) != 1:
            R.bad(fn, arm + ":read", "expected one %s of the FAT entry in the %s arm" % (rd, arm), fn.loc(0), kind="anchor-missing")
            continue
        b0, t0 = sites[0]
        t0 = fn.term(b0)
        dest = t0["dest"]["l"]
        # constants the entry is compared with
        seen = set()
        for (gb, gi, g) in all_guards(fv):
            if not has_sub(g.term, lambda q: q[0] == "call" and q[1] and q[1].endswith(rd)):
                continue
            if g.kind == "value":
                seen.add(g.value)
            elif g.kind == "notvalues":
                seen |= set(g.others)
            elif g.kind == "bool" and g.term[0] == "cmp":
                for x in (g.term[2], g.term[3]):
                    if x[0] == "c" and isinstance(x[1], int):
                        seen.add(x[1])
        # a subset is enough: comparisons with these constants cut the value range into cells every one of which has a
        # representative in the table below, so agreement on the table is agreement everywhere (if-chains with >= 0xFFF8
        # never mention 0xFFFF)
        R.require(seen <= consts and len(seen) >= 2, fn, arm + ":constants", "the %s classification compares the entry with %s, the specification's special values are %s" % (arm, sorted(hex(x) for x in seen), sorted(hex(x) for x in consts)), fn.loc(b0))
        for (val, want) in table:
            I = Interp(F, mode="iv", max_paths=200)
            st = State()
            try:
                outs = I.run(fn, [], st, 0, start=t0["target"], preset={dest: const(val, width)})
            except Undecided as e:
                R.bad(fn, "%s:%#x" % (arm, val), "cannot evaluate the classification of entry %#x: %s" % (val, e), fn.loc(b0))
                continue
            got = set()
            for rv, s2 in outs:
                got.add(_nc_outcome(F, rv))
            R.require(got == {want}, fn, "%s:%#x" % (arm, val), "%s entry %#x is classified as %s, the specification says %s" % (arm, val, sorted(got), want), fn.loc(b0))


def _nc_outcome(F, rv):
    from .absval import is_agg, int_const, is_int
    try:
        if is_agg(rv) and rv[3] is not None:
            names = ["Ok", "Err"]
            kind = names[rv[3]] if rv[3] < 2 else "?"
            if kind == "Ok":
                inner = rv[4][0]
                while is_agg(inner):
                    inner = inner[4][0]
                return ("ok", int_const(inner) if is_int(inner) else None)
            inner = rv[4][0]
            if is_agg(inner) and inner[3] is not None:
                a = F.adts.get(inner[2]) or next((v for k, v in F.adts.items() if k == inner[2] or k.endswith("::" + str(inner[2]))), None)
                return ("err", a["variants"][inner[3]]["name"] if a else inner[3])
    except Exception as e:  # noqa
        return ("?", str(e))
    return ("?", repr(rv)[:60])


def _clo_key(ty):
    if "{closure@" not in ty:
        return None
    k = ty[ty.index("{closure@"):]
    return k[:k.index("}") + 1]


def _every_walk_gets(outer, cls):
    """each iterate_fat16 / iterate_fat32 call of `outer` is handed one of the closures `cls` (one closure per FAT type, or one
    closure built once and given to whichever walk runs)"""
    keys = {_clo_key(c.locals[1]["ty"]) for c in cls}
    walks = [(b, t) for b, t in outer.calls() if (callee_of(t) or "").endswith(("::iterate_fat16", "::iterate_fat32"))]
    if not walks or not cls:
        return False
    for b, t in walks:
        got = {_clo_key(outer.locals[a["p"]["l"]]["ty"]) for a in t["args"] if a.get("p")} - {None}
        if not (got & keys):
            return False
    return {(callee_of(t) or "").split("::")[-1] for b, t in walks} == {"iterate_fat16", "iterate_fat32"}


@rule("LS6", ["C06", "C17"], floor=4,
      doc="the long-name-aware listing reports every short entry exactly once: in both per-entry closures of iterate_dir_lfn, whenever the slot is not a long-name fragment (lfn_contents() is None) the user's callback is invoked on every path - with the long name only under Complete && checksum match, with None otherwise - and never for a fragment")
def ls6(F, R):
    outer = F.fn(FATVOL + "::iterate_dir_lfn")
    cls = F.closures_of(outer)
    cls = [c for c in cls if any((callee_of(t) or "").endswith("lfn_contents") for b, t in c.calls())]
    R.require(_every_walk_gets(outer, cls), outer, "closures", "every directory walk started by iterate_dir_lfn (iterate_fat16 / iterate_fat32) must be given a per-entry closure that looks at lfn_contents(); found %d such closures" % len(cls), outer.loc(0))
    for c in cls:
        key = c.npath.split("::")[-1]
        # calls of the user's callback: call through the captured FnMut (callee is a type parameter / call_mut)
        cbs = [b for b, t in c.calls() if (callee_of(t) or "").endswith(("FnMut::call_mut", "Fn::call", "FnOnce::call_once"))]
        lc = [b for b, t in c.calls() if (callee_of(t) or "").endswith("lfn_contents")]
        R.require(len(lc) == 1 and len(cbs) >= 1, c, key + ":shape", "closure must test lfn_contents() once and call the user's callback", c.loc(0))
        if len(lc) != 1 or not cbs:
            continue
        none_edges = [(gb, gi) for (gb, gi, g) in all_guards(c) if g.kind == "variant" and g.variant == "None" and has_sub(g.term, lambda q: q[0] == "call" and q[1] and q[1].endswith("lfn_contents"))]
        some_edges = [(gb, gi) for (gb, gi, g) in all_guards(c) if g.kind == "variant" and g.variant == "Some" and has_sub(g.term, lambda q: q[0] == "call" and q[1] and q[1].endswith("lfn_contents"))]
        R.require(bool(none_edges) and bool(some_edges), c, key + ":fragment-test", "no match on lfn_contents()", c.loc(lc[0]))
        rets = c.return_blocks()
        # (1) short entry => callback on every path to the return
        bad1 = False
        for (gb, gi) in none_edges:
            tgt = c.succ(gb)[gi][0]
            free = c.reach([tgt], cut_blocks=cbs)
            if any(r in free for r in rets):
                bad1 = True
        R.require(not bad1, c, key + ":short-entry-always-reported", "a short (non-fragment) entry can pass through the long-name listing without the callback being called: the entry disappears from iterate_dir_lfn although iterate_dir lists it", c.loc(lc[0]))
        # (2) at most once per entry: no callback reachable after a callback
        twice = [b for b in cbs if any(b2 in c.reach_after(b) for b2 in cbs)]
        R.require(not twice, c, key + ":once", "the callback can be invoked twice for one entry", c.loc(cbs[0]))
        # (3) never for a fragment
        frag = False
        for (gb, gi) in some_edges:
            tgt = c.succ(gb)[gi][0]
            if any(b in c.reach([tgt]) for b in cbs):
                frag = True
        R.require(not frag, c, key + ":no-fragment-reported", "the callback is reachable for a long-name fragment", c.loc(lc[0]))


@rule("LS7", ["C06", "C07"], floor=6,
      doc="the end-of-directory marker ends lookup and delete exactly as it ends the listing: the per-block helpers find_entry_in_block / delete_entry_in_block answer differently for 'end marker seen' and 'no match in this block', and find_directory_entry / delete_directory_entry go on to the next block only on the latter - so a name behind the end marker (stale bytes of a foreign formatter) is neither found, opened nor deleted, just as it is not listed")
def ls7(F, R):
    for helper, walker in (("find_entry_in_block", "find_directory_entry"), ("delete_entry_in_block", "delete_directory_entry")):
        fn = F.fn(FATVOL + "::" + helper)
        ends = [(gb, gi) for (gb, gi, g) in all_guards(fn) if g_call("OnDiskDirEntry::is_end", True)(g)]
        nones = [(gb, gi) for (gb, gi, g) in all_guards(fn) if g.kind == "variant" and g.variant == "None" and has_sub(g.term, lambda q: q[0] == "call" and q[1] and q[1].endswith("Iterator::next"))]
        R.require(bool(ends) and bool(nones), fn, helper + ":shape", "expected a slot loop with an is_end() test in %s" % helper, fn.loc(0))
        if not ends or not nones:
            continue

        def answers(edges):
            out = set()
            for (gb, gi) in edges:
                tgt = fn.succ(gb)[gi][0]
                rs = fn.reach([tgt])
                for b, i, s in fn.stmts():
                    if b in rs and s["k"] == "Assign" and s["p"]["l"] == 0 and not s["p"]["proj"]:
                        out.add(tstr(fn.term_of_rvalue(s["rv"], b)))
                for b, t in fn.calls():
                    if b in rs and t["dest"]["l"] == 0 and not t["dest"]["proj"]:
                        out.add(tstr(fn.call_term(t, b))[:80])
            return out
        a_end = answers(ends)
        # the loop-exhausted answer: reachable from the iterator's None edge
        a_none = answers(nones)
        # the end-marker edge may itself run into the loop exit (`break`): then its answers include the exhausted ones
        R.require(bool(a_end) and bool(a_none) and not (a_end & a_none), fn, helper + ":distinct-answers", "%s gives the same answer (%s) for 'end-of-directory marker seen' and for 'no match in this block': the caller cannot stop at the end marker and scans the blocks behind it" % (helper, sorted(a_end & a_none)), fn.loc(ends[0][0]))
        w = F.fn(FATVOL + "::" + walker)
        calls = [(b, t) for b, t in w.calls() if call_matches(t, ("FatVolume::" + helper,))]
        R.require(len(calls) == 2, w, walker + ":sites", "expected one %s call per FAT type in %s" % (helper, walker), w.loc(0))
        for (b, t) in calls:
            # on the Err edge of the helper result the walk must not go on to another block
            def is_err_edge(g, b=b):
                if g.kind != "variant":
                    return False
                if g.variant == "Err" and g.term[0] == "call" and g.term[3] == b:
                    return True
                x = try_inner(g.term) if g.variant == "Break" else None      # helper(..)? - the error leaves the walker at once
                return x is not None and x[0] == "call" and x[3] == b
            err_edges = [(gb, gi) for (gb, gi, g) in all_guards(w) if is_err_edge(g)]
            nxt = [bb for (h, body, backs) in w.loops() if b in body for bb in body if w.term(bb)["k"] == "Call" and (callee_of(w.term(bb)) or "").endswith("Iterator::next")]
            again = False
            for (gb, gi) in err_edges:
                tgt = w.succ(gb)[gi][0]
                if any(x in w.reach([tgt]) for x in nxt):
                    again = True
            R.require(bool(err_edges) and not again, w, walker + ":stops-on-err", "%s goes on to the next directory block after %s reported an error / the end marker" % (walker, helper), w.loc(b))


def _eval_mode(term, mode_name, mode_idx):
    """Evaluate a boolean term over `mode` for one concrete Mode; None when the term does not only depend on mode."""
    t = strip_refs(term)
    if t[0] == "un" and t[1] == "Not":
        v = _eval_mode(t[2], mode_name, mode_idx)
        return None if v is None else (not v)
    if t[0] == "bin" and t[1] in ("BitOr", "BitAnd"):
        a, b = _eval_mode(t[2], mode_name, mode_idx), _eval_mode(t[3], mode_name, mode_idx)
        if t[1] == "BitOr":
            if a is True or b is True:
                return True
            return False if (a is False and b is False) else None
        if a is False or b is False:
            return False
        return True if (a is True and b is True) else None
    def side(x):
        x = strip_refs(x)
        if x[:2] == ("arg", 4) or (x[0] == "arg" and str(x[2]) == "mode"):
            return "mode"
        if x[0] == "agg" and x[2] and "files::Mode::" in x[2]:
            return x[2].split("::")[-1]
        return None
    if t[0] == "call" and t[1] and t[1].split("::")[-1] in ("eq", "ne") and len(t[2]) == 2:
        a, b = side(t[2][0]), side(t[2][1])
        if "mode" in (a, b) and (a if b == "mode" else b) not in (None, "mode"):
            r = (a if b == "mode" else b) == mode_name
            return r if t[1].endswith("eq") else (not r)
    if t[0] == "cmp" and t[1] == "Eq":
        a, b = side(t[2]), side(t[3])
        if "mode" in (a, b) and (a if b == "mode" else b) not in (None, "mode"):
            return (a if b == "mode" else b) == mode_name
    return None


@rule("MD10", ["C07", "C02"], floor=6,
      doc="a missing name is created by exactly the creating modes: in open_file_in_dir the NotFound answer of the lookup leads on to write_new_directory_entry for ReadWriteCreate, ReadWriteCreateOrTruncate and ReadWriteCreateOrAppend and to Err(NotFound) for ReadOnly, ReadWriteAppend and ReadWriteTruncate - decided per mode by evaluating the guards on `mode` that lie behind the NotFound edge (any mix of ==, ||, matches!)")
def md10(F, R):
    fn = F.fn(VM + "::open_file_in_dir")
    modes = F.variants("filesystem::files::Mode")
    nf = [(gb, gi) for (gb, gi, g) in all_guards(fn) if g.kind == "variant" and g.variant == "NotFound" and has_sub(g.term, lambda q: q[0] == "call" and q[1] and path_matches(q[1], "FatVolume::find_directory_entry"))]
    wn = [b for b, t in fn.calls() if call_matches(t, ("FatVolume::write_new_directory_entry",))]
    R.require(len(nf) == 1 and len(wn) == 1, fn, "anchors", "expected one NotFound arm on the lookup and one write_new_directory_entry call in open_file_in_dir", fn.loc(0))
    if len(nf) != 1 or len(wn) != 1:
        return
    start = fn.succ(nf[0][0])[nf[0][1]][0]
    want = {"ReadWriteCreate", "ReadWriteCreateOrTruncate", "ReadWriteCreateOrAppend"}
    # past the NotFound edge the lookup's answer is an Err: a later `?` / match on the same result cannot take its Ok side
    is_lookup = lambda q: q is not None and q[0] == "call" and q[1] and path_matches(q[1], "FatVolume::find_directory_entry")
    premise = [(gb, gi) for (gb, gi, g) in all_guards(fn) if g.kind == "variant" and ((g.variant == "Continue" and is_lookup(try_inner(g.term))) or (g.variant == "Ok" and is_lookup(strip_refs(g.term))))]
    for mi, m in enumerate(modes):
        cut = list(premise)
        for (gb, gi, g) in all_guards(fn):
            if g.kind == "bool":
                v = _eval_mode(g.term, m, mi)
                if v is not None and v != g.truth:
                    cut.append((gb, gi))
            elif g.kind == "value" and strip_refs(g.term)[:2] == ("arg", 4):
                if g.value != mi:
                    cut.append((gb, gi))
            elif g.kind == "notvalues" and strip_refs(g.term)[:2] == ("arg", 4):
                if mi in g.others:
                    cut.append((gb, gi))
            elif g.kind == "variant" and strip_refs(g.term)[:2] == ("arg", 4):
                if g.variant != m:
                    cut.append((gb, gi))
            elif g.kind == "variants" and strip_refs(g.term)[:2] == ("arg", 4):
                if m not in tuple(g.variant):
                    cut.append((gb, gi))
        # boolean temporaries set in the arms of a `matches!(mode, ..)`: decided once only one constant definition stays
        # reachable (the temporary may be set before the lookup - `let may_create = matches!(mode, ..)` - and may be tested
        # through a copy: `match (lookup, may_create) { .. }`)
        from .ev import resolve_bool_temps
        cut = resolve_bool_temps(fn, cut)
        # (the mode may have been asked before the error kind: `(Err(NotFound), true) => create` tests the flag first - then
        # the NotFound edge itself is out of reach for the other modes)
        creates = nf[0][0] in fn.reach([0], cut_edges=[e for e in cut if e not in premise]) and wn[0] in fn.reach([start], cut_edges=cut)
        R.require(creates == (m in want), fn, "notfound:" + m, "open mode %s on a missing name %s; the documentation says it %s" % (m, "goes on to create the file" if creates else "fails with NotFound", "creates it" if m in want else "fails with NotFound"), fn.loc(nf[0][0]))


@rule("MK1", ["C03", "C09", "C07", "C02"], floor=2,
      doc="names stay unique through mkdir: in make_dir_in_dir the directory is created (FatVolume::make_dir) only on the NotFound answer of the name lookup - any found entry, file or directory, refuses the call - and any other lookup error is returned")
def mk1(F, R):
    fn = F.fn(VM + "::make_dir_in_dir")
    mk = [b for b, t in fn.calls() if call_matches(t, ("FatVolume::make_dir",))]
    lk = [b for b, t in fn.calls() if call_matches(t, ("FatVolume::find_directory_entry",))]
    R.require(len(mk) == 1 and len(lk) == 1, fn, "anchors", "expected one lookup and one make_dir call in make_dir_in_dir", fn.loc(0))
    if len(mk) != 1 or len(lk) != 1:
        return
    is_lk = lambda g: has_sub(g.term, lambda q: q[0] == "call" and q[1] and path_matches(q[1], "FatVolume::find_directory_entry"))
    nf = guarded(fn, mk[0], lambda g: g.kind == "variant" and g.variant == "NotFound" and is_lk(g))[0]
    R.require(nf, fn, "create-only-if-absent", "make_dir is reachable without the lookup having answered NotFound: a name that already exists (as a file or a directory) gets a second entry", fn.loc(mk[0]))
    ok_edges = [(gb, gi) for (gb, gi, g) in all_guards(fn) if g.kind == "variant" and g.variant == "Ok" and is_lk(g) and g.term[0] == "call"]
    leak = any(mk[0] in fn.reach([fn.succ(gb)[gi][0]]) for (gb, gi) in ok_edges)
    R.require(bool(ok_edges) and not leak, fn, "found-refuses", "after the lookup found an entry make_dir is still reachable", fn.loc(lk[0]))


@rule("MT7", ["C15"], floor=22,
      doc="mounting does not refuse what the specification allows: for every BPB / MBR field with a small set of legal values (BPB_SecPerClus 1,2,..,128; BPB_NumFATs 1,2; BPB_Media F0,F8..FF; BPB_BytsPerSec 512; BPB_FSVer 0; partition status 00,80; the five FAT partition types) and every legal value, a success return of the function that tests the field stays reachable when the tests on that field are decided for that value - an added 'sanity check' that leaves a legal value out (e.g. a power-of-two list without 128) is a violation, checks that only refuse illegal values are not")
def mt7(F, R):
    call_is = lambda nm: (lambda q: q[0] == "call" and q[1] and q[1].endswith("Bpb::" + nm))
    idx_is = lambda k: (lambda q: q[0] == "place" and any(isinstance(e, tuple) and e[0] == "idx" and e[1][:2] == ("c", k) for e in q[2]) and "partition" in tstr(q))
    pow2 = [1, 2, 4, 8, 16, 32, 64, 128]
    media = [0xF0, 0xF8, 0xF9, 0xFA, 0xFB, 0xFC, 0xFD, 0xFE, 0xFF]
    table = []
    for fname in ("fat::bpb::Bpb::create_from_bytes", "fat::volume::parse_volume"):
        table += [(fname, "BPB_SecPerClus", call_is("blocks_per_cluster"), pow2), (fname, "BPB_NumFATs", call_is("num_fats"), [1, 2]), (fname, "BPB_Media", call_is("media"), media),
                  (fname, "BPB_BytsPerSec", call_is("bytes_per_block"), [512]), (fname, "BPB_FSVer", call_is("fs_ver"), [0])]
    table += [("volume_mgr::VolumeManager::open_raw_volume", "partition status", idx_is(0), [0x00, 0x80]),
              ("volume_mgr::VolumeManager::open_raw_volume", "partition type", idx_is(4), [0x04, 0x06, 0x0B, 0x0C, 0x0E])]
    # what the boot sector says decides: once parse_volume has accepted the volume, open_raw_volume cannot refuse it any more
    # (only a full volume table can) - no cross-check of the MBR type byte against the FAT type, which the specification
    # derives from the cluster count alone (0x0C partitions holding FAT16 are common)
    orv = F.fn("volume_mgr::VolumeManager::open_raw_volume")
    acc = [(gb, gi) for (gb, gi, g) in all_guards(orv) if g_try_ok("parse_volume")(g)]
    R.require(len(acc) >= 1, orv, "parse-accepted", "open_raw_volume must use parse_volume(..)?", orv.loc(0))
    for (gb, gi) in acc:
        rs = orv.reach([orv.succ(gb)[gi][0]])
        late = sorted({x[2] for x in err_returns(orv) if x[0] in rs and x[2] != "TooManyOpenVolumes"})
        late += ["?" for b, t in orv.calls() if b in rs and (callee_of(t) or "").endswith("FromResidual::from_residual") and "push(" not in tstr(orv.call_term(t, b))]
        R.require(not late, orv, "accepted-volume-opens", "open_raw_volume can still refuse (%s) a volume whose boot sector parse_volume has accepted" % ", ".join(late), orv.loc(gb))
    for fname, label, pred, legal in table:
        fn = F.fn(fname)
        oks = [x[0] for x in ok_returns(fn)]
        if not oks:
            R.bad(fn, "ok-return", "no success return in %s" % fname, fn.loc(0), kind="anchor-missing")
            continue
        for v in legal:
            cut = specialise_on(fn, pred, v)
            rs = fn.reach([0], cut_edges=cut)
            R.require(any(b in rs for b in oks), fn, "%s=%#x" % (label, v), "%s refuses every volume whose %s is %#x, a value the specification allows" % (fname.split("::")[-1], label, v), fn.loc(0),
                      okdetail="%s = %#x can still succeed" % (label, v))


import re as _re

_PASS_THROUGH = ("DerefMut::deref_mut", "IndexMut::index_mut", "chunks_exact_mut", "chunks_mut", "iter_mut", "Iterator::next", "Iterator::enumerate", "enumerate",
                 "Iterator::peekable", "peekable", "Peekable::peek_mut", "peek_mut", "split_at_mut", "IntoIterator::into_iter", "into_iter", "AsMut::as_mut", "as_mut_slice",
                 "Iterator::skip", "Iterator::take", "Iterator::rev", "Iterator::zip", "Iterator::step_by", "first_mut", "last_mut", "get_mut", "Option::unwrap", "Option::expect",
                 # moving a slice *reference* around changes no byte: mem::take / replace / swap of a `&mut [u8]` variable, splitting
                 "mem::take", "mem::replace", "mem::swap", "split_first_mut", "split_last_mut", "split_at_mut_checked", "Option::take",
                 # reading through a mutable view changes nothing
                 "ByteOrder::read_u16", "ByteOrder::read_u32", "ByteOrder::read_u64", "<impl [T]>::len", "slice::len", "is_empty")


def _is_block_mut_ty(ty):
    """&mut [u8] / &mut [u8; N] / &mut Block / &mut [Block] (through any number of outer references)"""
    ty = _re.sub(r"&'[A-Za-z_0-9]+ ", "&", ty).strip()
    while ty.startswith("&mut &") or ty.startswith("& &"):
        ty = ty[ty.index(" ") + 1:]
    if not ty.startswith("&mut "):
        return False
    inner = ty[5:].strip()
    return inner.startswith("[u8") or inner in ("u8", "blockdevice::Block", "Block") or inner.startswith("[blockdevice::Block")


def block_mutations(fn):
    """(block, kind, detail term) for every place where fn changes bytes behind a mutable byte slice / Block reference:
    indexed stores and calls that receive such a reference and are not mere re-borrowing adaptors"""
    out = []
    for b, i, s in fn.stmts():
        if s["k"] == "Assign" and s["p"]["proj"] and any(e[0] == "deref" for e in s["p"]["proj"]) and _is_block_mut_ty(fn.locals[s["p"]["l"]]["ty"]):
            v = fn.term_of_rvalue(s["rv"], b)
            out.append((b, "store:%s" % (hex(v[1]) if v[0] == "c" and isinstance(v[1], int) else "?"), v))
    for b, t in fn.calls():
        c = callee_of(t) or ""
        if c.endswith(_PASS_THROUGH) or t.get("callee_local") or c.startswith(("fat::", "volume_mgr::", "filesystem::", "blockdevice::")):
            continue
        for a in t["args"]:
            if a.get("k") in ("move", "copy") and not a["p"]["proj"] and _is_block_mut_ty(fn.locals[a["p"]["l"]]["ty"]):
                out.append((b, c.split("::")[-1], fn.call_term(t, b)))
                break
    return out


# function -> the only ways it may change a directory / FAT / FSInfo / data block it holds mutably (one line of reason each)
BLOCK_MUTATORS = {
    "fat::volume::FatVolume::update_info_sector": {"copy_from_slice"},        # the two FSInfo fields
    "fat::volume::FatVolume::update_fat": {"write_u16", "write_u32"},          # one FAT entry
    "fat::volume::FatVolume::write_new_directory_entry": {"copy_from_slice"},  # the serialized entry into the free slot
    "fat::volume::FatVolume::delete_entry_in_block": {"store:0xe5"},           # the tombstone into the matched slot
    "fat::volume::FatVolume::write_entry_to_disk": {"copy_from_slice"},        # the serialized entry at its recorded offset
    "fat::volume::FatVolume::make_dir": {"copy_from_slice"},                   # '.' and '..' into the blank first block
    "volume_mgr::VolumeManager::write": {"copy_from_slice"},                   # the caller's bytes into the data block
    "volume_mgr::VolumeManager::read": {"copy_from_slice"},                    # the data block into the caller's buffer
}


@rule("TC1", ["C05", "C03", "C10"], floor=3,
      doc="chain surgery reads a link before it overwrites it: truncate_cluster_chain looks up the successor of the kept cluster before it terminates that cluster (END_OF_FILE), and alloc_cluster / make_dir never undo their work by freeing or blanking what they did not just create: the only update_fat(.., EMPTY) alloc_cluster may issue is for the cluster its own search returned, and no function stores a byte into the name of a DirEntry it has already written (0x00 there is the end-of-directory marker)")
def tc1(F, R):
    fn = F.fn(FATVOL + "::truncate_cluster_chain")
    eofs = [(b, t) for b, t in fn.calls() if call_matches(t, ("FatVolume::update_fat",)) and is_cluster_const(None, fn.term_of_operand(t["args"][3], b), "END_OF_FILE") and strip_refs(fn.term_of_operand(t["args"][2], b))[:2] == ("arg", 3)]
    looks = [(b, t) for b, t in fn.calls() if call_matches(t, ("FatVolume::next_cluster",)) and strip_refs(fn.term_of_operand(t["args"][2], b))[:2] == ("arg", 3)]
    R.require(len(eofs) >= 1 and len(looks) >= 1, fn, "sites", "expected the successor lookup of the kept cluster and its END_OF_FILE mark in truncate_cluster_chain", fn.loc(0))
    bad = [b for b, t in looks if any(b in fn.reach_after(eb) for eb, et in eofs)]
    R.require(not bad, fn, "lookup-before-terminate", "the kept cluster is marked END_OF_FILE before its successor has been looked up: the lookup then answers end-of-chain and the tail of the chain is never released (lost clusters)", fn.loc(bad[0]) if bad else fn.loc(0))
    # alloc_cluster frees nothing but what it has just found
    al = F.fn(FATVOL + "::alloc_cluster")
    frees = []
    for b, t in al.calls():
        if call_matches(t, ("FatVolume::update_fat",)):
            val = al.term_of_operand(t["args"][3], b)
            if is_cluster_const(None, val, "EMPTY"):
                tgt = strip_refs(al.term_of_operand(t["args"][2], b))
                found = has_sub(tgt, lambda q: q[0] == "call" and q[1] and q[1].endswith("find_next_free_cluster")) or (tgt[0] == "var" and all(has_sub(d, lambda q: q[0] == "call" and q[1] and q[1].endswith("find_next_free_cluster")) for d in var_def_terms(al, tgt[1])) and var_def_terms(al, tgt[1]))
                frees.append((b, bool(found), tstr(tgt)[:60]))
    badf = [x for x in frees if not x[1]]
    R.require(not badf, al, "alloc-frees-own-only", "alloc_cluster sets the FAT entry of %s to EMPTY, which is not the cluster its search has just found: an undo that frees the chain's previous last cluster leaves a live chain running into a free cluster" % [x[2] for x in badf], al.loc(badf[0][0]) if badf else al.loc(0))
    # no patching of name bytes of an entry object in the FS layer
    n = 0
    for f in F.fns:
        if not f.npath.startswith((FATVOL + "::", VM + "::", VMD + "::")):
            continue
        for b, i, s_ in f.stmts():
            if s_["k"] == "Assign" and s_["p"]["proj"]:
                names = [e[2] for e in f.canon_place(s_["p"])["proj"] if e[0] == "field"]
                if "contents" in names and "name" in names and any(e[0] in ("index", "cidx") for e in s_["p"]["proj"]):
                    n += 1
                    R.bad(f, "name-byte-store", "%s stores a byte into the name of a directory entry object (%s): a 0x00 / 0xE5 written back this way ends the directory or deletes the entry outside the delete path" % (f.npath.split("::")[-1], tstr(f.term_of_rvalue(s_["rv"], b))[:30]), f.loc(b, i))
    if n == 0:
        R.ok(None, "no-name-patching", "no FS-layer function stores single bytes into a DirEntry's name")


@rule("HN1", ["C16", "C05"], floor=2,
      doc="the next-free hint only ever moves to a cluster that was just freed: in free_cluster_chain and truncate_cluster_chain every value stored into next_free_cluster is built from the old hint and the cluster whose FAT entry the same walk has just set to EMPTY - never from the chain's start argument or another number (cluster 0 of an empty file is not a cluster of the volume; the FSInfo hint must be 0xFFFFFFFF or a cluster inside it)")
def hn1(F, R):
    n = 0
    for name in ("free_cluster_chain", "truncate_cluster_chain"):
        fn = F.fn(FATVOL + "::" + name)
        freed = []
        for b, t in fn.calls():
            if call_matches(t, ("FatVolume::update_fat",)):
                val = fn.term_of_operand(t["args"][3], b)
                if is_cluster_const(None, val, "EMPTY"):
                    freed.append((b, strip_refs(fn.term_of_operand(t["args"][2], b))))
        for b, i, s_ in fn.stmts():
            if s_["k"] != "Assign" or not s_["p"]["proj"]:
                continue
            dst = fn.term_of_place(s_["p"])
            if "next_free_cluster" not in tstr(dst):
                continue
            n += 1
            v = fn.term_of_rvalue(s_["rv"], b)
            # leaves of the stored value: old hint payloads and cluster terms (one level of local definitions looked through)
            leaves, work, seen = [], [v], set()
            while work:
                x = strip_refs(work.pop())
                if x[0] == "var" and x[1] not in seen and not any(x == f_[1] for f_ in freed):
                    seen.add(x[1])
                    ds = var_def_terms(fn, x[1])
                    if ds:
                        work += ds
                        continue
                if x[0] in ("var", "arg") or (x[0] == "place" and strip_refs(x[1])[0] in ("var", "arg")):
                    leaves.append(x)
                elif x[0] in ("agg",):
                    work += list(x[3])
                elif x[0] == "call":
                    if x[1] and path_matches(x[1], "FatVolume::next_cluster"):
                        continue            # a link read from the chain being released: a cluster of that chain (freed by this walk)
                    work += list(x[2])
                elif x[0] in ("bin",):
                    work += [x[2], x[3]]
                elif x[0] == "place":
                    work.append(x[1])
            bad = []
            for l_ in leaves:
                if "next_free_cluster" in tstr(l_):
                    continue
                root = l_
                while root[0] == "place":
                    root = strip_refs(root[1])
                if any(root == f_[1] or l_ == f_[1] for f_ in freed):
                    continue
                bad.append(tstr(l_)[:40])
            R.require(not bad and bool(freed), fn, name + ":hint-source", "the next-free hint is set from %s, which is not the cluster this walk has just freed: for a chain that frees nothing (an empty file's start cluster 0) the hint leaves the volume" % (bad or "nothing freed"), fn.loc(b, i))
    R.require(n >= 2, None, "sites", "expected the hint to be lowered in free_cluster_chain and truncate_cluster_chain, found %d stores" % n)


@rule("EN1", ["C06", "C03", "C02"], floor=2,
      doc="slot classification depends on the first name byte only: OnDiskDirEntry::is_end() is exactly data[0] == 0x00 and is_valid() exactly data[0] not in {0x00, 0xE5}, for every value of that byte and whatever the other 31 bytes hold (evaluated for all 256 values with the rest of the slot unknown) - listing, lookup, delete and the free-slot search all stop / skip / reuse slots by these two predicates")
def en1(F, R):
    from .absint import Interp, State, Undecided
    from .absval import const, sym_int, arr, ptr, is_int, int_const
    adt = "fat::ondiskdirentry::OnDiskDirEntry"
    for name, spec_ in (("is_end", lambda v: v == 0), ("is_valid", lambda v: v not in (0, 0xE5))):
        fn = F.fn(adt + "::" + name)
        bad = None
        try:
            for v in range(256):
                I = Interp(F, mode="bv", max_paths=200)
                st = State()
                bytes_ = [const(v, 8)] + [sym_int(I.vars, "d%d" % k, 8) for k in range(1, 32)]
                cell = I.heap_alloc(st, arr(bytes_))
                A = F.adts[adt]
                fs = [ptr(cell[1], cell[2], (), (const(0, 64), const(32, 64))) if f["name"] == "data" else None for f in A["variants"][0]["fields"]]
                from .absval import agg as _agg, TOP
                self_p = I.heap_alloc(st, _agg("struct", adt, 0, [x if x is not None else TOP for x in fs]))
                outs = I.run(fn, [self_p], st, 0)
                got = sorted({int_const(rv) if is_int(rv) else None for rv, _s in outs}, key=str)
                if got != [int(spec_(v))]:
                    bad = "for first byte %#04x (other bytes arbitrary) %s() answers %s, expected %s" % (v, name, got, spec_(v))
                    break
        except Undecided as e:
            bad = "cannot evaluate: %s" % e
        R.require(bad is None, fn, name, "%s must look at the first name byte only: %s" % (name, bad), fn.loc(0))


@rule("FS1", ["C04", "C05", "C03", "C01"], floor=2,
      doc="the free-cluster scan examines the entry of the cluster it counts: in find_next_free_cluster every FAT entry is read from the block at a byte offset that starts, for each block, at (cluster * width) % 512 of the cluster the scan stands on - as an index that begins there and moves on by the width, or as chunks of the block *from that offset on*; a scan over the whole block from byte 0 reads the entries of other clusters and hands out clusters that are in use")
def fs1(F, R):
    from .rules_walk import slice_window
    from .mir import success_value
    fn = F.fn(FATVOL + "::find_next_free_cluster")
    # (each read is judged in the function as it is for the FAT type it belongs to: the entry width may be a per-type variable)
    from .rules_fs import fat_views
    fn0 = fn
    reads = [(fv, b, t) for arm_, fv in sorted(fat_views(fn0).items()) for b, t in fv.calls() if (callee_of(t) or "").split("::")[-1] in ("read_u16", "read_u32", "from_le_bytes")]
    R.require(len(reads) >= 2, fn0, "reads", "expected the FAT16 and the FAT32 entry read in find_next_free_cluster, found %d" % len(reads), fn.loc(0))

    def starts_at_entry(fn, t_, width, depth=0):
        """t_ (a byte offset) is, or starts as, (cluster.0 * width) % 512"""
        t0 = strip_refs(t_)
        for _k in range(12):            # conversions and their success payloads are transparent
            if t0[0] == "place" and len(t0[2]) >= 2 and t0[2][0] in ("as:Continue", "as:Ok", "as:Some") and t0[2][1] == "0" and len(t0[2]) == 2:
                t0 = strip_refs(t0[1])
            elif t0[0] == "call" and t0[1] and t0[1].split("::")[-1] in ("branch", "map_err", "try_from", "try_into", "from", "into", "ok_or", "ok", "unwrap", "expect") and t0[2]:
                t0 = strip_refs(t0[2][0])
            elif t0[0] == "cast":
                t0 = strip_refs(t0[2])
            else:
                break
        if t0[0] == "bin" and t0[1] == "Rem" and strip_refs(t0[3])[:2] == ("c", 512):
            m = strip_refs(t0[2])
            return m[0] == "bin" and m[1] == "Mul" and strip_refs(m[3])[:2] == ("c", width) and "0" in [e for e in (strip_refs(m[2])[2] if strip_refs(m[2])[0] == "place" else ())]
        if t0[0] == "var" and depth < 4:
            ds = var_def_terms(fn, t0[1])
            inits = [d for d in ds if not (strip_refs(d)[0] == "bin" and strip_refs(d)[1] == "Add" and strip_refs(strip_refs(d)[2]) == t0)]
            steps = [d for d in ds if d not in inits]
            return len(inits) == 1 and starts_at_entry(fn, inits[0], width, depth + 1) and all(strip_refs(d)[3][:2] == ("c", width) for d in steps)
        return False
    for fn, b, t in reads:
        nm = (callee_of(t) or "").split("::")[-1]
        width = 2 if nm == "read_u16" or "u16" in t.get("callee_full", "").split("::from_le_bytes")[0][-6:] else 4
        a = fn.term_of_operand(t["args"][0], b)
        w = slice_window(a)
        start = None
        if w is not None:
            start = w[1]
        else:
            # an item of chunks_exact(width) over a window of the block
            a0 = strip_refs(a)
            while a0[0] == "place" and a0[1][0] != "call":
                a0 = strip_refs(a0[1])
            nx = a0[1] if a0[0] == "place" else a0
            if nx[0] == "call" and (nx[1] or "").endswith("Iterator::next"):
                itv = strip_refs(nx[2][0])
                for d in (var_def_terms(fn, itv[1]) if itv[0] == "var" else [itv]):
                    for q in subterms(d):
                        if q[0] == "call" and q[1] and q[1].endswith(("chunks_exact", "chunks")) and len(q[2]) == 2:
                            w2 = slice_window(q[2][0])
                            start = w2[1] if w2 is not None else ("c", 0, None)
        # the sector that is read is the one that holds the entry of the cluster the scan stands on: its number is worked out
        # inside the scan (from the current cluster), not once before it
        for rb_, rt_ in fn.calls():
            if call_matches(rt_, ("BlockCache::read",)):
                ix_ = strip_refs(fn.term_of_operand(rt_["args"][1], rb_))
                loops_ = [l_ for l_ in fn.loops() if rb_ in l_[1]]
                if loops_:
                    outer_ = max(loops_, key=lambda l_: len(l_[1]))
                    if ix_[0] == "var":
                        stale_ = [d_ for d_ in fn.defs().get(ix_[1], []) if d_[0] in ("assign", "call") and d_[1] not in outer_[1]]
                    elif ix_[0] == "call" and isinstance(ix_[3], int):
                        stale_ = [ix_] if ix_[3] not in outer_[1] else []        # (a single-definition local resolves to its defining call: where that call is made)
                    else:
                        stale_ = []
                    R.require(not stale_, fn0, "sector-of-current-cluster:%d" % width, "the FAT sector read inside the scan loop is computed before the loop: after the first sector the scan tests that sector again while counting the next sector's clusters", fn.loc(rb_))
        ok = start is not None and starts_at_entry(fn, start, width)
        R.require(ok, fn0, "entry-of-cluster:%d" % width, "the %d-byte FAT entries the scan tests are not read from (cluster * %d) %% 512 of the block onwards (start: %s): the scan tests entries of other clusters than the one it counts" % (width, width, tstr(start)[:80] if start is not None else None), fn.loc(b))


@rule("WE1", ["C10", "C09", "C02"], floor=1,
      doc="an entry that is to be persisted is persisted: every way through FatVolume::write_entry_to_disk passes its write_back, except along the failure edge of one of its calls (the cache read, the offset conversion, the write-back itself) - it has no refusal of its own (a range check on the slot offset, a 'nothing changed' shortcut), which would leave a flushed file or a new directory with a stale entry")
def we1(F, R):
    from .ev import failure_edges
    fn = F.fn(FATVOL + "::write_entry_to_disk")
    wbs = [b for b, t in fn.calls() if call_matches(t, ("BlockCache::write_back", "BlockCache::write_back_with_duplicate"))]
    R.require(len(wbs) >= 1, fn, "anchor", "write_entry_to_disk has no write_back call", fn.loc(0))
    cut = []
    for b, t in fn.calls():
        if not is_log_call(t):
            cut += failure_edges(fn, b)
    around = fn.reach([0], cut_edges=cut, cut_blocks=wbs)
    rets = [rb for rb in around if fn.term(rb)["k"] == "Return"]
    R.require(not rets, fn, "no-own-refusal", "write_entry_to_disk can return without writing the entry back and without any of its calls having failed (a refusal / shortcut of its own)", fn.loc(0))


@rule("HN2", ["C16", "C05"], floor=3,
      doc="a stale hint is always replaced: (i) every successful alloc_cluster stores a fresh next_free_cluster (no 'the old hint is still ahead' shortcut - the hint read at mount may lie outside the volume and must not survive the first allocation); (ii) in free_cluster_chain / truncate_cluster_chain the only condition on the hint itself under which it is lowered to a freed cluster is `hint > freed cluster` (no range test on the old hint, which would keep an out-of-range one)")
def hn2(F, R):
    from .ev import cmp_forms
    is_hint_place = lambda q: q[0] == "place" and "next_free_cluster" in [e for e in q[2] if isinstance(e, str)]
    fn = F.fn(FATVOL + "::alloc_cluster")
    stores = [b for b, i, s_ in fn.stmts() if s_["k"] == "Assign" and s_["p"]["proj"] and [e[2] for e in s_["p"]["proj"] if e[0] == "field"][-1:] == ["next_free_cluster"]]
    R.require(bool(stores), fn, "alloc:hint-store", "alloc_cluster never stores next_free_cluster", fn.loc(0))
    around = fn.reach([0], cut_blocks=stores)
    leak = [x for x in ok_returns(fn) if x[0] in around]
    R.require(not leak, fn, "alloc:hint-always-refreshed", "alloc_cluster can return Ok without storing a fresh next_free_cluster: a hint that was out of range (or stale) when the volume was mounted survives allocations and is written back to the FSInfo sector", fn.loc(leak[0][0], leak[0][1]) if leak else fn.loc(0))
    for name in ("free_cluster_chain", "truncate_cluster_chain"):
        fn = F.fn(FATVOL + "::" + name)
        for b, i, s_ in fn.stmts():
            if not (s_["k"] == "Assign" and s_["p"]["proj"]):
                continue
            dst = fn.term_of_place(s_["p"])
            if "next_free_cluster" not in tstr(dst):
                continue
            extra = []
            for (gb, gi, g) in all_guards(fn):
                if not fn.unreachable_without(b, [(gb, gi)]):
                    continue
                forms = cmp_forms(g)
                if not forms or not any(has_sub(a_, is_hint_place) or has_sub(b_, is_hint_place) for (op, a_, b_, t_) in forms):
                    continue
                ok_form = any(op == "Gt" and t_ and has_sub(a_, is_hint_place) and not has_sub(b_, is_hint_place) and not has_sub(b_, lambda q: q[0] == "place" and "cluster_count" in [e for e in q[2] if isinstance(e, str)]) for (op, a_, b_, t_) in forms)
                if not ok_form:
                    extra.append(repr(g)[:70])
            R.require(not extra, fn, name + ":hint-lowered-unconditionally", "%s lowers the next-free hint to a freed cluster only under a further condition on the old hint (%s): an out-of-range hint read at mount is then never repaired" % (name, extra), fn.loc(b, i))


@rule("FO2", ["C07", "C08"], floor=2,
      doc="'already open' is decided by position only: every Err(FileAlreadyOpen) of the volume manager lies behind a true answer of file_is_open(volume, &dir_entry) for the entry the name lookup returned - a refusal by name, by first cluster or from the handle table alone would refuse a different file (same 8.3 name in another directory, another empty file)")
def fo2(F, R):
    n = 0
    for fn in F.fns:
        if not fn.npath.startswith("volume_mgr::") or fn.npath.startswith("volume_mgr::tests") or fn.kind == "Closure":
            continue
        for (b, i, vname, v) in err_returns(fn, adt="Error"):
            if vname != "FileAlreadyOpen":
                continue
            n += 1
            ok, _ = guarded(fn, b, g_call("file_is_open", True))
            if not ok:
                from .ev import implying_edges
                ok = fn.unreachable_without(b, list(implying_edges(fn, g_call("file_is_open", True))))
            R.require(ok, fn, "refused-only-by-position", "Err(FileAlreadyOpen) is reachable without file_is_open() having answered true for the looked-up entry", fn.loc(b, i))
    R.require(n >= 2, None, "sites", "expected the FileAlreadyOpen refusals of open_file_in_dir and delete_file_in_dir (2), found %d" % n)


@rule("SL1", ["C09", "C06", "C02", "C03"], floor=1,
      doc="a slot number numbers all slots: wherever the FAT code enumerates the 32-byte slots of a directory block (`chunks_exact(32).enumerate()`: the index times 32 becomes an entry's recorded offset / the byte that is overwritten) the enumerate runs directly over chunks_exact - no filter / skip / rev / step_by in between, which would number only some slots and make every offset behind the first dropped slot point at another file's entry")
def sl1(F, R):
    n = 0
    for fn in F.fns:
        if not fn.npath.startswith("fat::volume::") or fn.npath.startswith("fat::volume::test"):
            continue
        for b, t in fn.calls():
            if not (callee_of(t) or "").endswith("Iterator::enumerate") or not t["args"]:
                continue
            a = strip_refs(fn.term_of_operand(t["args"][0], b))
            if not has_sub(a, lambda q: q[0] == "call" and q[1] and q[1].endswith("chunks_exact")):
                continue
            n += 1
            x = a
            # (adaptors that hand every element on, one for one, do not disturb the numbering)
            while x[0] == "call" and x[1] and x[1].split("::")[-1] in ("into_iter", "map", "inspect", "copied", "cloned", "by_ref", "peekable") and x[2]:
                x = strip_refs(x[2][0])
            direct = x[0] == "call" and x[1] and x[1].endswith("chunks_exact")
            R.require(direct, fn, "slots-all-numbered", "enumerate() runs over %s, not directly over chunks_exact(): the index no longer numbers every 32-byte slot of the block, so index * 32 is not the slot's offset" % tstr(a)[:90], fn.loc(b),
                      okdetail="enumerate(chunks_exact(..))")
    R.ok(None, "note", "%d slot enumerations in fat::volume" % n)


@rule("LS8", ["C06"], floor=2,
      doc="a listing ends only where the directory ends: every Ok return of iterate_fat16 / iterate_fat32 lies behind the end-of-directory marker (is_end() true), behind the exhaustion of the cluster walk (the cursor Option is None / next_cluster answered EndOfFile) or behind the ROOT_DIR test of the fixed FAT16 root - not behind a slot or block budget of its own, which would cut long directories short while lookups still find the entries behind the cut")
def ls8(F, R):
    for wn in ("iterate_fat16", "iterate_fat32"):
        fn = F.fn(FATVOL + "::" + wn)
        oks = ok_returns(fn)
        R.require(bool(oks), fn, wn + ":anchor", "no Ok return found", fn.loc(0))

        def ends_walk(g):
            if g.kind == "bool" and g.truth is True and g.term[0] == "call" and g.term[1] and g.term[1].endswith("::is_end"):
                return True
            if g.kind == "variant" and g.variant == "None":
                return True                                     # the `while let Some(cluster) = current_cluster` exit (or a next() of the block range: followed by the cluster step)
            if g.kind == "variant" and g.variant == "EndOfFile" and has_sub(g.term, lambda q: q[0] == "call" and q[1] and path_matches(q[1], "FatVolume::next_cluster")):
                return True
            return False
        for (b, i, v) in oks:
            ok, _ = guarded(fn, b, ends_walk)
            if not ok:
                # FAT16 fixed root: one pass, ended by the ROOT_DIR test
                ok, _ = guarded(fn, b, lambda g: has_sub(g.term, lambda q: q[0] == "c" and q[2] and str(q[2]).endswith("ROOT_DIR")))
            R.require(ok, fn, wn + ":ends-at-the-end", "%s can return Ok(()) - 'listing complete' - on a path that has neither seen the end-of-directory marker nor exhausted the directory's cluster chain" % wn, fn.loc(b, i))


@rule("FD1", ["C01", "C02", "C09"], floor=6,
      doc="every find_data_on_disk call of the volume manager is handed the open file's own record: restart point = its entry.cluster (the file's first cluster - the walk restarts there when the position moves backwards), target = its current_offset, cursor = a copy of its current_cluster; a different cluster as restart point makes a backward seek resolve relative to the wrong cluster and the data land in another cluster of the chain")
def fd1(F, R):
    def fields_of(fn, t_, depth=0):
        """the named fields a value is read through, following plain copies"""
        t_ = strip_refs(t_)
        if t_[0] == "var" and depth < 4:
            ds = var_def_terms(fn, t_[1])
            if len(ds) == 1:
                return fields_of(fn, ds[0], depth + 1)
            return None
        if t_[0] == "place":
            inner = fields_of(fn, t_[1], depth + 1) or []
            return inner + [e for e in t_[2] if isinstance(e, str) and e != "*"]
        if t_[0] == "call" and t_[1] and t_[1].split("::")[-1] in ("deref", "deref_mut", "index", "index_mut") and t_[2]:
            return fields_of(fn, t_[2][0], depth + 1)
        return []
    n = 0
    for fn in F.fns:
        if not fn.npath.startswith(VM + "::") or fn.kind == "Closure":
            continue
        for b, t in fn.calls():
            if not call_matches(t, ("find_data_on_disk",)) or len(t["args"]) != 5:
                continue
            n += 1
            fs3 = fields_of(fn, fn.term_of_operand(t["args"][3], b))
            R.require(fs3 is not None and "open_files" in fs3 and fs3[-2:] == ["entry", "cluster"], fn, "restart=file-start", "find_data_on_disk is given %s as the file's first cluster (the restart point of a backward seek); it must be the open file's entry.cluster" % tstr(fn.term_of_operand(t["args"][3], b))[-80:], fn.loc(b))
            fs4 = fields_of(fn, fn.term_of_operand(t["args"][4], b))
            R.require(fs4 is not None and "open_files" in fs4 and fs4[-1:] == ["current_offset"], fn, "target=current_offset", "find_data_on_disk is asked for %s; it must be the open file's current_offset" % tstr(fn.term_of_operand(t["args"][4], b))[-80:], fn.loc(b))
            cur = strip_refs(fn.term_of_operand(t["args"][2], b))
            okc = False
            if cur[0] == "var":
                ds = [fields_of(fn, d) for d in var_def_terms(fn, cur[1])]
                okc = bool(ds) and all(d is not None and "open_files" in d and d[-1:] == ["current_cluster"] for d in ds)
            R.require(okc, fn, "cursor=current_cluster", "the cursor handed to find_data_on_disk is not a copy of the open file's current_cluster", fn.loc(b))
    R.require(n >= 3, None, "sites", "expected the find_data_on_disk calls of read and write (3), found %d" % n)


@rule("FC2", ["C04", "C05", "C03"], floor=2,
      doc="the chain the volume manager frees is the looked-up file's: every free_cluster_chain / truncate_cluster_chain call of volume_mgr is handed the `.cluster` of the directory entry that find_directory_entry returned for the name (directly, or through the FileInfo built from it) - not the cluster of the directory the file lives in, of an open handle, or a constant; freeing any other chain marks clusters of a live file or directory as free")
def fc2(F, R):
    from .dataflow import derives_from_call
    n = 0
    for fn in F.fns:
        if not fn.npath.startswith("volume_mgr::") or fn.npath.startswith("volume_mgr::tests") or fn.kind == "Closure":
            continue
        for b, t in fn.calls():
            if not call_matches(t, ("FatVolume::free_cluster_chain", "FatVolume::truncate_cluster_chain")) or len(t["args"]) < 3:
                continue
            n += 1
            a = fn.term_of_operand(t["args"][2], b)
            sa = strip_refs(a)
            for _k in range(3):         # `let first = dir_entry.cluster; free_cluster_chain(.., first)`
                if sa[0] == "var":
                    ds_ = var_def_terms(fn, sa[1])
                    if len(ds_) != 1:
                        break
                    a = ds_[0]
                    sa = strip_refs(a)
            is_cluster_field = sa[0] == "place" and [e for e in sa[2] if isinstance(e, str) and e != "*"][-1:] == ["cluster"]
            through_dir_table = has_sub(a, lambda q: q[0] == "place" and "open_dirs" in [e for e in q[2] if isinstance(e, str)]) and not has_sub(a, lambda q: q[0] == "call" and q[1] and path_matches(q[1], "FatVolume::find_directory_entry"))
            ok = is_cluster_field and not through_dir_table and derives_from_call(fn, a, ("FatVolume::find_directory_entry",))
            R.require(ok, fn, "freed-chain=looked-up-entry", "%s is handed %s; it must be the first cluster of the directory entry the name lookup returned" % ((callee_of(t) or "").split("::")[-1], tstr(a)[-90:]), fn.loc(b))
    R.require(n >= 2, None, "sites", "expected the chain-freeing calls of delete_file_in_dir and of the truncating open (2), found %d" % n)
    # ... and nobody else releases chains: inside the FAT layer no function (other than the two releasing ones themselves)
    # calls free_cluster_chain / truncate_cluster_chain - a chain is given back only for an entry the manager looked up by
    # name and was asked to delete / truncate (an entry writer that "tidies up" a chain a stale slot names releases clusters
    # that belong to another, flushed file by now)
    for fn in F.fns:
        if not fn.npath.startswith("fat::") or "::tests" in fn.npath:
            continue
        owner = fn.npath if fn.kind != "Closure" else fn.npath.rsplit("::{closure", 1)[0]
        if owner.endswith("::free_cluster_chain") or owner.endswith("::truncate_cluster_chain"):
            continue
        for b, t in fn.calls():
            if call_matches(t, ("FatVolume::free_cluster_chain", "FatVolume::truncate_cluster_chain")):
                R.bad(fn, "no-release-below-the-manager", "%s releases a cluster chain by itself (%s): chains are given back only for the entry a delete / truncating open looked up by name" % (owner.split("::")[-1], (callee_of(t) or "").split("::")[-1]), fn.loc(b))


@rule("TB1", ["C04", "C02", "C06", "C03"], floor=3,
      doc="delete marks exactly the matched slot: delete_entry_in_block stores the 0xE5 tombstone once, at byte i*32 of the block (or byte 0 of the chunk) for the very slot whose name comparison matched, where i numbers *all* 32-byte slots of the block (the enumerate runs directly over chunks_exact(32): no filter / skip / rev in between shifts the numbering); no second store marks a neighbouring slot")
def tb1(F, R):
    from .poly import peq, MUL, C
    fn = F.fn(FATVOL + "::delete_entry_in_block")
    stores = []
    for b, i, s_ in fn.stmts():
        if s_["k"] == "Assign" and s_["p"]["proj"] and any(e[0] in ("index", "cidx") for e in s_["p"]["proj"]):
            v = fn.term_of_rvalue(s_["rv"], b)
            stores.append((b, i, s_, v))
    tomb = [x for x in stores if x[3][:2] == ("c", 0xE5)]
    R.require(len(tomb) == 1 and len(stores) == 1, fn, "one-store", "delete_entry_in_block must change exactly one byte of the block (the 0xE5 mark of the matched slot); found %d byte stores, %d of them 0xE5" % (len(stores), len(tomb)), fn.loc(stores[0][0], stores[0][1]) if stores else fn.loc(0))
    nx = [(b, t) for b, t in fn.calls() if (callee_of(t) or "").endswith("Iterator::next")]
    R.require(len(nx) == 1, fn, "scan", "expected one scan over the block's slots", fn.loc(0))
    if len(nx) != 1 or len(tomb) != 1:
        return
    nb, nt = nx[0]
    item = ("place", fn.call_term(nt, nb), ("as:Some", "0"))
    # the iterator: enumerate(chunks_exact(_mut)(block, 32)), nothing in between
    itv = strip_refs(fn.term_of_operand(nt["args"][0], nb))
    defs = var_def_terms(fn, itv[1]) if itv[0] == "var" else [itv]
    shape = False
    bare = False        # the scan runs over the chunks themselves (no index): the mark then goes through the chunk
    for d in defs:
        d = strip_refs(d)
        while d[0] == "call" and d[1] and d[1].endswith("into_iter") and d[2]:
            d = strip_refs(d[2][0])
        if d[0] == "call" and d[1] and d[1].endswith("Iterator::enumerate") and d[2]:
            inner = strip_refs(d[2][0])
            if inner[0] == "call" and inner[1] and inner[1].endswith(("chunks_exact_mut", "chunks_exact")) and len(inner[2]) == 2 and inner[2][1][:2] == ("c", 32):
                shape = True
        elif d[0] == "call" and d[1] and d[1].endswith(("chunks_exact_mut", "chunks_exact")) and len(d[2]) == 2 and d[2][1][:2] == ("c", 32):
            shape = bare = True
    R.require(shape and len(defs) == 1, fn, "slot-numbering", "the slot index used for the mark must number all 32-byte slots of the block: enumerate() directly over chunks_exact(32) - a filter / skip / rev in between makes the mark land on another entry", fn.loc(nb))
    b, i, s_, v = tomb[0]
    # where: block[i * 32] with i the scan's own index, or item.1[0]
    pj = s_["p"]["proj"]
    okpos = False
    idx = [e for e in pj if e[0] == "index"]
    if len(idx) == 1:
        it = fn._local_term(idx[0][1], 0)
        i_term = ("place", item[1], ("as:Some", "0", "0"))
        okpos = peq(it, MUL(i_term, C(32)))
    cidx = [e for e in pj if e[0] == "cidx"]
    if len(cidx) == 1 and cidx[0][1] == 0 and not cidx[0][3]:
        base = strip_refs(fn._local_term(s_["p"]["l"], 0))
        okpos = has_sub(base, lambda q: q == item[1])
    if bare:
        # no slot index exists: the only correct mark is byte 0 of the scan's own chunk (`chunk[0] = 0xE5`)
        base = strip_refs(fn._local_term(s_["p"]["l"], 0))
        through_chunk = base == item or has_sub(base, lambda q: q == item)
        if len(idx) == 1:
            okpos = through_chunk and fn._local_term(idx[0][1], 0)[:2] == ("c", 0)
        else:
            okpos = okpos and through_chunk
    R.require(okpos, fn, "position", "the 0xE5 mark must go to byte i*32 of the block for the scan's own slot index i", fn.loc(b, i))
    # for the slot that matched
    from .ev import guarded_through
    okm = guarded_through(fn, b, lambda g: g.kind == "bool" and g.truth is True and g.term[0] == "call" and g.term[1] and g.term[1].endswith("OnDiskDirEntry::matches") and has_sub(g.term, lambda q: q == item[1]))
    R.require(okm, fn, "matched-slot", "the mark is stored without matches(name) having answered true for this slot", fn.loc(b, i))


@rule("BM2", ["C04", "C03", "C06", "C09"], floor=10,
      doc="block mutation inventory: inside the FS layer the bytes of a block held mutably (directory, FAT, FSInfo, data) are changed only by the listed functions and only in the listed way - write_new_directory_entry and write_entry_to_disk copy one serialized entry, delete_entry_in_block stores the 0xE5 tombstone, update_fat writes one FAT entry, update_info_sector copies the two FSInfo fields, make_dir copies '.' and '..', write()/read() copy the caller's bytes; any other store or mutating call on such a block (e.g. 'terminating' the directory behind a new entry, patching a neighbouring slot) is a violation; in write_new_directory_entry the copied bytes are DirEntry::serialize(..) and the destination is the slot the scan found free")
def bm2(F, R):
    seen = set()
    for fn in F.fns:
        if not fn.npath.startswith(("fat::volume::", "volume_mgr::")) or "::test" in fn.npath or "::tests" in fn.npath:
            continue
        muts = block_mutations(fn)
        if not muts:
            continue
        owner = fn.npath.split("::{closure")[0]
        allowed = BLOCK_MUTATORS.get(owner)
        for (b, kind, v) in muts:
            if allowed is None:
                R.bad(fn, "mutator:" + owner.split("::")[-1], "%s changes the bytes of a block (%s) but is not one of the functions that may" % (owner.split("::")[-1], kind), fn.loc(b))
            else:
                seen.add(owner)
                R.require(kind in allowed, fn, "%s:%s" % (owner.split("::")[-1], kind), "%s changes a block by `%s` (%s); it may only use %s - a byte outside the entry / field this function is about is modified" % (owner.split("::")[-1], kind, tstr(v)[:80], sorted(allowed)), fn.loc(b))
    R.require(seen >= set(BLOCK_MUTATORS), None, "mutators-found", "expected block mutations in %s" % sorted(x.split("::")[-1] for x in set(BLOCK_MUTATORS) - seen))
    # the new entry goes into the slot found free, and what goes there is the serialized entry
    fn = F.fn(FATVOL + "::write_new_directory_entry")
    for (b, kind, v) in block_mutations(fn):
        if kind != "copy_from_slice":
            continue
        dst, src = strip_refs(v[2][0]), v[2][1]
        R.require(has_sub(src, lambda q: q[0] == "call" and q[1] and q[1].endswith("DirEntry::serialize")), fn, "new-entry:bytes", "the bytes copied into the directory are not DirEntry::serialize(..)", fn.loc(b))
        from .rules_walk import free_slot_of
        R.require(free_slot_of(F, fn, b, v[2][0]) is not None, fn, "new-entry:slot", "the new entry must be copied into the slot the scan found free (the loop item under !is_valid())", fn.loc(b))


@rule("RD2", ["C03", "C06", "C01"], floor=2,
      doc="the root directory is always opened as the sentinel ClusterId::ROOT_DIR: every DirectoryInfo pushed by open_root_dir has cluster == ROOT_DIR (never the FAT32 root's real start cluster) - make_dir's '..' = 0 for children of the root, cluster_to_block's root mapping, the fixed FAT16 root and get_entry's cluster-0 mapping all recognise the root by this one value")
def rd2(F, R):
    from .fsmodel import table_of_term
    fn = F.fn(VM + "::open_root_dir")
    root = None
    for k, c in F.consts.items():
        if k.endswith("ClusterId::ROOT_DIR"):
            root = c
    pushes = [(b, t) for b, t in fn.calls() if call_matches(t, ("Vec::push", "Vec::push_unchecked")) and table_of_term(fn.term_of_operand(t["args"][0], b)) == "open_dirs"]
    R.require(len(pushes) >= 1 and root is not None, fn, "push", "open_root_dir must push a DirectoryInfo into open_dirs", fn.loc(0))
    flds = [f["name"] for f in F.adts["filesystem::directory::DirectoryInfo"]["variants"][0]["fields"]]
    for b, t in pushes:
        v = strip_refs(fn.term_of_operand(t["args"][1], b))
        alts = [v] if v[0] != "var" else [strip_refs(d) for d in var_def_terms(fn, v[1])]
        ok = bool(alts)
        got = []
        for a in alts:
            if not (a[0] == "agg" and a[2] and a[2].endswith("DirectoryInfo")):
                ok = False
                continue
            cl = strip_refs(a[3][flds.index("cluster")])
            cls = [cl] if cl[0] != "var" else [strip_refs(d) for d in var_def_terms(fn, cl[1])]
            for c in cls:
                got.append(tstr(c))
                if not (is_cluster_const(None, c, "ROOT_DIR")):
                    ok = False
        R.require(ok, fn, "sentinel", "open_root_dir opens %s; the root directory must be opened as the sentinel ClusterId::ROOT_DIR on both FAT types (a child's '..' entry, the FAT16 fixed root and the cluster mapping all key on it)" % sorted(set(got)), fn.loc(b))


@rule("FC1", ["C05", "C03", "C02", "C04"], floor=5,
      doc="chain-freeing walks follow every link: in free_cluster_chain and truncate_cluster_chain, once next_cluster(cursor) has answered Ok(n) within a trip of the walk, the function cannot finish successfully without going round again - no Ok return is reachable from the Ok(n) edge except through the loop header (the successor carried in an Option local is followed through: Some(n) cannot take the later None arm) - and the cursor's next value is that n; so the walk ends only on EndOfFile or on the header's own range test, never on a 'suspicious' link (a fragmented chain steps backwards all the time)")
def fc1(F, R):
    from .ev import resolve_variant_temps
    for name in ("free_cluster_chain", "truncate_cluster_chain"):
        fn = F.fn(FATVOL + "::" + name)
        ncs = [(b, t) for b, t in fn.calls() if call_matches(t, ("FatVolume::next_cluster",)) and any(b in body for (h, body, backs) in fn.loops())]
        R.require(len(ncs) == 1, fn, name + ":walk", "expected one next_cluster call inside the freeing loop of %s" % name, fn.loc(0))
        if len(ncs) != 1:
            continue
        nb, nt = ncs[0]
        h, body, backs = min([l for l in fn.loops() if nb in l[1]], key=lambda l: len(l[1]))
        cur = strip_refs(fn.term_of_operand(nt["args"][2], nb))
        on_call = [(gb, gi, g) for (gb, gi, g) in all_guards(fn) if g.kind in ("variant", "variants") and g.term[0] == "call" and g.term[3] == nb]
        # the match on the lookup's answer itself (later switches on the same value are drop-flag bookkeeping behind it)
        first = [gb for (gb, gi, g) in on_call if not any(gb2 != gb and fn.dominates(gb2, gb) for (gb2, _i, _g) in on_call)]
        ok_edges = [(gb, gi) for (gb, gi, g) in on_call if g.kind == "variant" and g.variant == "Ok" and gb in first]
        cur = flat_place(cur)[0]            # the walk's variable: the cursor itself, or the Option / struct local it is taken from
        R.require(bool(ok_edges) and cur[0] == "var", fn, name + ":ok-arm", "the Ok(n) answer of next_cluster is not matched / the cursor is not a local", fn.loc(nb))
        for (gb, gi) in ok_edges:
            start = fn.succ(gb)[gi][0]
            cut = resolve_variant_temps(fn, [start], stop_blocks=[h])
            rs = fn.reach([start], cut_edges=cut, cut_blocks=[h])
            leaves = [x for x in ok_returns(fn) if x[0] in rs]
            R.require(not leaves, fn, name + ":follows-every-link", "%s can finish successfully right after next_cluster answered Ok(n): the rest of the chain stays allocated (lost clusters) although the entry that owned it is gone" % name, fn.loc(gb))
            # the cursor's new value is the successor just read
            defs = [d for d in fn.defs().get(cur[1], []) if d[1] in rs and d[0] == "assign"]
            def from_lookup(t, depth=0):
                t = strip_refs(t)
                if has_sub(t, lambda q: q[0] == "call" and q[3] == nb and q[1] and q[1].endswith("next_cluster")):
                    return True
                if depth < 4:
                    for q in subterms(t):
                        if q[0] == "var":
                            for d in fn.defs().get(q[1], []):
                                if d[0] == "assign" and d[1] in rs | {gb} and from_lookup(fn.term_of_rvalue(d[3], d[1]), depth + 1):
                                    return True
                                if d[0] == "call" and d[1] == nb:
                                    return True
                return False
            R.require(bool(defs) and all(from_lookup(fn.term_of_rvalue(d[3], d[1])) for d in defs), fn, name + ":cursor=successor", "after Ok(n) the walk's cursor is not set to n", fn.loc(gb))
    # free_cluster_chain follows links read from the medium: every cluster it frees has been compared with the end of the
    # cluster range *since the cursor last changed* (not only the chain's first cluster): a damaged link is never "freed"
    from .ev import cmp_forms
    from .poly import peq, ADD, C
    fn = F.fn(FATVOL + "::free_cluster_chain")
    ncs = [(b, t) for b, t in fn.calls() if call_matches(t, ("FatVolume::next_cluster",))]
    ups = [(b, t) for b, t in fn.calls() if call_matches(t, ("FatVolume::update_fat",))]
    if len(ncs) == 1 and ups:
        cur = strip_refs(fn.term_of_operand(ncs[0][1]["args"][2], ncs[0][0]))
        end = ADD(("place", ("arg", 1, "self"), ("*", "cluster_count")), C(2))

        curp = flat_place(cur)
        cur = curp[0]
        is_num = lambda a: flat_place(a) == (curp[0], curp[1] + ("0",))         # the cursor's cluster number

        def in_range_edge(g):
            for (op, a, z, truth) in cmp_forms(g):
                if op == "Lt" and truth and is_num(a) and peq(z, end):
                    return True
            if g.kind == "bool" and g.truth is True and g.term[0] == "call" and (g.term[1] or "").endswith("::contains"):
                r, x = strip_refs(g.term[2][0]), strip_refs(g.term[2][1])
                if r[0] == "agg" and len(r[3]) == 2 and peq(r[3][1], end) and is_num(x):
                    return True
            return False
        from .ev import implying_edges
        edges = list(implying_edges(fn, in_range_edge))
        okr = bool(edges) and cur[0] == "var"
        if okr:
            # the cluster number handed to update_fat has been compared since it was (last) defined: either the local that
            # carries it is the walk's variable (or a filtered view of it) and every path from its definitions crosses a
            # range edge, or all the locals it was copied from are so (`let Some(current) = pending.filter(..)`, after which
            # pending may move on while `current` is still the checked number)
            def about_cursor(l):
                t_ = fn._local_term(l, 0)
                for _k in range(4):
                    r_ = flat_place(t_)[0]
                    if r_ == cur:
                        return True
                    if r_[0] == "call" and r_[1] and r_[1].endswith(("Option::filter", "Option::inspect", "Option::take", "Option::copied", "Clone::clone")) and r_[2]:
                        t_ = r_[2][0]
                        continue
                    return False
                return False

            def checked(l, at, seen):
                if l in seen:
                    return False
                defs = fn.defs().get(l, [])
                if not defs:
                    return False
                if about_cursor(l) and all(at not in fn.reach([d[1]], cut_edges=edges) for d in defs):
                    return True
                for d in defs:
                    if d[0] != "assign":
                        return False
                    for p_ in rvalue_places(d[3]):
                        if not checked(p_["l"], d[1], seen | {l}):
                            return False
                return True
            for ub, ut in ups:
                op_ = ut["args"][2]
                if not (op_.get("p") and checked(op_["p"]["l"], ub, frozenset())):
                    okr = False
        R.require(okr, fn, "free_cluster_chain:range-per-link", "free_cluster_chain frees a cluster that was not compared with cluster_count + 2 since the cursor was set to it (only the first cluster of the chain is validated): a damaged link makes update_fat write outside the FAT", fn.loc(ups[0][0]))


@rule("FO1", ["C07", "C01", "C08"], floor=3,
      doc="one handle per file: VolumeManagerData::file_is_open answers true exactly when some open-file record has the same volume and the same directory-entry location (entry_block, entry_offset) - the true answer lies behind these three equalities and behind no other condition (no exemption by mode, size or handle), and false is answered only when the whole table has been scanned; every open / delete path consults it (MD3, MD8)")
def fo1(F, R):
    fn = F.fn(VMD + "::file_is_open")
    from .rules_guard import file_is_open_any_form
    af = file_is_open_any_form(F, fn)
    if af is not None:
        # `open_files.iter().any(|f| a && b && c)`: true iff some record satisfies the conjunction, false only after the whole scan
        R.require(af[0], fn, "answers", "file_is_open: %s" % af[1], fn.loc(0))
        R.require(af[2] == {"raw_volume", "entry_block", "entry_offset"}, fn, "true-iff-same-entry", "file_is_open compares %s; it must be exactly volume, entry block and entry offset" % sorted(af[2]), fn.loc(0))
        R.ok(fn, "match-is-final", "Iterator::any answers true at the first record that satisfies the predicate")
        return
    trues = [d[1] for d in fn.defs().get(0, []) if d[0] == "assign" and fn.term_of_rvalue(d[3], d[1])[:2] == ("c", 1)]
    falses = [d[1] for d in fn.defs().get(0, []) if d[0] == "assign" and fn.term_of_rvalue(d[3], d[1])[:2] == ("c", 0)]
    others = [d for d in fn.defs().get(0, []) if not (d[0] == "assign" and fn.term_of_rvalue(d[3], d[1])[0] == "c")]
    R.require(len(trues) >= 1 and len(falses) >= 1 and not others, fn, "answers", "file_is_open must answer with the constants true / false only", fn.loc(0))

    def field_eq(g, fields, truth=True):
        for (op, a, b, t) in __import__("analysis.ev", fromlist=["cmp_forms"]).cmp_forms(g):
            if op == "Eq" and t == truth:
                for x, y in ((a, b), (b, a)):
                    x, y = strip_refs(x), strip_refs(y)
                    if x[0] == "place" and [e for e in x[2] if isinstance(e, str) and e not in ("*", "0") and not e.startswith("as:")][-len(fields):] == list(fields) and has_sub(x, lambda q: q[0] == "call" and q[1] and q[1].endswith("Iterator::next")):
                        if y[0] in ("arg", "place") and (y[:2] == ("arg", 2) or (y[0] == "place" and strip_refs(y[1])[:2] == ("arg", 3) and [e for e in y[2] if isinstance(e, str) and e != "*"][-len(fields):] == list(fields)[-1:] * 1 or strip_refs(y)[:2] == ("arg", 2))):
                            return True
        return False
    want = {"volume": ("raw_volume",), "block": ("entry", "entry_block"), "offset": ("entry", "entry_offset")}
    for tb in trues:
        for k, flds in want.items():
            R.require(guarded(fn, tb, lambda g, flds=flds: field_eq(g, flds))[0], fn, "true-needs:" + k, "file_is_open can answer true without %s equality" % "/".join(flds), fn.loc(tb))
        extra = []
        for (gb, gi, g) in all_guards(fn):
            if not fn.unreachable_without(tb, [(gb, gi)]):
                continue
            if any(field_eq(g, flds) for flds in want.values()):
                continue
            if g.kind == "variant" and g.variant == "Some" and g.term[0] == "call" and (g.term[1] or "").endswith("Iterator::next"):
                continue
            extra.append(repr(g)[:80])
        R.require(not extra, fn, "true-iff-same-entry", "file_is_open answers true only under extra conditions (%s): some second open / delete of a file that is already open is let through" % "; ".join(extra), fn.loc(tb))
    # false only after the whole table was scanned
    for fb in falses:
        ok = guarded(fn, fb, lambda g: g.kind == "variant" and g.variant == "None" and g.term[0] == "call" and (g.term[1] or "").endswith("Iterator::next"))[0]
        R.require(ok, fn, "false-after-scan", "file_is_open can answer false before the scan of open_files is complete", fn.loc(fb))
    # and a record that matches cannot be skipped: from the edge where all three equalities hold, the next trip of the scan is not reachable
    eq_edges = [(gb, gi) for (gb, gi, g) in all_guards(fn) if field_eq(g, want["offset"])]
    nx = [b for b, t in fn.calls() if (callee_of(t) or "").endswith("Iterator::next")]
    for (gb, gi) in eq_edges:
        if guarded(fn, gb, lambda g: field_eq(g, want["volume"]))[0] and guarded(fn, gb, lambda g: field_eq(g, want["block"]))[0]:
            rs = fn.reach([fn.succ(gb)[gi][0]])
            R.require(not any(b in rs for b in nx) and not any(b in rs for b in falses), fn, "match-is-final", "a record with the same volume and entry location can be skipped (the scan goes on / answers false after it matched)", fn.loc(gb))


@rule("CV1", ["C11", "C08", "C16"], floor=2,
      doc="a failed close_volume leaves the volume open: the VolumeInfo is removed from open_volumes only after update_info_sector(..)? succeeded, and no error return is reachable after the removal - so a close that failed on a device fault can be retried on the same handle and the FSInfo record is still brought up to date")
def cv1(F, R):
    from .fsmodel import table_of_term
    fn = F.fn(VM + "::close_volume")
    rem = [b for b, t in fn.calls() if call_matches(t, ("Vec::swap_remove", "Vec::remove", "Vec::pop", "Vec::clear", "Vec::truncate", "Vec::retain")) and table_of_term(fn.term_of_operand(t["args"][0], b)) == "open_volumes"]
    upd = [b for b, t in fn.calls() if call_matches(t, ("FatVolume::update_info_sector",))]
    R.require(len(rem) == 1 and len(upd) >= 1, fn, "sites", "close_volume must bring the FSInfo record up to date and remove the volume from open_volumes", fn.loc(0))
    for b in rem:
        ok, _ = guarded(fn, b, g_try_ok("FatVolume::update_info_sector"))
        R.require(ok, fn, "remove-after-fsinfo", "the volume is removed from the table before / without update_info_sector having succeeded: a device error leaves the caller with a dead handle and a stale FSInfo record", fn.loc(b))
        after = fn.reach_after(b)
        late = [x for x in err_returns(fn) if x[0] in after] + [bb for bb, t in fn.calls() if bb in after and (callee_of(t) or "").endswith("FromResidual::from_residual")]
        R.require(not late, fn, "no-error-after-remove", "close_volume can still fail after it has removed the volume from the table", fn.loc(b))


@rule("AR1", ["C01", "C15"], floor=25,
      doc="no 32-bit product of two run-time quantities in the volume manager: every checked multiplication of volume_mgr has a constant factor (sizes and geometry values multiplied with each other - cluster_count * bytes_per_cluster and the like - exceed 32 bits on any volume of 4 GiB and more: a panic, or a wrapped limit that refuses valid files). The crate's other multiplications are listed as what was looked at; FatVolume::cluster_to_block's (cluster - 2) * blocks_per_cluster must be classified as such a product on every run (positive control; its range is CB1's and the mount checks' business)")
def ar1(F, R):
    def is_const(fn, o, b):
        if o["k"] == "const":
            return True
        t = strip_refs(fn.term_of_operand(o, b))
        while t[0] == "cast":
            t = strip_refs(t[2])
        return t[0] == "c"
    n = 0
    control = False
    for fn in F.fns:
        if "::tests" in fn.npath:
            continue
        for b in fn.live_blocks():
            t = fn.term(b)
            if t["k"] != "Assert" or t.get("kind") != "Overflow:Mul":
                continue
            n += 1
            var2 = not any(is_const(fn, o, b) for o in t["ops"])
            if fn.npath.endswith("FatVolume::cluster_to_block") and var2:
                control = True
            if fn.npath.startswith("volume_mgr::"):
                R.require(not var2, fn, "product", "%s * %s: a product of two run-time 32-bit quantities, which does not fit 32 bits on large volumes (4 GiB and more)" % tuple(tstr(fn.term_of_operand(o, b))[:60] for o in t["ops"]), fn.loc(b))
            else:
                R.ok(fn, "looked-at", "%s * %s" % tuple(tstr(fn.term_of_operand(o, b))[:40] for o in t["ops"]), fn.loc(b))
    R.require(control, None, "control", "positive control lost: (cluster - 2) * blocks_per_cluster in FatVolume::cluster_to_block is no longer recognised as a product of two run-time values")
    R.require(n >= 25, None, "sites", "expected >= 25 checked multiplications in the crate, found %d" % n)


@rule("OE1", ["C02", "C01"], floor=4,
      doc="what the medium holds can be opened: open_file_in_dir refuses no entry because of a valid combination of its length and first-cluster fields. For each own Err exit of open_file_in_dir the tests on the looked-up entry's .size and .cluster are decided for the valid combinations (0, none) (0, a cluster: what truncation leaves behind) (n, a cluster) (4 GiB - 1, a cluster) (n, the first data cluster); an Err exit that can be reached for one valid combination and not for another is a refusal that depends on those fields alone, i.e. a valid file this library wrote itself and any FAT reader lists cannot be opened any more")
def oe1(F, R):
    from .specialise import specialise_joint
    fn = F.fn(VM + "::open_file_in_dir")
    fields = lambda q: [e for e in q[2] if isinstance(e, str) and e != "*"] if q[0] == "place" else []
    is_size = lambda q: fields(q)[-1:] == ["size"]
    is_clu = lambda q: fields(q)[-2:] == ["cluster", "0"]
    used = [(gb, gi) for (gb, gi, g) in all_guards(fn) if has_sub(g.term, is_size) or has_sub(g.term, is_clu)]
    errs = err_returns(fn, adt="Error")
    R.require(len(errs) >= 3, fn, "sites", "expected the refusals of open_file_in_dir (at least 3 Err exits), found %d" % len(errs), fn.loc(0))
    combos = [(0, 0), (0, 5), (1, 5), (513, 5), (0xFFFFFFFF, 5), (100, 2), (0, 2), (70000, 0x0FFFFFF0)]
    reach = {}
    for (sz, cl) in combos:
        cut = specialise_joint(fn, [(is_size, sz), (is_clu, cl)]) if used else []
        reach[(sz, cl)] = fn.reach([0], cut_edges=cut)
    for x in errs:
        yes = [c for c in combos if x[0] in reach[c]]
        no = [c for c in combos if x[0] not in reach[c]]
        R.require(not (yes and no), fn, "refusal-by-length-or-cluster:%s" % x[2], "open_file_in_dir answers Err(%s) for an entry with (length, first cluster) = %s but not for %s: all of these are valid entries (an emptied file keeps its first cluster), the refusal makes files on the medium unreachable" % (x[2], yes[:3], no[:3]), fn.loc(x[0]))
