"""EF: error-fate analysis. For every call at which a device failure can surface, follow the Err value
through the MIR until the function returns and classify its fate."""
from collections import deque

from .mir import callee_of, path_matches, is_log_call, strip_generics, tstr
from .fsmodel import call_matches, FAT_MUTATORS, CACHE_MUTATORS, CACHE_LOADS

DEVICE_SOURCES = ("blockdevice::BlockDevice::read", "blockdevice::BlockDevice::write", "blockdevice::BlockDevice::num_blocks")

# idioms that keep the failure alive: callee suffix -> handler name
PASS = {
    "Try::branch": "branch",
    "FromResidual::from_residual": "residual",
    "From::from": "same",
    "Into::into": "same",
}


class Carrier:
    __slots__ = ("kind", "conv")

    def __init__(self, kind, conv=None):
        self.kind = kind  # 'res' | 'cf' | 'pay' | 'discr-res' | 'discr-cf' | 'discr-inner' | 'bool+' | 'bool-'
        self.conv = conv

    def key(self):
        return (self.kind, self.conv)


def _ret_kind(fn, b, s):
    if s["k"] == "Assign" and s["p"]["l"] == 0 and not s["p"]["proj"]:
        v = fn.term_of_rvalue(s["rv"], b)
        if v[0] == "agg" and v[2]:
            if v[2].endswith("Result::Ok"):
                return "Ok"
            if v[2].endswith("Result::Err"):
                inner = v[3][0]
                if inner[0] == "agg" and inner[2]:
                    return "Err:" + inner[2].split("::")[-1]
                return "Err:?"
            if v[2].endswith("Option::None"):
                return "None"
            if v[2].endswith("Option::Some"):
                return "Some"
        return "value"
    return None


class EF:
    def __init__(self, F, scope_prefixes, error_adt="Error", device_variant="DeviceError", io_names=None, adt_path=None):
        self.F = F
        self.scope = scope_prefixes
        self.error_adt = error_adt
        self.device_variant = device_variant
        self.variants = [v["name"] for v in F.adts[adt_path or error_adt]["variants"]]
        self.summ = {}  # fn npath -> set of outcomes
        self.sites = []  # (fn, block, callee, fv, fates, detail)
        self.unknown = []
        self.io_names = io_names or (FAT_MUTATORS + CACHE_MUTATORS + CACHE_LOADS)

    def in_scope(self, fn):
        # closures with a body of their own are analysed as the functions they are (acquire's handshake lives in one); what they
        # return to their caller is "propagated" as for any function
        return fn.npath.startswith(self.scope)

    # ---- closure analysis for map_err(|_| Error::V) -----------------------------------
    def closure_const_variant(self, term):
        if term[0] == "agg" and term[1] == "Closure":
            try:
                cf = self.F.closure(term[2])
            except KeyError:
                return None
            vals = [cf.term_of_rvalue(s["rv"], b) for b, i, s in cf.stmts() if s["k"] == "Assign" and s["p"]["l"] == 0 and not s["p"]["proj"]]
            if len(vals) == 1 and vals[0][0] == "agg" and vals[0][2]:
                return vals[0][2].split("::")[-1]
            return "?"
        if term[0] == "fn":
            # constructor function item, e.g. Error::DeviceError
            return "ctor:" + term[1].split("::")[-1]
        return None

    # ---- exploration ----------------------------------------------------------------------
    def explore(self, fn, b0, t0, fv, has_inner):
        """Follow the failure of call t0 (in block b0). fv = failure variant name inside the error enum
        (or None when the error is the raw device error type). Returns set of fates + details."""
        dest = t0["dest"]
        if dest["proj"]:
            return {("unknown-idiom", "call result stored into a projected place")}
        start_car = {dest["l"]: ("res", None)}
        if t0["target"] is None:
            return set()
        fates = set()
        # state: (block, carriers frozenset of (local, kind, conv), absorbed(bool), io_after(bool), ret)
        init = (t0["target"], frozenset((l, k, c) for l, (k, c) in start_car.items()), False, False, "none", frozenset())
        seen = {init}
        dq = deque([init])
        fv_idx = None
        if fv is not None and has_inner:
            fv_idx = self.variants.index(fv) if fv in self.variants else None
        n = 0
        while dq:
            n += 1
            if n > 20000:
                fates.add(("unknown-idiom", "exploration too large"))
                break
            (b, cars, absorbed, io_after, ret, knownf) = dq.popleft()
            car = {l: (k, c) for (l, k, c) in cars}
            known = dict(knownf)  # local -> known variant index / discriminant value
            blk = fn.blocks[b]
            dead = False

            def look(p_):
                """(kind, conv, remaining projection) of the carrier a place reads from, or None.  A tuple that was built
                around a carrier (`match (result, flag) { .. }`) hands it out again through its field."""
                if p_["l"] not in car:
                    return None
                ck_, cc_ = car[p_["l"]]
                pr_ = list(p_["proj"])
                if ck_.startswith("tup:"):
                    _t, idx_, ck2_ = ck_.split(":", 2)
                    if pr_ and pr_[0][0] == "field" and pr_[0][1] == int(idx_):
                        return (ck2_, cc_, pr_[1:])
                    if not pr_:
                        return (ck_, cc_, pr_)
                    return None
                return (ck_, cc_, pr_)
            for i, s in enumerate(blk["stmts"]):
                if s["k"] == "StorageDead":
                    car.pop(s["l"], None)
                    continue
                if s["k"] != "Assign":
                    continue
                rk = _ret_kind(fn, b, s)
                dl = s["p"]["l"] if not s["p"]["proj"] else None
                rv = s["rv"]
                new = None
                k = rv["k"]
                if k == "Use" and rv["op"].get("k") in ("copy", "move"):
                    p = rv["op"]["p"]
                    if look(p) is not None:
                        ck, cc, pr = look(p)
                        if not pr or (len(pr) == 1 and pr[0][0] == "deref"):
                            new = (ck, cc)
                        elif ck in ("res",) and len(pr) >= 2 and pr[-2][0] == "downcast" and pr[-2][2] == "Err" and pr[-1][0] == "field":
                            new = ("pay", cc)
                        elif ck == "cf" and len(pr) >= 2 and pr[-2][0] == "downcast" and pr[-2][2] == "Break" and pr[-1][0] == "field":
                            new = ("res", cc)
                        elif ck == "pay" and pr and pr[-1][0] == "field":
                            new = ("pay", cc)  # inner device error taken out of Error::DeviceError(e)
                        else:
                            new = None
                elif k == "Discriminant":
                    p = rv["p"]
                    if look(p) is not None:
                        ck, cc, pr = look(p)
                        pr = [e for e in pr if e[0] != "deref"]
                        if not pr:
                            if ck == "res":
                                new = ("discr-res", cc)
                            elif ck == "cf":
                                new = ("discr-cf", cc)
                            elif ck == "pay":
                                new = ("discr-inner", cc)
                        elif ck == "res" and len(pr) == 2 and pr[0][0] == "downcast" and pr[0][2] == "Err":
                            new = ("discr-inner", cc)
                elif k in ("Ref", "RawPtr", "CopyForDeref"):
                    p = rv["p"]
                    if look(p) is not None:
                        ck, cc, pr = look(p)
                        pr = [e for e in pr if e[0] != "deref"]
                        if not pr:
                            new = (ck, cc)
                        elif ck == "res" and len(pr) == 2 and pr[0][0] == "downcast" and pr[0][2] == "Err":
                            new = ("pay", cc)
                        elif ck == "cf" and len(pr) == 2 and pr[0][0] == "downcast" and pr[0][2] == "Break":
                            new = ("res", cc)
                elif k == "Aggregate" and rv.get("agg") == "Tuple":
                    for ti_, o in enumerate(rv["ops"]):
                        if o.get("k") in ("copy", "move") and o["p"]["l"] in car and not o["p"]["proj"] and not car[o["p"]["l"]][0].startswith("tup:"):
                            new = ("tup:%d:%s" % (ti_, car[o["p"]["l"]][0]), car[o["p"]["l"]][1])
                            break
                elif k == "Aggregate" and rv.get("agg") == "Adt":
                    ops = rv["ops"]
                    carried = [o for o in ops if o.get("k") in ("copy", "move") and o["p"]["l"] in car and not o["p"]["proj"]]
                    # `Err((r as Err).0)`: the payload taken out of a failed Result and wrapped again (what Result::map / map_err /
                    # and_then do on the failing side)
                    repack = [o for o in ops if o.get("k") in ("copy", "move") and o["p"]["l"] in car and car[o["p"]["l"]][0] == "res"
                              and len(o["p"]["proj"]) == 2 and o["p"]["proj"][0][0] == "downcast" and o["p"]["proj"][0][2] == "Err" and o["p"]["proj"][1][0] == "field"]
                    if repack and not carried:
                        ck, cc = "pay", car[repack[0]["p"]["l"]][1]
                        carried = repack
                    elif carried:
                        ck, cc = car[carried[0]["p"]["l"]]
                    if carried:
                        vn = rv["variant_name"]
                        adt = rv["adt"]
                        if adt.endswith("Result") and vn == "Err" and ck == "pay":
                            new = ("res", cc)
                        elif adt.endswith("::" + self.error_adt) or adt == self.error_adt:
                            new = ("pay", cc)  # wrapped into Error::X(e)
                        elif adt.endswith("ControlFlow") and vn == "Break":
                            new = ("cf", cc)
                        else:
                            new = (ck, cc)
                if dl is not None:
                    if new is not None:
                        car[dl] = new
                    else:
                        car.pop(dl, None)
                    if dl == 0:
                        ret = rk if new is None else "carrier"
                    # constant propagation of enum variants (loop-exit correlation: `cur = None; while let Some(..) = cur`)
                    known.pop(dl, None)
                    if k == "Aggregate" and rv.get("agg") == "Adt" and new is None:
                        known[dl] = rv["variant"]
                    elif k == "Discriminant" and not rv["p"]["proj"] and rv["p"]["l"] in known and new is None:
                        known[dl] = known[rv["p"]["l"]]
                    elif k == "Use" and rv["op"].get("k") in ("copy", "move") and not rv["op"]["p"]["proj"] and rv["op"]["p"]["l"] in known and new is None:
                        known[dl] = known[rv["op"]["p"]["l"]]
                    elif k == "Use" and rv["op"].get("k") == "const" and rv["op"].get("ty") == "bool" and isinstance(rv["op"].get("val"), (int, bool)) and new is None:
                        # the flag a `matches!(result, Err(..))` leaves behind: which arm set it is known on this path
                        known[dl] = int(rv["op"]["val"])
                elif s["p"]["proj"]:
                    known.pop(s["p"]["l"], None)
                if False:
                    pass
                elif s["p"]["proj"] and new is not None and s["p"]["l"] not in car:
                    # stored into a field / through a reference: treat the base as carrier (conservative)
                    car[s["p"]["l"]] = new
            t = blk["term"]
            tk = t["k"]
            if not car and not absorbed:
                absorbed = True
            succ = fn.succ(b)
            if tk == "Return":
                if 0 in car:
                    ck, cc = car[0]
                    fates.add(("propagated" if cc is None else "converted:%s" % cc, ""))
                else:
                    if ret.startswith("Err:"):
                        fates.add(("converted:%s" % ret[4:] if not io_after else "absorbed-continues", "returns %s" % ret))
                    elif io_after:
                        fates.add(("absorbed-continues", "returns %s after further I/O" % ret))
                    else:
                        fates.add(("absorbed-success", "returns %s" % ret))
                continue
            if tk == "SwitchInt":
                d = t["discr"]
                choose = None
                if d.get("k") in ("copy", "move") and not d["p"]["proj"] and d["p"]["l"] in car:
                    ck, cc = car[d["p"]["l"]]
                    vals = [v for v, _ in t["targets"]]
                    want = None
                    if ck in ("discr-res", "discr-cf"):
                        want = 1
                    elif ck == "discr-inner":
                        want = fv_idx
                    elif ck == "bool+":
                        want = 1
                    elif ck == "bool-":
                        want = 0
                    if want is not None:
                        if ck in ("bool+", "bool-"):
                            # bool switch: targets [0: F, otherwise: T]
                            choose = []
                            for i, (tb, lab) in enumerate(succ):
                                lv = lab[1]
                                if lv == want or (lv == "otherwise" and want not in vals):
                                    choose.append(i)
                        else:
                            choose = [i for i, (tb, lab) in enumerate(succ) if lab[1] == want]
                            if not choose:
                                choose = [i for i, (tb, lab) in enumerate(succ) if lab[1] == "otherwise"]
                if choose is None and d.get("k") in ("copy", "move") and not d["p"]["proj"] and d["p"]["l"] in known:
                    kv = known[d["p"]["l"]]
                    choose = [i for i, (tb, lab) in enumerate(succ) if lab[1] == kv]
                    if not choose:
                        choose = [i for i, (tb, lab) in enumerate(succ) if lab[1] == "otherwise"]
                idxs = choose if choose is not None else range(len(succ))
                for i in idxs:
                    st = (succ[i][0], frozenset((l, k, c) for l, (k, c) in car.items()), absorbed, io_after, ret, frozenset(known.items()))
                    if st not in seen:
                        seen.add(st)
                        dq.append(st)
                continue
            if tk == "Drop":
                p = t["p"]
                if not p["proj"]:
                    car.pop(p["l"], None)
            if tk == "Call":
                c = callee_of(t) or ""
                args = t["args"]
                carg = [(i, a) for i, a in enumerate(args) if a.get("k") in ("copy", "move") and a["p"]["l"] in car and not [e for e in a["p"]["proj"] if e[0] != "deref"]]
                dl = t["dest"]["l"] if not t["dest"]["proj"] else None
                new = None
                handled = False
                if carg and not is_log_call(t):
                    i0, a0 = carg[0]
                    ck, cc = car[a0["p"]["l"]]
                    moved = a0["k"] == "move"
                    if c.endswith("Try::branch"):
                        new = ("cf", cc)
                        handled = True
                    elif c.endswith("FromResidual::from_residual"):
                        new = ("res", cc)
                        handled = True
                    elif c.endswith("From::from") or c.endswith("Into::into"):
                        new = (ck, cc)
                        handled = True
                    elif c.endswith(("Result::map", "Result::and_then", "Result::inspect", "Result::inspect_err", "Result::and")) and i0 == 0:
                        # Result::map / and_then / and keep an Err as it is (the closure only sees the Ok value)
                        new = (ck, cc)
                        handled = True
                    elif c.endswith("::map_err"):
                        g = fn.term_of_operand(args[1], b)
                        v = self.closure_const_variant(g)
                        if v is None:
                            fates.add(("unknown-idiom", "map_err with an unanalysable function at %s" % fn.loc(b)))
                            new = ("res", cc)
                        elif v.startswith("ctor:"):
                            new = ("res", cc)
                        else:
                            new = ("res", v)
                        handled = True
                    elif c.endswith("Result::is_err"):
                        new = ("bool+", cc)
                        handled = True
                    elif c.endswith("Result::is_ok"):
                        new = ("bool-", cc)
                        handled = True
                    elif c.endswith("Result::unwrap") or c.endswith("Result::expect"):
                        fates.add(("panics", "%s at %s" % (c.split("::")[-1], fn.loc(b))))
                        continue
                    elif c.endswith("Result::ok") or c.endswith("unwrap_or") or c.endswith("unwrap_or_default") or c.endswith("unwrap_or_else") or c.endswith("mem::drop") or c.endswith("Result::is_ok_and") or c.endswith("Result::unwrap_err") or c.endswith("Result::err"):
                        new = None
                        handled = True
                        if moved:
                            car.pop(a0["p"]["l"], None)
                    elif c.endswith("PartialEq::eq") or c.endswith("PartialEq::ne") or "fmt::" in c or c.endswith("Debug::fmt"):
                        handled = True
                        new = None
                    else:
                        fates.add(("unknown-idiom", "carrier passed to %s at %s" % (c, fn.loc(b))))
                        handled = True
                        if moved:
                            car.pop(a0["p"]["l"], None)
                    if moved and handled and a0["p"]["l"] in car and not a0["p"]["proj"]:
                        car.pop(a0["p"]["l"], None)
                if dl is not None:
                    if new is not None:
                        car[dl] = new
                        if dl == 0:
                            ret = "carrier"
                    else:
                        car.pop(dl, None)
                        if dl == 0:
                            ret = "Err:residual" if c.endswith("FromResidual::from_residual") else "call"
                    known.pop(dl, None)
                # further I/O after the failure has been dropped?
                if not car and not is_log_call(t):
                    absorbed = True
                    if call_matches(t, self.io_names) or (t.get("callee_local") and strip_generics(t["callee"]) in self.summ and self.summ[strip_generics(t["callee"])]):
                        io_after = True
            if not car:
                absorbed = True
            for (tb, lab) in succ:
                st = (tb, frozenset((l, k, c) for l, (k, c) in car.items()), absorbed, io_after, ret, frozenset(known.items()))
                if st not in seen:
                    seen.add(st)
                    dq.append(st)
        return fates

    # ---- driver -----------------------------------------------------------------------------
    def result_err_type(self, t):
        """'raw' if the call returns Result<_, D::Error>-like raw device error, 'enum' if Result<_, Error<..>>."""
        ty = None
        return ty

    def run(self, source_names, raw_error_fns=()):
        """source_names: callee names (suffix) that are primary failure sources returning the raw device error."""
        F = self.F
        fns = [f for f in F.fns if self.in_scope(f)]
        # fixpoint on summaries
        self.summ = {f.npath: set() for f in fns}
        changed = True
        rounds = 0
        site_results = {}
        while changed and rounds < 12:
            rounds += 1
            changed = False
            for fn in fns:
                out = set()
                for b, t in fn.calls():
                    if is_log_call(t):
                        continue
                    c = callee_of(t) or ""
                    trackers = []
                    if any(path_matches(c, s) for s in source_names):
                        trackers.append((None, False))
                    elif t.get("callee_local") and c in self.summ and self.summ[c]:
                        dty = fn.locals[t["dest"]["l"]]["ty"] if not t["dest"]["proj"] else ""
                        if not dty.startswith("core::result::Result<"):
                            continue
                        inner_enum = (self.error_adt + "<") in dty
                        for o in sorted(self.summ[c]):
                            if o == "Ok":
                                continue
                            if o == self.device_variant:
                                trackers.append((self.device_variant if inner_enum else None, inner_enum))
                            else:
                                trackers.append((o, inner_enum))
                    for (fv, has_inner) in trackers:
                        fates = self.explore(fn, b, t, fv, has_inner)
                        site_results[(fn.npath, b, c, fv)] = (fn, b, t, c, fv, fates)
                        for (fk, detail) in fates:
                            if fk == "propagated":
                                out.add(fv if fv else self.device_variant)
                            elif fk.startswith("converted:"):
                                out.add(fk.split(":", 1)[1])
                            elif fk == "absorbed-success":
                                out.add("Ok")
                            elif fk == "absorbed-continues":
                                out.add("Ok")
                if out != self.summ[fn.npath]:
                    self.summ[fn.npath] = out
                    changed = True
        self.sites = list(site_results.values())
        return self.sites
