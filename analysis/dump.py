#!/usr/bin/env python3
"""Pretty-print a body from a fact file (debug helper)."""
import json, sys

def P(p):
    s = "_%d" % p["l"]
    for e in p["proj"]:
        k = e[0]
        if k == "deref": s = "(*%s)" % s
        elif k == "field": s = "%s.%s" % (s, e[2])
        elif k == "downcast": s = "(%s as %s)" % (s, e[2])
        elif k == "index": s = "%s[_%d]" % (s, e[1])
        elif k == "cidx": s = "%s[%s%s of %s]" % (s, "-" if e[3]=="true" else "", e[1], e[2])
        elif k == "subslice": s = "%s[%s..%s%s]" % (s, e[1], "-" if e[3]=="true" else "", e[2])
        else: s = "%s.<%s>" % (s, k)
    return s

def O(o):
    k = o["k"]
    if k in ("copy", "move"): return ("move " if k == "move" else "") + P(o["p"])
    if k == "const":
        if "fn" in o: return "fn:" + o["fn_full"]
        if "val" in o: return "const %s%s: %s" % (o["val"], ("(" + o["def"] + ")") if "def" in o else "", o["ty"])
        if "def" in o: return "const %s" % o["def"]
        return "const %s: %s" % (o.get("repr", "zst"), o["ty"])
    return str(o)

def R(r):
    k = r["k"]
    if k == "Use": return O(r["op"])
    if k == "BinaryOp": return "%s(%s, %s)" % (r["op"], O(r["l"]), O(r["r"]))
    if k == "UnaryOp": return "%s(%s)" % (r["op"], O(r["x"]))
    if k == "Cast": return "%s as %s (%s)" % (O(r["op"]), r["ty"], r["kind"])
    if k == "Ref": return "&%s%s" % ("mut " if r["mut"] else "", P(r["p"]))
    if k == "RawPtr": return "&raw %s" % P(r["p"])
    if k == "Discriminant": return "discr(%s)" % P(r["p"])
    if k == "CopyForDeref": return "deref_copy %s" % P(r["p"])
    if k == "Repeat": return "[%s; %s]" % (O(r["op"]), r["n"])
    if k == "Aggregate":
        a = r["agg"]
        ops = ", ".join(O(x) for x in r["ops"])
        if a == "Adt": return "%s::%s{%s}" % (r["adt"], r["variant_name"], ", ".join("%s: %s" % (f, O(x)) for f, x in zip(r["fields"], r["ops"])))
        if a == "Closure": return "closure %s(%s)" % (r["closure"], ops)
        return "%s(%s)" % (a, ops)
    return str(r)

def dump(b):
    print("fn %s  [%s]  %s:%s" % (b["path"], b["kind"], b["span"]["file"], b["span"]["l0"]))
    for i, l in enumerate(b["locals"]):
        print("   let _%d: %s%s" % (i, l["ty"], ("  // " + l["name"]) if l["name"] else ""))
    for i, bb in enumerate(b["blocks"]):
        print(" bb%d%s:" % (i, " (cleanup)" if bb["cleanup"] else ""))
        for s in bb["stmts"]:
            if s["k"] == "Assign":
                print("    %s = %s   @%s%s" % (P(s["p"]), R(s["rv"]), s["sp"]["l0"], " exp:%s" % s["sp"]["mac"] if s["sp"]["exp"] else ""))
            elif s["k"] in ("StorageLive", "StorageDead"):
                pass
            else:
                print("    %s" % s)
        t = bb["term"]; k = t["k"]
        if k == "Call":
            print("    %s = call %s(%s) -> bb%s unwind %s  @%s%s" % (P(t["dest"]), t.get("callee_full") or O(t.get("callee_op")), ", ".join(O(a) for a in t["args"]), t["target"], t["unwind"], t["sp"]["l0"], (" resolved=" + t["resolved"]) if t.get("resolved") and t.get("resolved") != t.get("callee") else ""))
        elif k == "SwitchInt":
            print("    switch %s [%s, otherwise bb%s]  @%s" % (O(t["discr"]), ", ".join("%s: bb%s" % (v, b_) for v, b_ in t["targets"]), t["otherwise"], t["sp"]["l0"]))
        elif k == "Assert":
            print("    assert(%s == %s, %s(%s)) -> bb%s  @%s" % (O(t["cond"]), t["expected"], t["kind"], ", ".join(O(x) for x in t["ops"]), t["target"], t["sp"]["l0"]))
        elif k == "Drop":
            print("    drop(%s) -> bb%s unwind %s" % (P(t["p"]), t["target"], t["unwind"]))
        elif k == "Goto":
            print("    goto bb%s" % t["target"])
        else:
            print("    %s" % k)

if __name__ == "__main__":
    d = json.load(open(sys.argv[1]))
    pat = sys.argv[2]
    for b in d["bodies"]:
        if pat in b["path"]:
            dump(b); print()
