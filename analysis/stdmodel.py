"""Transfer functions for the core / byteorder / heapless routines the analysed regions use.
This table is part of the trusted base (DESIGN 2.6). Each model returns a list of (value, state)
outcomes or NotImplemented (fall back to inlining / havoc)."""
from .absval import (TOP, TOPBIT, UNIT, agg, arr, bits_of, cast_int, const, int_binop, int_cmp, int_const, int_overflows, is_agg, is_int,
                     is_ptr, is_top, join, mk_int, ptr, top_int, ty_info, with_term)

OPTION = "core::option::Option"
RESULT = "core::result::Result"
CF = "core::ops::ControlFlow"


def some(v):
    return agg("enum", OPTION, 1, [v])


NONE = agg("enum", OPTION, 0, [])


def ok(v):
    return agg("enum", RESULT, 0, [v])


def err(v):
    return agg("enum", RESULT, 1, [v])


def variants_of(v, n=2):
    """possible variants of an Option/Result-like value"""
    if is_agg(v) and v[1] == "enum" and v[3] is not None:
        return [v[3]]
    return list(range(n))


def payload(v, variant):
    if is_agg(v) and v[1] == "enum" and v[3] == variant and v[4]:
        return v[4][0]
    return TOP


def slice_view(I, st, p):
    """(container loc, start, length Int, elems|None) for a pointer to an array/slice"""
    if not is_ptr(p):
        return None
    tgt = I.read_loc(st, (p[1], p[2], p[3], None))
    if p[4] is not None:
        start, ln = p[4]
    else:
        start = const(0, 64)
        ln = const(len(tgt[1]), 64) if isinstance(tgt, tuple) and tgt and tgt[0] == "arr" else top_int(64)
    elems = tgt[1] if isinstance(tgt, tuple) and tgt and tgt[0] == "arr" else None
    return (p[1], p[2], p[3]), start, ln, elems


def panic_ob(I, st, ctx, kind, ok_, detail):
    fn = ctx.get("fn")
    key = (fn.npath if fn else "?", ctx.get("block"), kind)
    I.obl.record(key, ok_, detail, fn.loc(ctx["block"]) if fn and ctx.get("block") is not None else None)


def install(I):
    M = {}
    S = []

    def model(*names):
        def deco(f):
            for n in names:
                S.append((n, f))
            return f
        return deco

    # ---------------- conversions
    @model("convert::From::from", "convert::Into::into", "convert::TryFrom::try_from")
    def from_(I, st, a, ctx):
        t = ctx.get("term") or {}
        full = t.get("callee_full", "")
        x = a[0]
        dty = ctx.get("dest_ty") or ""
        if "try_from" in full or "TryFrom" in full:
            if is_int(x):
                inner = dty
                # Result<T, E>: pick T
                ti = None
                for name in ("usize", "u64", "u32", "u16", "u8", "i64", "i32", "i16", "i8", "isize"):
                    if dty.startswith("core::result::Result<%s," % name):
                        ti = ty_info(name)
                if ti:
                    w, s = ti
                    tlo, thi = (-(1 << (w - 1)), (1 << (w - 1)) - 1) if s else (0, (1 << w) - 1)
                    outs = []
                    if x[5] >= tlo and x[4] <= thi:
                        outs.append((ok(cast_int(mk_int(x[1], x[2], x[3], max(x[4], tlo), min(x[5], thi), x[6]), w, s)), st.fork()))
                    if x[4] < tlo or x[5] > thi:
                        outs.append((err(TOP), st.fork()))
                    return outs
            return NotImplemented
        ti = ty_info(dty)
        if ti and is_int(x):
            return [(cast_int(x, ti[0], ti[1]), st)]
        if ti and is_top(x):
            return [(top_int(ti[0], ti[1]), st)]
        if not ti:
            # error conversions (From<E> for Error<E>, identity From<T> for T)
            if "Error" in dty and "DeviceError" not in full and is_agg(x):
                return [(x, st)]
            return NotImplemented
        return [(top_int(ti[0], ti[1]), st)]

    @model("convert::TryInto::try_into")
    def try_into(I, st, a, ctx):
        # &[u8] / &mut [u8] -> [u8; N] (or a reference to one): Ok exactly when the slice has N bytes
        import re as _re
        dty = ctx.get("dest_ty") or ""
        m = _re.match(r"^core::result::Result<&?(?:'\w+ )?(?:mut )?\[u8; (\d+)\],", dty)
        if not m:
            return NotImplemented
        n = int(m.group(1))
        sv = slice_view(I, st, a[0])
        if sv is None or not is_int(sv[2]):
            return NotImplemented
        loc, start, ln, elems = sv
        by_ref = dty.startswith("core::result::Result<&")
        outs = []
        if ln[4] <= n <= ln[5]:
            s0 = int_const(start)
            if by_ref:
                val = ptr(loc[0], loc[1], loc[2], (start, const(n, 64)), a[0][5] if is_ptr(a[0]) and len(a[0]) > 5 else False)
            elif elems is not None and s0 is not None and s0 + n <= len(elems):
                val = arr(list(elems[s0:s0 + n]))
            else:
                val = arr([top_int(8) for _k in range(n)])
            outs.append((ok(val), st.fork()))
        if not (ln[4] == n == ln[5]):
            outs.append((err(TOP), st.fork()))
        return outs

    # ---------------- byteorder
    def _rd(I, st, a, ctx, n, big):
        sv = slice_view(I, st, a[0])
        w = 8 * n
        if sv is None:
            return [(top_int(w), st)]
        loc, start, ln, elems = sv
        lmin = ln[4]
        panic_ob(I, st, ctx, "read_u%d:len" % w, lmin >= n, "byteorder read of %d bytes from a slice of length %s" % (n, I.show(ln)))
        s0 = int_const(start)
        if elems is None or s0 is None or s0 + n > len(elems):
            return [(top_int(w), st)]
        bs = [elems[s0 + i] for i in range(n)]
        if big:
            bs = bs[::-1]
        bits = ()
        for b in bs:
            bits += bits_of(b) if is_int(b) else (TOPBIT,) * 8
        term = ("rd", w, loc, s0, big)
        v = mk_int(w, False, bits, term=term)
        return [(I.apply_ranges(st, v), st)]

    @model("ByteOrder::read_u16")
    def rd16(I, st, a, ctx):
        return _rd(I, st, a, ctx, 2, "BigEndian" in (ctx["term"].get("callee_full", "")))

    @model("ByteOrder::read_u32")
    def rd32(I, st, a, ctx):
        return _rd(I, st, a, ctx, 4, "BigEndian" in (ctx["term"].get("callee_full", "")))

    def _wr(I, st, a, ctx, n, big):
        sv = slice_view(I, st, a[0])
        if sv is None:
            return [(UNIT, st)]
        loc, start, ln, elems = sv
        panic_ob(I, st, ctx, "write_u%d:len" % (8 * n), ln[4] >= n, "byteorder write of %d bytes into a slice of length %s" % (n, I.show(ln)))
        s0 = int_const(start)
        v = a[1]
        if elems is None or s0 is None or not is_int(v):
            return [(UNIT, st)]
        bits = bits_of(v)
        for i in range(n):
            k = (n - 1 - i) if big else i
            byte = mk_int(8, False, bits[8 * k: 8 * k + 8])
            I.write_loc(st, (loc[0], loc[1], loc[2] + (("i", const(s0 + i, 64), None),), None), byte)
        return [(UNIT, st)]

    @model("ByteOrder::write_u16")
    def wr16(I, st, a, ctx):
        return _wr(I, st, a, ctx, 2, "BigEndian" in (ctx["term"].get("callee_full", "")))

    @model("ByteOrder::write_u32")
    def wr32(I, st, a, ctx):
        return _wr(I, st, a, ctx, 4, "BigEndian" in (ctx["term"].get("callee_full", "")))

    def _bytes_to_int(a, big, w):
        if not (isinstance(a, tuple) and a and a[0] == "arr"):
            return top_int(w)
        bs = list(a[1])
        if big:
            bs = bs[::-1]
        bits = ()
        for b in bs:
            bits += bits_of(b) if is_int(b) else (TOPBIT,) * 8
        return mk_int(w, False, bits)

    def _int_to_bytes(v, big):
        if not is_int(v):
            return TOP
        n = v[1] // 8
        bits = bits_of(v)
        bs = [mk_int(8, False, bits[8 * i: 8 * i + 8]) for i in range(n)]
        if big:
            bs = bs[::-1]
        return arr(bs)

    @model("::from_be_bytes")
    def fbe(I, st, a, ctx):
        ti = ty_info(ctx.get("dest_ty") or "")
        return [(_bytes_to_int(a[0], True, ti[0] if ti else 16), st)]

    @model("::from_le_bytes")
    def fle(I, st, a, ctx):
        ti = ty_info(ctx.get("dest_ty") or "")
        return [(_bytes_to_int(a[0], False, ti[0] if ti else 16), st)]

    @model("::to_be_bytes")
    def tbe(I, st, a, ctx):
        return [(_int_to_bytes(a[0], True), st)]

    @model("::to_le_bytes")
    def tle(I, st, a, ctx):
        return [(_int_to_bytes(a[0], False), st)]

    # ---------------- integer helpers
    @model("::rotate_right", "::rotate_left")
    def rot(I, st, a, ctx):
        x, n = a[0], int_const(a[1]) if is_int(a[1]) else None
        if not is_int(x) or n is None:
            return [(top_int(x[1] if is_int(x) else 8), st)]
        w = x[1]
        n %= w
        bits = bits_of(x)
        left = ctx["term"]["callee"].endswith("rotate_left")
        if left:
            nb = bits[w - n:] + bits[: w - n]
        else:
            nb = bits[n:] + bits[:n]
        return [(mk_int(w, x[2], nb), st)]

    @model("::div_ceil")
    def div_ceil(I, st, a, ctx):
        x, d = a[0], a[1]
        if not (is_int(x) and is_int(d)):
            return [(TOP, st)]
        cd = int_const(d)
        panic_ob(I, st, ctx, "div:zero", not (d[4] <= 0 <= d[5]), "div_ceil by a divisor that may be zero")
        if cd is None or cd <= 0 or x[2]:
            return [(top_int(x[1], x[2]), st)]
        cx = int_const(x)
        if cx is not None:
            return [(const(-(-cx // cd), x[1], x[2]), st)]
        return [(mk_int(x[1], x[2], None, -(-x[4] // cd), -(-x[5] // cd)), st)]

    @model("::swap_bytes", "::reverse_bits")
    def bitperm(I, st, a, ctx):
        x = a[0]
        if not is_int(x):
            return [(TOP, st)]
        w = x[1]
        bits = bits_of(x)
        if ctx["term"]["callee"].endswith("reverse_bits"):
            nb = tuple(reversed(bits))
        else:
            nb = tuple(b_ for k in range(w // 8 - 1, -1, -1) for b_ in bits[8 * k: 8 * k + 8])
        return [(mk_int(w, x[2], nb), st)]

    @model("::wrapping_add", "::wrapping_sub", "::wrapping_mul")
    def wrapping(I, st, a, ctx):
        op = {"add": "Add", "sub": "Sub", "mul": "Mul"}[ctx["term"]["callee"].rsplit("_", 1)[1]]
        if is_int(a[0]) and is_int(a[1]):
            r = int_binop(op, a[0], a[1])
            if int_overflows(op, a[0], a[1]) != 0 and int_const(r) is None:
                r = top_int(r[1], r[2])
            return [(r, st)]
        ti = ty_info(ctx.get("dest_ty") or "")
        return [(top_int(ti[0], ti[1]) if ti else TOP, st)]

    @model("::saturating_add", "::saturating_sub")
    def saturating(I, st, a, ctx):
        op = "Add" if ctx["term"]["callee"].endswith("add") else "Sub"
        x, y = a[0], a[1]
        if not (is_int(x) and is_int(y)):
            ti = ty_info(ctx.get("dest_ty") or "")
            return [(top_int(ti[0], ti[1]) if ti else TOP, st)]
        w = x[1]
        mx = (1 << w) - 1
        if op == "Add":
            lo, hi = min(x[4] + y[4], mx), min(x[5] + y[5], mx)
        else:
            lo, hi = max(x[4] - y[5], 0), max(x[5] - y[4], 0)
        return [(mk_int(w, x[2], None, lo, hi), st)]

    @model("::checked_add", "::checked_sub", "::checked_mul", "::checked_div")
    def checked(I, st, a, ctx):
        nm = ctx["term"]["callee"].rsplit("_", 1)[1]
        op = {"add": "Add", "sub": "Sub", "mul": "Mul", "div": "Div"}[nm]
        x, y = a[0], a[1]
        if not (is_int(x) and is_int(y)):
            return [(some(TOP), st.fork()), (NONE, st)]
        outs = []
        if op == "Div":
            if y[5] >= 1:
                s2 = st.fork()
                y2 = mk_int(y[1], y[2], y[3], max(y[4], 1), y[5], y[6])
                if y[6] is not None:
                    s2.term_ranges[y[6]] = (y2[4], y2[5])
                r = int_binop("Div", x, y2)
                t = I.mkterm("Div", x, y2)
                if t is not None:
                    r = with_term(r, t)
                outs.append((some(r), s2))
            if y[4] == 0:
                s3 = st.fork()
                if y[6] is not None:
                    s3.term_ranges[y[6]] = (0, 0)
                outs.append((NONE, s3))
            return outs
        ov = int_overflows(op, x, y)
        t = I.mkterm(op, x, y)
        if ov is None and t is not None and t in st.noovf:
            ov = 0
        if ov != 1:
            s2 = st.fork()
            r = int_binop(op, x, y)
            w = x[1]
            mx = (1 << w) - 1
            # on the Some path the ideal result fits: tighten the interval
            if op == "Add":
                lo, hi = x[4] + y[4], min(x[5] + y[5], mx)
            elif op == "Sub":
                lo, hi = max(x[4] - y[5], 0), x[5] - y[4]
            else:
                lo, hi = x[4] * y[4], min(x[5] * y[5], mx)
            r = mk_int(w, x[2], r[3] if ov == 0 else None, lo, hi)
            if t is not None:
                r = with_term(r, t)
                s2.noovf = s2.noovf | {t}
                r = I.apply_ranges(s2, r)
            outs.append((some(r), s2))
        if ov != 0:
            outs.append((NONE, st.fork()))
        return outs

    @model("::to_ascii_uppercase", "::to_ascii_lowercase")
    def ascii_case(I, st, a, ctx):
        p = a[0]
        v = I.read_loc(st, (p[1], p[2], p[3], None)) if is_ptr(p) else p
        c = int_const(v) if is_int(v) else None
        if c is None:
            ti = ty_info(ctx.get("dest_ty") or "") or (32, False)
            return [(top_int(ti[0], ti[1]), st)]
        up = ctx["term"]["callee"].endswith("uppercase")
        if up and 0x61 <= c <= 0x7A:
            c -= 32
        if (not up) and 0x41 <= c <= 0x5A:
            c += 32
        return [(const(c, v[1], v[2]), st)]

    @model("cmp::min", "cmp::Ord::min", "cmp::max", "cmp::Ord::max")
    def minmax(I, st, a, ctx):
        x, y = a[0], a[1]
        if not (is_int(x) and is_int(y)):
            return NotImplemented
        if ctx["term"]["callee"].endswith("min"):
            return [(mk_int(x[1], x[2], None, min(x[4], y[4]), min(x[5], y[5])), st)]
        return [(mk_int(x[1], x[2], None, max(x[4], y[4]), max(x[5], y[5])), st)]

    # ---------------- ranges / indexing
    @model("Range::contains", "RangeInclusive::contains", "RangeBounds::contains")
    def rcontains(I, st, a, ctx):
        rp, xp = a[0], a[1]
        r = I.read_loc(st, (rp[1], rp[2], rp[3], None)) if is_ptr(rp) else rp
        x = I.read_loc(st, (xp[1], xp[2], xp[3], None)) if is_ptr(xp) else xp
        if not (is_agg(r) and is_int(x) and len(r[4]) >= 2 and is_int(r[4][0]) and is_int(r[4][1])):
            return [(top_int(1), st)]
        lo, hi = r[4][0], r[4][1]
        incl = (r[2] or "").split("::")[-1] == "RangeInclusive"
        c1 = int_const(I.cmp("Le", lo, x, st))
        c2 = int_const(I.cmp("Le" if incl else "Lt", x, hi, st))
        if c1 == 0 or c2 == 0:
            return [(const(0, 1), st)]
        if c1 == 1 and c2 == 1:
            return [(const(1, 1), st)]
        clo, chi = int_const(lo), int_const(hi)
        if clo is not None and chi is not None and x[6] is not None:
            # undecided membership in a constant range: case split, the member side knows the value's range
            top_ = chi if incl else chi - 1
            nlo, nhi = max(clo, x[4]), min(top_, x[5])
            if nlo > nhi:
                return [(const(0, 1), st)]
            s2 = st.fork()
            s2.term_ranges[x[6]] = (nlo, nhi)
            return [(const(1, 1), s2), (const(0, 1), st)]
        return [(top_int(1), st)]

    @model("RangeInclusive::new", "RangeInclusive::<Idx>::new")
    def rinew(I, st, a, ctx):
        return [(agg("struct", "core::ops::RangeInclusive", 0, [a[0], a[1], const(0, 1)]), st)]

    def _index(I, st, a, ctx, mut):
        base, idx = a[0], a[1]
        sv = slice_view(I, st, base)
        if sv is None:
            return [(TOP, st)]
        loc, start, ln, elems = sv
        if is_int(idx):
            okb = I.cmp("Lt", idx, ln, st)
            panic_ob(I, st, ctx, "index:bounds", int_const(okb) == 1, "index %s out of bounds for length %s" % (I.show(idx), I.show(ln)))
            s0 = int_const(start)
            off = idx if s0 == 0 else int_binop("Add", idx, start)
            return [(ptr(loc[0], loc[1], loc[2] + (("i", off, None),), None, mut), st)]
        if is_agg(idx) and idx[2] and idx[2].split("::")[-1].startswith("Range"):
            nm = idx[2].split("::")[-1]
            f = idx[4]
            if nm == "Range":
                lo, hi = f[0], f[1]
            elif nm == "RangeInclusive":
                lo = f[0]
                hi = int_binop("Add", f[1], const(1, 64)) if is_int(f[1]) else TOP
                if is_int(f[1]):
                    panic_ob(I, st, ctx, "index:range-end-overflow", f[1][5] < (1 << 64) - 1, "inclusive range end overflows")
            elif nm == "RangeFrom":
                lo, hi = f[0], ln
            elif nm == "RangeTo":
                lo, hi = const(0, 64), f[0]
            elif nm == "RangeFull":
                lo, hi = const(0, 64), ln
            else:
                return [(TOP, st)]
            if not (is_int(lo) and is_int(hi)):
                return [(TOP, st)]
            ok1 = int_const(I.cmp("Le", lo, hi, st)) == 1
            ok2 = int_const(I.cmp("Le", hi, ln, st)) == 1
            panic_ob(I, st, ctx, "index:range", ok1 and ok2, "slice [%s..%s] may be out of range for length %s" % (I.show(lo), I.show(hi), I.show(ln)))
            nstart = lo if int_const(start) == 0 else int_binop("Add", start, lo)
            nlen = int_binop("Sub", hi, lo) if ok1 else top_int(64)
            dn = I.term_offset(lo[6], hi[6]) if is_int(lo) and is_int(hi) else None
            if ok1 and dn is not None and dn >= 0:
                nlen = const(dn, 64)          # hi is lo + n: the window has exactly n elements
            return [(ptr(loc[0], loc[1], loc[2], (nstart, nlen), mut), st)]
        return [(TOP, st)]

    @model("ops::Index::index", "ops::index::Index::index")
    def index(I, st, a, ctx):
        return _index(I, st, a, ctx, False)

    @model("ops::IndexMut::index_mut", "ops::index::IndexMut::index_mut")
    def index_mut(I, st, a, ctx):
        return _index(I, st, a, ctx, True)

    @model("slice::<impl [T]>::len", "<impl [T]>::len", "core::slice::len")
    def slen(I, st, a, ctx):
        sv = slice_view(I, st, a[0])
        return [(sv[2] if sv else top_int(64), st)]

    @model("<impl [T]>::copy_from_slice", "slice::copy_from_slice")
    def cfs(I, st, a, ctx):
        d, s = slice_view(I, st, a[0]), slice_view(I, st, a[1])
        if d is None or s is None:
            if d is not None:
                pass
            return [(UNIT, st)]
        dl, sl = d[2], s[2]
        same = int_const(dl) is not None and int_const(dl) == int_const(sl)
        panic_ob(I, st, ctx, "copy_from_slice:len", same, "copy_from_slice with lengths %s and %s" % (I.show(dl), I.show(sl)))
        ds, ss = int_const(d[1]), int_const(s[1])
        if same and ds is not None and ss is not None and d[3] is not None and s[3] is not None:
            n = int_const(dl)
            for i in range(n):
                I.write_loc(st, (d[0][0], d[0][1], d[0][2] + (("i", const(ds + i, 64), None),), None), s[3][ss + i])
        elif d[3] is not None:
            # unknown window: weak havoc of destination elements
            old = I.read_loc(st, (d[0][0], d[0][1], d[0][2], None))
            I.write_loc(st, (d[0][0], d[0][1], d[0][2], None), I.havoc_value(old))
        return [(UNIT, st)]

    def _concrete_eq(I, st, x, y, depth=0):
        """structural equality of two fully concrete values (through references); None when either is not concrete"""
        if depth > 6:
            return None
        if is_ptr(x):
            x = I.read_loc(st, (x[1], x[2], x[3], None))
        if is_ptr(y):
            y = I.read_loc(st, (y[1], y[2], y[3], None))
        if is_int(x) and is_int(y):
            cx, cy = int_const(x), int_const(y)
            return None if cx is None or cy is None else cx == cy
        if is_agg(x) and is_agg(y):
            if x[3] is None and x[1] == "enum" or y[3] is None and y[1] == "enum":
                return None
            if x[3] != y[3]:
                return False
            if len(x[4]) != len(y[4]):
                return None
            out = True
            for a_, b_ in zip(x[4], y[4]):
                r = _concrete_eq(I, st, a_, b_, depth + 1)
                if r is None:
                    return None
                out = out and r
            return out
        return None

    @model("cmp::PartialEq::eq", "cmp::PartialEq::ne")
    def partial_eq(I, st, a, ctx):
        # derived / core PartialEq on fully concrete values (Option<BlockIdx> tags and the like); anything else stays unknown
        from .mir import strip_generics as _sg
        res_ = ctx.get("term", {}).get("resolved")
        if res_ and _sg(res_) in I.by_path:
            return NotImplemented                               # the crate's own impl (derived or not) has a body: evaluate that
        if len(a) == 2:
            r = _concrete_eq(I, st, a[0], a[1])
            if r is not None:
                ne = (ctx.get("term", {}).get("callee") or "").endswith("::ne")
                return [(const(int(r != ne), 1), st)]
        return [(top_int(1), st)]

    def _ordering(I, st, x, y, ctx, depth=0):
        """-1 / 0 / 1 for two concrete values, None when undecided.  Integers directly; a crate type through its own
        partial_cmp / cmp impl (derived or hand-written: its MIR is evaluated, nothing is assumed about it)."""
        if depth > 4:
            return None
        px, py = x, y
        if is_ptr(x):
            x = I.read_loc(st, (x[1], x[2], x[3], None))
        if is_ptr(y):
            y = I.read_loc(st, (y[1], y[2], y[3], None))
        if is_int(x) and is_int(y):
            cx, cy = int_const(x), int_const(y)
            return None if cx is None or cy is None else (cx > cy) - (cx < cy)
        if is_agg(x) and is_agg(y) and x[2] and x[2] == y[2] and x[1] == "struct":
            for tr, m in (("core::cmp::PartialOrd", "partial_cmp"), ("core::cmp::Ord", "cmp")):
                f = [g for g in I.F.fns if g.npath == "<%s as %s>::%s" % (x[2], tr, m)]
                if not f:
                    continue
                if not (is_ptr(px) and is_ptr(py)):
                    px, py = I.heap_alloc(st, x), I.heap_alloc(st, y)
                outs = I.run(f[0], [px, py], st.fork(), depth + 1)
                if len(outs) != 1:
                    return None
                r = outs[0][0]
                if m == "partial_cmp":
                    if not (is_agg(r) and r[3] == 1 and r[4]):
                        return None
                    r = r[4][0]
                if is_agg(r) and (r[2] or "").endswith("cmp::Ordering") and r[3] is not None:
                    return r[3] - 1
                return None
        return None

    def _mk_ordering(o):
        return agg("enum", "core::cmp::Ordering", o + 1, [])

    @model("cmp::PartialOrd::lt", "cmp::PartialOrd::le", "cmp::PartialOrd::gt", "cmp::PartialOrd::ge")
    def partial_ord_cmp(I, st, a, ctx):
        if len(a) == 2:
            o = _ordering(I, st, a[0], a[1], ctx)
            if o is not None:
                m = (ctx.get("term", {}).get("callee") or "").split("::")[-1]
                return [(const(int({"lt": o < 0, "le": o <= 0, "gt": o > 0, "ge": o >= 0}[m]), 1), st)]
        return [(top_int(1), st)]

    @model("cmp::PartialOrd::partial_cmp", "cmp::Ord::cmp")
    def partial_cmp(I, st, a, ctx):
        if len(a) == 2:
            x, y = a
            if is_ptr(x):
                x = I.read_loc(st, (x[1], x[2], x[3], None))
            if is_ptr(y):
                y = I.read_loc(st, (y[1], y[2], y[3], None))
            if is_int(x) and is_int(y) and int_const(x) is not None and int_const(y) is not None:
                o = _mk_ordering((int_const(x) > int_const(y)) - (int_const(x) < int_const(y)))
                if (ctx.get("term", {}).get("callee") or "").endswith("partial_cmp"):
                    return [(agg("enum", "core::option::Option", 1, [o]), st)]
                return [(o, st)]
        return NotImplemented

    @model("<impl [T]>::fill", "slice::fill")
    def fill(I, st, a, ctx):
        d = slice_view(I, st, a[0])
        if d is None or d[3] is None:
            return [(UNIT, st)]
        ds, n = int_const(d[1]), int_const(d[2])
        if ds is None or n is None:
            old = I.read_loc(st, (d[0][0], d[0][1], d[0][2], None))
            I.write_loc(st, (d[0][0], d[0][1], d[0][2], None), I.havoc_value(old))
            return [(UNIT, st)]
        for i in range(n):
            I.write_loc(st, (d[0][0], d[0][1], d[0][2] + (("i", const(ds + i, 64), None),), None), a[1])
        return [(UNIT, st)]

    # ---------------- slice iterators (summarised: static facts survive loop havoc)
    @model("slice::chunks_exact", "slice::chunks_exact_mut", "<impl [T]>::chunks_exact", "<impl [T]>::chunks_exact_mut")
    def chunks_exact(I, st, a, ctx):
        sv = slice_view(I, st, a[0])
        n = int_const(a[1]) if is_int(a[1]) else None
        if sv is None or n is None or n == 0:
            return NotImplemented
        return [(("iter", "chunks", (a[0], n, sv[2])), st)]

    @model("slice::iter", "slice::iter_mut", "<impl [T]>::iter", "<impl [T]>::iter_mut")
    def slice_iter(I, st, a, ctx):
        sv = slice_view(I, st, a[0])
        if sv is None:
            return NotImplemented
        return [(("iter", "slice", (a[0], 1, sv[2])), st)]

    @model("Iterator::enumerate")
    def enumerate_(I, st, a, ctx):
        if isinstance(a[0], tuple) and a[0] and a[0][0] == "iter":
            return [(("iter", "enumerate", (a[0],)), st)]
        return NotImplemented

    @model("Iterator::position")
    def position(I, st, a, ctx):
        p = a[0]
        it = I.read_loc(st, (p[1], p[2], p[3], None)) if is_ptr(p) else p
        if isinstance(it, tuple) and it and it[0] == "iter" and it[1] in ("slice", "chunks"):
            ln = it[2][2]
            cnt_hi = ln[5] // it[2][1]
            if cnt_hi == 0:
                return [(NONE, st)]
            return [(some(mk_int(64, False, None, 0, cnt_hi - 1)), st.fork()), (NONE, st)]
        return NotImplemented

    def iter_items(I, st, it):
        """(count upper bound, item value) of a summarised iterator"""
        if it[1] in ("chunks", "slice"):
            base, n, ln = it[2]
            cnt = ln[5] // n
            sv = slice_view(I, st, base)
            if sv is None:
                return cnt, TOP
            loc, start, ln_, elems = sv
            if it[1] == "chunks":
                hi = max(ln[5] - n, 0)
                off = mk_int(64, False, None, 0, hi)
                s0 = int_const(start)
                win_start = off if s0 == 0 else int_binop("Add", start, off)
                return cnt, ptr(loc[0], loc[1], loc[2], (win_start, const(n, 64)), base[5] if is_ptr(base) else False)
            idx = mk_int(64, False, None, 0, max(ln[5] - 1, 0))
            return cnt, ptr(loc[0], loc[1], loc[2] + (("i", idx if int_const(start) == 0 else int_binop("Add", start, idx), None),), None, False)
        if it[1] == "array":
            return len(it[2][0]), TOP
        if it[1] == "enumerate":
            cnt, item = iter_items(I, st, it[2][0])
            return cnt, agg("tuple", None, None, [mk_int(64, False, None, 0, max(cnt - 1, 0)), item])
        if it[1] == "zip":
            ca, ia = iter_items(I, st, it[2][0])
            cb, ib = iter_items(I, st, it[2][1])
            if ca is None or cb is None:
                return None, TOP
            return min(ca, cb), agg("tuple", None, None, [ia, ib])
        return None, TOP
    I.iter_items = iter_items

    # ---------------- iteration over concrete integer ranges
    @model("iter::IntoIterator::into_iter", "iter::traits::collect::IntoIterator::into_iter")
    def into_iter(I, st, a, ctx):
        return [(a[0], st)]

    @model("Option::<T>::take", "option::Option::take", "mem::take")
    def opt_take(I, st, a, ctx):
        p = a[0]
        if not is_ptr(p):
            return NotImplemented
        old = I.read_loc(st, (p[1], p[2], p[3], None))
        nm = (ctx.get("term", {}).get("callee") or "")
        if "Option" in nm or (is_agg(old) and (old[2] or "").endswith("option::Option")):
            I.write_loc(st, (p[1], p[2], p[3], None), NONE)
            return [(old, st)]
        return NotImplemented

    @model("mem::replace", "Option::<T>::replace", "option::Option::replace")
    def mem_replace(I, st, a, ctx):
        p = a[0]
        if not is_ptr(p) or len(a) != 2:
            return NotImplemented
        old = I.read_loc(st, (p[1], p[2], p[3], None))
        new = a[1]
        if "Option" in (ctx.get("term", {}).get("callee") or ""):
            new = some(a[1])
        I.write_loc(st, (p[1], p[2], p[3], None), new)
        return [(old, st)]

    @model("<impl [T]>::split_at_mut", "<impl [T]>::split_at", "slice::split_at_mut", "slice::split_at")
    def split_at(I, st, a, ctx):
        # (&s[..mid], &s[mid..]) as two windows on the same storage
        sv = slice_view(I, st, a[0])
        if sv is None or len(a) != 2 or not is_int(a[1]) or not is_int(sv[2]):
            return NotImplemented
        loc, start, ln, _e = sv
        mid = a[1]
        okb = int_const(I.cmp("Le", mid, ln, st)) == 1
        panic_ob(I, st, ctx, "split_at:bounds", okb, "split_at(%s) may exceed length %s" % (I.show(mid), I.show(ln)))
        if not okb:
            return NotImplemented
        mut = "mut" in (ctx.get("term", {}).get("callee") or "")
        s2 = mid if int_const(start) == 0 else int_binop("Add", start, mid)
        left = ptr(loc[0], loc[1], loc[2], (start, mid), mut)
        right = ptr(loc[0], loc[1], loc[2], (s2, int_binop("Sub", ln, mid)), mut)
        return [(agg("tuple", None, None, [left, right]), st)]

    @model("<impl [T]>::contains", "slice::contains")
    def slice_contains(I, st, a, ctx):
        # s.contains(&x) over integers: decided when every element comparison is
        sv = slice_view(I, st, a[0])
        xp = a[1]
        x = I.read_loc(st, (xp[1], xp[2], xp[3], None)) if is_ptr(xp) else xp
        if sv is None or not is_int(x):
            return [(top_int(1), st)]
        loc, start, ln, _e = sv
        s0, n = int_const(start), int_const(ln)
        if s0 is None or n is None or n > 64:
            return [(top_int(1), st)]
        undecided = False
        for i in range(n):
            e = I.read_loc(st, (loc[0], loc[1], loc[2] + (("i", const(s0 + i, 64), None),), None))
            if not is_int(e):
                return [(top_int(1), st)]
            c = int_const(I.cmp("Eq", e, x, st))
            if c == 1:
                return [(const(1, 1), st)]
            undecided = undecided or c is None
        return [(top_int(1) if undecided else const(0, 1), st)]

    @model("<impl [T]>::get", "<impl [T]>::get_mut", "slice::get", "slice::get_mut")
    def slice_get(I, st, a, ctx):
        # s.get(i) with a usize index: Some(&s[i]) when i < len, else None (range arguments are left to the caller)
        if len(a) != 2 or not is_int(a[1]):
            return NotImplemented
        sv = slice_view(I, st, a[0])
        if sv is None or not is_int(sv[2]):
            return NotImplemented
        loc, start, ln, _e = sv
        i = a[1]
        if i[5] < ln[4]:
            inb = True
        elif i[4] >= ln[5]:
            inb = False
        else:
            inb = None
        s0 = int_const(start)
        idx = i if s0 == 0 else int_binop("Add", start, i)
        item = ptr(loc[0], loc[1], loc[2] + (("i", idx, None),), None, a[0][5] if is_ptr(a[0]) and len(a[0]) > 5 else False)
        if inb is True:
            return [(some(item), st)]
        if inb is False:
            return [(NONE, st)]
        return [(some(item), st.fork()), (NONE, st)]

    @model("Iterator::zip")
    def zip_(I, st, a, ctx):
        # (a by-value array iterator is the array of its remaining items, see next_)
        a = [("iter", "array", (tuple(x[1]),)) if isinstance(x, tuple) and x and x[0] == "arr" else x for x in a]
        if all(isinstance(x, tuple) and x and x[0] == "iter" for x in a[:2]) and len(a) >= 2:
            return [(("iter", "zip", (a[0], a[1])), st)]
        return NotImplemented

    def concrete_next(I, st, it):
        """one exact step of an iterator over storage of known length: (item | None when exhausted, iterator afterwards);
        NotImplemented when the length is not a constant"""
        pos = it[3] if len(it) > 3 else 0
        if it[1] == "array":
            items = it[2][0]
            if pos >= len(items):
                return None, it
            return items[pos], (it[0], it[1], it[2], pos + 1)
        if it[1] in ("slice", "chunks"):
            base, n, ln = it[2]
            total = int_const(ln)
            sv = slice_view(I, st, base)
            if total is None or sv is None or int_const(sv[1]) is None:
                return NotImplemented
            if pos >= total // n:
                return None, it
            loc, start, _ln, _e = sv
            s0 = int_const(start)
            if it[1] == "chunks":
                item = ptr(loc[0], loc[1], loc[2], (const(s0 + pos * n, 64), const(n, 64)), base[5] if is_ptr(base) else False)
            else:
                item = ptr(loc[0], loc[1], loc[2] + (("i", const(s0 + pos, 64), None),), None, base[5] if is_ptr(base) and len(base) > 5 else False)
            return item, (it[0], it[1], it[2], pos + 1)
        if it[1] == "enumerate":
            r = concrete_next(I, st, it[2][0])
            if r is NotImplemented:
                return r
            item, inner = r
            if item is None:
                return None, it
            return agg("tuple", None, None, [const(pos, 64), item]), (it[0], it[1], (inner,), pos + 1)
        if it[1] == "zip":
            ra = concrete_next(I, st, it[2][0])
            if ra is NotImplemented:
                return ra
            if ra[0] is None:
                return None, it
            rb = concrete_next(I, st, it[2][1])
            if rb is NotImplemented:
                return rb
            if rb[0] is None:
                return None, (it[0], it[1], (ra[1], it[2][1]))
            return agg("tuple", None, None, [ra[0], rb[0]]), (it[0], it[1], (ra[1], rb[1]))
        return NotImplemented

    @model("Iterator::next")
    def next_(I, st, a, ctx):
        p = a[0]
        if not is_ptr(p):
            return NotImplemented
        v = I.read_loc(st, (p[1], p[2], p[3], None))
        if isinstance(v, tuple) and v and v[0] == "arr" and "array::IntoIter" in (ctx.get("term", {}).get("callee_full") or ""):
            # `[a, b].into_iter()`: the by-value array iterator, modelled as the array of the items still to come
            if not v[1]:
                return [(NONE, st)]
            I.write_loc(st, (p[1], p[2], p[3], None), arr(list(v[1][1:])))
            return [(some(v[1][0]), st)]
        if isinstance(v, tuple) and v and v[0] == "iter" and I.mode == "bv":
            # exact mode: loops are unrolled, so the iterator is stepped exactly when its length is a constant
            r = concrete_next(I, st, v)
            if r is not NotImplemented:
                item, v2 = r
                I.write_loc(st, (p[1], p[2], p[3], None), v2)
                return [(NONE if item is None else some(item), st)]
        if isinstance(v, tuple) and v and v[0] == "iter":
            cnt, item = iter_items(I, st, v)
            if cnt is None:
                return NotImplemented
            if cnt == 0:
                return [(NONE, st)]
            return [(some(item), st.fork()), (NONE, st)]
        if is_agg(v) and v[2] and v[2].split("::")[-1] == "Range" and len(v[4]) == 2:
            s, e = v[4]
            cs, ce = (int_const(s) if is_int(s) else None), (int_const(e) if is_int(e) else None)
            if cs is not None and ce is not None:
                if cs < ce:
                    I.write_loc(st, (p[1], p[2], p[3], None), agg(v[1], v[2], v[3], [const(cs + 1, s[1], s[2]), e]))
                    return [(some(s), st)]
                return [(NONE, st)]
        return NotImplemented

    # ---------------- Option / Result plumbing
    @model("Option::<T>::unwrap", "Option::<T>::expect", "option::Option::unwrap", "option::Option::expect")
    def opt_unwrap(I, st, a, ctx):
        v = a[0]
        vs = variants_of(v)
        panic_ob(I, st, ctx, "unwrap:None", vs == [1], "unwrap/expect on an Option that may be None")
        if vs == [0]:
            return []
        return [(payload(v, 1) if vs == [1] else TOP, st)]

    @model("Result::<T, E>::unwrap", "Result::<T, E>::expect", "result::Result::unwrap", "result::Result::expect")
    def res_unwrap(I, st, a, ctx):
        v = a[0]
        vs = variants_of(v)
        panic_ob(I, st, ctx, "unwrap:Err", vs == [0], "unwrap/expect on a Result that may be Err")
        if vs == [1]:
            return []
        return [(payload(v, 0) if vs == [0] else TOP, st)]

    @model("Option::<T>::unwrap_or", "option::Option::unwrap_or")
    def opt_unwrap_or(I, st, a, ctx):
        v = a[0]
        vs = variants_of(v)
        if vs == [1]:
            return [(payload(v, 1), st)]
        if vs == [0]:
            return [(a[1], st)]
        return [(join(a[1], TOP), st)]

    @model("Option::<T>::is_some", "Option::<T>::is_none", "option::Option::is_some", "option::Option::is_none")
    def opt_is(I, st, a, ctx):
        p = a[0]
        v = I.read_loc(st, (p[1], p[2], p[3], None)) if is_ptr(p) else p
        vs = variants_of(v)
        want = 1 if ctx["term"]["callee"].endswith("is_some") else 0
        if len(vs) == 1:
            return [(const(int(vs[0] == want), 1), st)]
        return [(top_int(1), st)]

    @model("Option::<T>::ok_or", "option::Option::ok_or")
    def ok_or(I, st, a, ctx):
        v = a[0]
        outs = []
        for vr in variants_of(v):
            if vr == 1:
                outs.append((ok(payload(v, 1)), st.fork()))
            else:
                outs.append((err(a[1]), st.fork()))
        return outs

    def _apply(I, st, f, args, depth):
        if isinstance(f, tuple) and f and f[0] == "fn":
            return I.call_fn_item(f, args, st, depth)
        r = I.call_closure([f, agg("tuple", None, None, args)], st, depth)
        if r is None:
            return [(TOP, st)]
        return r

    @model("Option::<T>::map", "option::Option::map")
    def opt_map(I, st, a, ctx):
        v, f = a[0], a[1]
        outs = []
        for vr in variants_of(v):
            s2 = st.fork()
            if vr == 1:
                for (r, s3) in _apply(I, s2, f, [payload(v, 1)], ctx["depth"] + 1):
                    outs.append((some(r), s3))
            else:
                outs.append((NONE, s2))
        return outs

    @model("Option::<T>::and_then", "option::Option::and_then")
    def opt_and_then(I, st, a, ctx):
        v, f = a[0], a[1]
        outs = []
        for vr in variants_of(v):
            s2 = st.fork()
            if vr == 1:
                outs.extend(_apply(I, s2, f, [payload(v, 1)], ctx["depth"] + 1))
            else:
                outs.append((NONE, s2))
        return outs

    @model("Result::<T, E>::map_err", "result::Result::map_err")
    def res_map_err(I, st, a, ctx):
        v, f = a[0], a[1]
        outs = []
        for vr in variants_of(v):
            s2 = st.fork()
            if vr == 0:
                outs.append((ok(payload(v, 0)), s2))
            else:
                for (r, s3) in _apply(I, s2, f, [payload(v, 1)], ctx["depth"] + 1):
                    outs.append((err(r), s3))
        return outs

    @model("Result::<T, E>::map", "result::Result::map")
    def res_map(I, st, a, ctx):
        v, f = a[0], a[1]
        outs = []
        for vr in variants_of(v):
            s2 = st.fork()
            if vr == 0:
                for (r, s3) in _apply(I, s2, f, [payload(v, 0)], ctx["depth"] + 1):
                    outs.append((ok(r), s3))
            else:
                outs.append((err(payload(v, 1)), s2))
        return outs

    @model("Result::<T, E>::ok", "result::Result::ok")
    def res_ok(I, st, a, ctx):
        v = a[0]
        outs = []
        for vr in variants_of(v):
            outs.append(((some(payload(v, 0)) if vr == 0 else NONE), st.fork()))
        return outs

    @model("Result::<T, E>::is_err", "Result::<T, E>::is_ok", "result::Result::is_err", "result::Result::is_ok")
    def res_is(I, st, a, ctx):
        p = a[0]
        v = I.read_loc(st, (p[1], p[2], p[3], None)) if is_ptr(p) else p
        vs = variants_of(v)
        want = 1 if ctx["term"]["callee"].endswith("is_err") else 0
        if len(vs) == 1:
            return [(const(int(vs[0] == want), 1), st)]
        return [(top_int(1), st)]

    @model("ops::Try::branch", "try_trait::Try::branch")
    def try_branch(I, st, a, ctx):
        v = a[0]
        full = ctx["term"].get("callee_full", "")
        is_opt = "Option<" in full.split(" as ")[0]
        outs = []
        for vr in variants_of(v):
            s2 = st.fork()
            if is_opt:
                if vr == 1:
                    outs.append((agg("enum", CF, 0, [payload(v, 1)]), s2))
                else:
                    outs.append((agg("enum", CF, 1, [NONE]), s2))
            else:
                if vr == 0:
                    outs.append((agg("enum", CF, 0, [payload(v, 0)]), s2))
                else:
                    outs.append((agg("enum", CF, 1, [err(payload(v, 1))]), s2))
        return outs

    @model("ops::FromResidual::from_residual", "try_trait::FromResidual::from_residual")
    def from_residual(I, st, a, ctx):
        v = a[0]
        if is_agg(v) and v[2] == RESULT:
            return [(err(payload(v, 1)), st)]
        if is_agg(v) and v[2] == OPTION:
            return [(NONE, st)]
        dty = ctx.get("dest_ty") or ""
        if dty.startswith("core::option::Option"):
            return [(NONE, st)]
        return [(err(TOP), st)]

    @model("intrinsics::discriminant_value")
    def discr(I, st, a, ctx):
        p = a[0]
        v = I.read_loc(st, (p[1], p[2], p[3], None)) if is_ptr(p) else p
        if is_agg(v) and v[3] is not None:
            ad = I.F.adts.get(v[2])
            d = int(ad["variants"][v[3]]["discr"]) if ad and ad["kind"] == "enum" else v[3]
            ti = ty_info(ctx.get("dest_ty") or "") or (64, True)
            return [(const(d, ti[0], ti[1]), st)]
        ti = ty_info(ctx.get("dest_ty") or "") or (64, True)
        return [(top_int(ti[0], ti[1]), st)]

    # ---------------- repository helpers with a verified summary (see rule MT0)
    @model("blockdevice::BlockCount::from_bytes")
    def from_bytes(I, st, a, ctx):
        x = a[0]
        if not is_int(x):
            return NotImplemented
        t = ("ceildiv", x[6], 512) if x[6] is not None else None
        lo, hi = (x[4] + 511) // 512, (x[5] + 511) // 512
        v = mk_int(32, False, None, lo, hi, t)
        return [(agg("struct", "blockdevice::BlockCount", 0, [I.apply_ranges(st, v)]), st)]

    # ---------------- panics
    @model("panicking::panic", "panicking::panic_fmt", "panicking::panic_display", "panicking::assert_failed", "panicking::panic_explicit", "option::expect_failed", "result::unwrap_failed",
           "panicking::panic_bounds_check", "panicking::panic_nounwind")
    def panic(I, st, a, ctx):
        fn = ctx.get("fn")
        t = ctx.get("term") or {}
        panic_ob(I, st, ctx, "panic-call", False, "explicit panic reachable: %s" % (t.get("snip") or t.get("callee")))
        return []

    I.models = M
    I.model_suffixes = S
