"""FS-layer rules: cache use discipline (WT1, BM1), FAT discipline (FT1-FT9), write order (OR1-OR6),
flush/close (FL1, FL2), info sector (IS1-IS3), DK1, TS1."""
from .framework import rule
from .ev import (all_guards, guarded, g_call, g_cmp, g_try_ok, try_inner, product, Bad, decode_edge)
from .mir import tstr, callee_of, path_matches, is_log_call, strip_refs, subterms, tmatch, find_sub, strip_generics
from .fsmodel import (is_cluster_const, VM, VMD, FATVOL, call_matches, CACHE_LOADS, CACHE_MUTATORS, FAT_MUTATORS, err_returns, ok_returns, maybe_ok_returns, table_of_term)
from .dataflow import roots, root_calls, derives_from_call, var_def_terms
from .rules_guard import has_sub, last_field, is_variant

FS_PREFIXES = ("volume_mgr::", "fat::", "filesystem::")

END_OF_FILE = 0xFFFFFFFF
EMPTY = 0


def fs_fns(F):
    return [f for f in F.fns if f.npath.startswith(FS_PREFIXES) or f.npath.startswith("<")]


def cache_loading_fns(F):
    """Names of local functions that (transitively) load the block cache."""
    loaders = set()
    direct = {}
    callees = {}
    for f in F.fns:
        cs = set()
        d = False
        for b, t in f.calls():
            if call_matches(t, CACHE_LOADS):
                d = True
            c = callee_of(t)
            if c and t.get("callee_local"):
                cs.add(c)
        direct[f.npath] = d
        callees[f.npath] = cs
    changed = True
    loaders = {n for n, d in direct.items() if d}
    while changed:
        changed = False
        for n, cs in callees.items():
            if n not in loaders and cs & loaders:
                loaders.add(n)
                changed = True
    return loaders


def ret_event(fn, b, s):
    """Classify an assignment to _0."""
    if s["k"] == "Assign" and s["p"]["l"] == 0 and not s["p"]["proj"]:
        v = fn.term_of_rvalue(s["rv"], b)
        if v[0] == "agg" and v[2]:
            if v[2].endswith("Result::Ok"):
                return ("ret", "Ok")
            if v[2].endswith("Result::Err"):
                inner = v[3][0]
                if inner[0] == "agg" and inner[2]:
                    return ("ret", "Err:" + inner[2].split("::")[-1])
                return ("ret", "Err")
        return ("ret", "other")
    return None


def ret_event_term(fn, b, t):
    if t["k"] == "Call" and t["dest"]["l"] == 0 and not t["dest"]["proj"]:
        c = callee_of(t) or ""
        if c.endswith("FromResidual::from_residual"):
            return ("ret", "Err:residual")
        return ("ret", "call:" + c.split("::")[-1])
    return None


# ---------------------------------------------------------------------------------------
# WT1


def _mut_ref_arg(fn, t, i):
    a = t["args"][i]
    if a.get("k") not in ("copy", "move"):
        return False
    ty = fn.locals[a["p"]["l"]]["ty"] if not a["p"]["proj"] else ""
    return ty.startswith("&mut")


READERS = ("OnDiskDirEntry::new", "read_u16", "read_u32", "Deref::deref", "DerefMut::deref_mut", "IndexMut::index_mut", "Index::index",
           "chunks_exact_mut", "chunks_exact", "Iterator::enumerate", "IntoIterator::into_iter", "Iterator::next", "Iterator::skip",
           "Try::branch", "map_err", "FromResidual::from_residual", "iter_mut", "iter")


@rule("WT1", ["C01", "C02", "C04", "C09"], floor=12,
      doc="write-through: after the cached block is modified (blank_mut, a store or a writer call through the &mut Block from read_mut/blank_mut) a write_back* must occur before the next cache load and before any Ok return")
def wt1(F, R):
    loaders = cache_loading_fns(F)
    is_cache_root = lambda n: path_matches(n, "BlockCache::read_mut") or path_matches(n, "BlockCache::blank_mut")
    total_mods = 0
    for fn in fs_fns(F):
        if not any(call_matches(t, ("BlockCache::read_mut", "BlockCache::blank_mut")) for b, t in fn.calls()):
            continue
        mods = {}

        def tainted(term):
            rs = roots(fn, term, stop=is_cache_root)
            return any(r[0] == "call" and r[1] and is_cache_root(r[1]) for r in rs)

        def classify(kind, payload):
            if kind == "stmt":
                f, b, i, s = payload
                e = ret_event(f, b, s)
                if e:
                    return e
                if s["k"] == "Assign" and s["p"]["proj"] and any(x[0] == "deref" for x in s["p"]["proj"]):
                    base = f.term_of_place({"l": s["p"]["l"], "proj": []})
                    if tainted(base):
                        mods[(b, i)] = "store " + f.place_str(s["p"])
                        return ("mod", f.loc(b, i))
                return None
            if kind == "term":
                f, b, t = payload
                if t["k"] != "Call" or is_log_call(t):
                    return None
                e = ret_event_term(f, b, t)
                if e:
                    return e
                c = callee_of(t) or ""
                if call_matches(t, ("BlockCache::write_back", "BlockCache::write_back_with_duplicate")):
                    return ("wb", f.loc(b))
                if call_matches(t, ("BlockCache::blank_mut",)):
                    mods[(b, None)] = "blank_mut"
                    return ("blank", f.loc(b))
                if call_matches(t, ("BlockCache::read", "BlockCache::read_mut")):
                    return ("load", f.loc(b), c.split("::")[-1])
                if t.get("callee_local") and c in loaders:
                    return ("load", f.loc(b), c.split("::")[-1])
                # writer call through a tainted &mut
                # consuming adaptors of an iterator over *shared* chunks / bytes only read the block (the &mut is the iterator's own state)
                ro_iter = c.startswith("core::iter::") and any(x in t.get("callee_full", "") for x in ("ChunksExact<", "slice::Iter<", "Chunks<", "Enumerate<core::slice::ChunksExact<", "Enumerate<core::slice::Iter<")) and "Mut<" not in t.get("callee_full", "")
                if not ro_iter and not any(c.endswith(r) or path_matches(c, r) for r in READERS):
                    for i, a in enumerate(t["args"]):
                        if _mut_ref_arg(f, t, i) and tainted(f.term_of_operand(a, b)):
                            mods[(b, None)] = "call " + c.split("::")[-1]
                            return ("mod", f.loc(b))
                return None
            return None

        def step(st, e):
            dirty, ret = st
            k = e[0]
            if k == "ret":
                return (dirty, e[1])
            if k == "mod":
                return (True, ret)
            if k == "blank":
                if dirty:
                    return Bad("modified block discarded by blank_mut at %s before write_back" % e[1])
                return (True, ret)
            if k == "load":
                if dirty:
                    return Bad("modified block discarded by cache load (%s) at %s before write_back" % (e[2], e[1]))
                return (False, ret)
            if k == "wb":
                return (False, ret)
            return st

        def at_exit(st, b):
            dirty, ret = st
            if dirty and not ret.startswith("Err"):
                return Bad("function returns (%s) with a modified cache block never written back" % ret)
            return None

        viol, n = product(fn, classify, step, (False, "none"), at_exit)
        total_mods += len(mods)
        for msg, trace, b in viol:
            R.bad(fn, "lost-write:" + msg.split(" at ")[0][:60], msg, fn.loc(b), trace=trace[-12:])
        if not viol:
            for (b, i), what in sorted(mods.items(), key=lambda x: (x[0][0], x[0][1] or -1)):
                R.ok(fn, "mod:" + what, "modification followed by write_back on all paths (%d product states)" % n, fn.loc(b, i))


# ---------------------------------------------------------------------------------------
# BM1


@rule("BM1", ["C01", "C04", "C09"], floor=4,
      doc="blank discipline: blank_mut (which discards the block) only (i) in VolumeManager::write under block_offset==0 && to_copy==block_avail with the written slice [block_offset..block_offset+to_copy], (ii) on blocks of the freshly allocated cluster in alloc_cluster under `zero`, (iii) on blocks of the new cluster in make_dir")
def bm1(F, R):
    n = 0
    for fn in F.fns:
        for b, t in fn.calls():
            if not call_matches(t, ("BlockCache::blank_mut",)):
                continue
            n += 1
            idx = fn.term_of_operand(t["args"][1], b)
            short = fn.npath.split("::")[-1]
            if fn.npath == VM + "::write":
                _bm1_write(F, R, fn, b, t, idx)
            elif fn.npath == FATVOL + "::alloc_cluster":
                rs = roots(fn, idx)
                calls = root_calls(rs)
                ok_idx = any(path_matches(c, "FatVolume::cluster_to_block") for c in calls) and not any("offset_bytes" in c for c in calls)
                # the cluster must be the one just found free
                ctb = [s for s in _all_subterms_through_vars(fn, idx) if s[0] == "call" and s[1] and path_matches(s[1], "FatVolume::cluster_to_block")]
                fresh = any(derives_from_call(fn, c[2][1], ("FatVolume::find_next_free_cluster",)) for c in ctb)
                zero_guard, _ = guarded(fn, b, lambda g: g.kind == "bool" and g.term[0] == "arg" and g.term[1] == 4 and g.truth is True)
                R.require(ok_idx and fresh, fn, "alloc:index", "blank_mut index %s is not a block of the freshly found cluster" % tstr(idx), fn.loc(b))
                R.require(zero_guard, fn, "alloc:zero-flag", "blank_mut not under the `zero` flag", fn.loc(b))
                # the whole cluster is wiped: the loop around blank_mut ends only when its block range is exhausted (or a cache
                # call fails), and every trip blanks - no early `break` under a condition of its own
                Ls = sorted([l for l in fn.loops() if b in l[1]], key=lambda l: len(l[1]))
                okw = bool(Ls)
                if Ls:
                    h_, body_, backs_ = Ls[0]
                    for (gb, gi, g) in all_guards(fn):
                        if gb not in body_ or fn.succ(gb)[gi][0] in body_ or fn.term(fn.land(fn.succ(gb)[gi][0]))["k"] == "Unreachable":
                            continue
                        exhausted = g.kind == "variant" and g.variant == "None" and has_sub(g.term, lambda q: q[0] == "call" and q[1] and q[1].endswith("Iterator::next"))
                        failed = g.kind == "variant" and g.variant in ("Break", "Err")
                        if not (exhausted or failed):
                            okw = False
                    skip_ = fn.reach([h_], cut_blocks=[b] + [x for x in fn.live_blocks() if x not in body_])
                    okw = okw and not any(bs in skip_ for bs in backs_ if bs != h_ or True) if backs_ else okw
                R.require(okw, fn, "alloc:wipes-whole-cluster", "the loop that blanks the new directory cluster can end early / go round without blanking (a condition of its own besides the exhausted block range): part of the cluster keeps stale directory entries", fn.loc(b))
            elif fn.npath == FATVOL + "::make_dir":
                ctb = [s for s in _all_subterms_through_vars(fn, idx) if s[0] == "call" and s[1] and path_matches(s[1], "FatVolume::cluster_to_block")]
                ok = bool(ctb) and all(last_field(strip_refs(c[2][1])) == "cluster" or "cluster" in tstr(c[2][1]) for c in ctb)
                fresh = any(derives_from_call(fn, c[2][1], ("FatVolume::alloc_cluster", "FatVolume::write_new_directory_entry")) for c in ctb)
                R.require(ok and fresh, fn, "mkdir:index", "blank_mut index %s is not a block of the new directory's cluster" % tstr(idx), fn.loc(b))
            else:
                R.bad(fn, "blank_mut@" + short, "blank_mut called outside the sanctioned contexts (existing block contents would be discarded)", fn.loc(b))
    if n == 0:
        R.bad(None, "anchor", "no blank_mut call sites", kind="anchor-missing")


def _all_subterms_through_vars(fn, term, seen=None, depth=0):
    if seen is None:
        seen = set()
    out = []
    if depth > 40:
        return out
    for s in subterms(term):
        out.append(s)
        if s[0] == "var" and s[1] not in seen:
            seen.add(s[1])
            for dt in var_def_terms(fn, s[1]):
                out.extend(_all_subterms_through_vars(fn, dt, seen, depth + 1))
    return out


def _bm1_write(F, R, fn, b, t, idx):
    # idx must be component .0 of the (block_idx, block_offset, block_avail) triple from find_data_on_disk
    idx = strip_refs(idx)
    if not (idx[0] == "place" and idx[1][0] == "var" and idx[2] == ("0",)):
        R.bad(fn, "write:triple", "cannot relate blank_mut index %s to a find_data_on_disk result triple" % tstr(idx), fn.loc(b))
        return
    T = idx[1][1]
    from_fd = all(derives_from_call(fn, d, ("find_data_on_disk",)) for d in var_def_terms(fn, T)) and bool(var_def_terms(fn, T))
    R.require(from_fd, fn, "write:triple-source", "the (block, offset, avail) triple must come from find_data_on_disk", fn.loc(b))
    comp = lambda k: (lambda x: (lambda y: y[0] == "place" and y[1][0] == "var" and y[1][1] == T and y[2] == (str(k),))(strip_refs(x)))
    isv = lambda k: comp(k)
    v1, v2 = 1, 2
    g_off0 = lambda g: g_cmp("Eq", True, isv(v1), lambda z: z[:2] == ("c", 0))(g) or g_cmp("Eq", True, lambda z: z[:2] == ("c", 0), isv(v1))(g)
    # (the two conditions may be tested directly or carried in a flag: `let partial = off != 0 || avail != n; if !partial {..}`)
    from .ev import implying_edges
    ok1 = fn.unreachable_without(b, list(implying_edges(fn, g_off0)))
    R.require(ok1, fn, "write:offset==0", "whole-block blanking reachable with a non-zero offset into the block (bytes before the offset would be zeroed)", fn.loc(b))

    def is_to_copy(x):
        x = strip_refs(x)
        if x[0] == "var":
            return any(is_to_copy(d) for d in var_def_terms(fn, x[1]))
        return x[0] == "call" and x[1] and x[1].endswith("::min") and any(isv(v2)(a) for a in x[2])

    g_full = lambda g: g_cmp("Eq", True, is_to_copy, isv(v2))(g) or g_cmp("Eq", True, isv(v2), is_to_copy)(g)
    ok2 = fn.unreachable_without(b, list(implying_edges(fn, g_full)))
    R.require(ok2, fn, "write:to_copy==avail", "whole-block blanking reachable when fewer bytes than the rest of the block are written (tail would be zeroed)", fn.loc(b))
    # block_avail must be LEN - block_offset in find_data_on_disk (so offset==0 && to_copy==avail <=> whole block)
    fd = F.fn(VMD + "::find_data_on_disk")
    oks = ok_returns(fd)
    good = False
    for (bb, ii, v) in oks:
        if v[0] == "agg" and len(v[3]) == 3:
            off, avail = v[3][1], v[3][2]
            from .poly import peq, SUB, C, nkey
            ko = nkey(off)
            good = peq(avail, SUB(C(512), off)) and isinstance(ko, tuple) and ko[0] == "bin" and ko[1] == "Rem" and ko[3] == ("poly", (((), 512),))
    R.require(good, fd, "find:avail=512-offset", "find_data_on_disk must return (idx, offset % 512, 512 - offset)", fd.loc(0))


def _triple_vars(fn, idx):
    """Given the var used as block index, find sibling vars assigned from .1 and .2 of the same tuple."""
    if idx[0] != "var":
        return None
    v0 = idx[1]
    sib = {}
    for d in fn.defs().get(v0, []):
        if d[0] != "assign":
            continue
        rv = d[3]
        if rv["k"] == "Use" and rv["op"].get("k") in ("copy", "move"):
            p = rv["op"]["p"]
            if p["proj"] and p["proj"][-1][0] == "field" and p["proj"][-1][1] == 0:
                base = (p["l"], tuple(tuple(x) for x in p["proj"][:-1]))
                # look for siblings in the same block
                for b2, i2, s2 in fn.stmts():
                    if b2 != d[1] or s2["k"] != "Assign" or s2["p"]["proj"]:
                        continue
                    rv2 = s2["rv"]
                    if rv2["k"] == "Use" and rv2["op"].get("k") in ("copy", "move"):
                        p2 = rv2["op"]["p"]
                        if p2["proj"] and p2["proj"][-1][0] == "field" and (p2["l"], tuple(tuple(x) for x in p2["proj"][:-1])) == base:
                            sib.setdefault(p2["proj"][-1][1], set()).add(s2["p"]["l"])
    if 1 in sib and 2 in sib and len(sib[1]) == 1 and len(sib[2]) == 1:
        return v0, next(iter(sib[1])), next(iter(sib[2]))
    return None


# ---------------------------------------------------------------------------------------
# FAT rules


def fat_arms(fn):
    """Blocks exclusively inside the Fat16 / Fat32 arm of a match on fat_specific_info."""
    arms = {"Fat16": set(), "Fat32": set()}
    for (b, i, g) in all_guards(fn):
        if g.kind == "variant" and g.variant in arms and "fat_specific_info" in tstr(g.term):
            cut = fn.reach([0], cut_edges=[(b, i)])
            for x in fn.live_blocks():
                if x not in cut:
                    arms[g.variant].add(x)
    return arms


def fat_slices(fn):
    """Per FAT type, the blocks that can execute when self.fat_specific_info is of that type (every match on it decided):
    shared code before / between / after the per-type arms belongs to both slices."""
    from .ev import specialise_enum
    is_fsi = lambda x: x[0] == "place" and x[2] and [e for e in x[2] if isinstance(e, str) and e != "*"][-1:] == ["fat_specific_info"]
    return {T: fn.reach([0], cut_edges=specialise_enum(fn, is_fsi, ["Fat16", "Fat32"], T)) for T in ("Fat16", "Fat32")}


def fat_views(fn):
    """Per FAT type, fn as it is when self.fat_specific_info is of that type (ev.restricted_view): every match on the type is
    decided, variables chosen per type are constants.  Code parameterised by a per-type variable (`entry_size`) and code
    written out twice in the arms of one match look the same in the views."""
    c = getattr(fn, "_fat_views", None)
    if c is None:
        from .ev import specialise_enum, restricted_view
        is_fsi = lambda x: x[0] == "place" and x[2] and [e for e in x[2] if isinstance(e, str) and e != "*"][-1:] == ["fat_specific_info"]
        c = {T: restricted_view(fn, specialise_enum(fn, is_fsi, ["Fat16", "Fat32"], T)) for T in ("Fat16", "Fat32")}
        fn._fat_views = c
    return c


def _update_fat_calls(fn):
    out = []
    for b, t in fn.calls():
        if call_matches(t, ("FatVolume::update_fat",)):
            cl = fn.term_of_operand(t["args"][2], b)
            val = fn.term_of_operand(t["args"][3], b)
            kind = "link"
            if is_cluster_const(None, val, "END_OF_FILE"):
                kind = "EOF"
            elif is_cluster_const(None, val, "EMPTY"):
                kind = "EMPTY"
            elif val[0] == "c":
                kind = "const:%s" % val[1]
            out.append((b, t, cl, val, kind))
    return out


@rule("FT1", ["C03", "C04", "C16"], floor=8,
      doc="who-writes-FAT: a mutable cache access (read_mut/blank_mut) whose index lies in the FAT region (fat_start/second_fat_start + offset_bytes) occurs only in update_fat; write_back_with_duplicate only in update_fat; no mutable access indexes a bare constant or bare lba_start (MBR/boot sector)")
def ft1(F, R):
    for fn in F.fns:
        for b, t in fn.calls():
            n = call_matches(t, ("BlockCache::read_mut", "BlockCache::blank_mut"))
            if n:
                idx = fn.term_of_operand(t["args"][1], b)
                subs = _all_subterms_through_vars(fn, idx)
                fat = any(s[0] == "call" and s[1] and path_matches(s[1], "BlockCount::offset_bytes") for s in subs) or any(
                    s[0] == "place" and any(e in ("fat_start", "second_fat_start") for e in s[2] if isinstance(e, str)) for s in subs)
                rs = roots(fn, idx)
                bare = all(r[0] in ("c", "agg") or (r[0] == "field" and r[2] == "lba_start") or (r[0] == "arg" and r[2] == "lba_start") for r in rs) and bool(rs)
                inside = fn.npath == FATVOL + "::update_fat"
                if fat:
                    R.require(inside, fn, n.split("::")[-1] + ":fat-region", "FAT-region block mutated outside update_fat (index %s)" % tstr(idx), fn.loc(b))
                elif inside:
                    R.bad(fn, n.split("::")[-1] + ":non-fat", "update_fat mutates a block whose index is not in the FAT region: %s" % tstr(idx), fn.loc(b))
                else:
                    R.require(not bare, fn, n.split("::")[-1] + ":index", "mutable cache access at a constant / partition-start block (%s): MBR or boot sector would be written" % tstr(idx), fn.loc(b))
            if call_matches(t, ("BlockCache::write_back_with_duplicate",)):
                R.require(fn.npath == FATVOL + "::update_fat", fn, "dup-writer", "write_back_with_duplicate used outside update_fat", fn.loc(b))
    # the second FAT is a write-only mirror: its position is used by update_fat (the duplicate write) and set by parse_volume,
    # and by nothing else - a chain walk that reads links from the copy follows whatever an earlier, unmirrored state of the
    # table says and ends up in other files' clusters
    import json as _json
    users = 0
    for fn in F.fns:
        if "::tests" in fn.npath or '"second_fat_start"' not in _json.dumps([fn.blocks[b] for b in fn.live_blocks()]):
            continue
        owner = fn.npath if fn.kind != "Closure" else fn.npath.rsplit("::{closure", 1)[0]
        if owner.startswith("<"):      # derived Debug / PartialEq / Clone of the geometry record
            continue
        users += 1
        R.require(owner in (FATVOL + "::update_fat", "fat::volume::parse_volume"), fn, "second-fat-write-only", "%s uses second_fat_start: the FAT copy is only ever written (by update_fat, next to the first FAT), never read or addressed elsewhere" % owner.split("::")[-1], fn.loc(0))
    R.require(users >= 1, None, "second-fat-users", "expected update_fat to address the second FAT")


@rule("FT2", ["C03", "C04", "C16"], floor=6,
      doc="update_fat: per FAT type the block read is lba_start + fat_start.offset_bytes(cluster*k); the duplicate index is lba_start + second_fat_start.offset_bytes(same offset) exactly when second_fat_start is Some; every Ok path writes back with the duplicate when present")
def ft2(F, R):
    fn = F.fn(FATVOL + "::update_fat")
    arms = fat_slices(fn)

    def in_slice(term, blocks):
        """term with locals that hold one constant in this FAT type's slice replaced by that constant (`entry_size`)"""
        if not isinstance(term, tuple) or not term:
            return term
        if term[0] == "var":
            cs_ = {strip_refs(fn.term_of_rvalue(d_[3], d_[1]))[1] for d_ in fn.defs().get(term[1], []) if d_[0] == "assign" and d_[1] in blocks and strip_refs(fn.term_of_rvalue(d_[3], d_[1]))[0] == "c"}
            nd_ = [d_ for d_ in fn.defs().get(term[1], []) if d_[1] in blocks]
            if len(cs_) == 1 and all(d_[0] == "assign" and strip_refs(fn.term_of_rvalue(d_[3], d_[1]))[0] == "c" for d_ in nd_):
                return ("c", next(iter(cs_)), None)
            return term
        return tuple(in_slice(x, blocks) if isinstance(x, tuple) else x for x in term)
    for arm, k in (("Fat16", 2), ("Fat32", 4)):
        rms = [(b, t) for b, t in fn.calls() if b in arms[arm] and call_matches(t, ("BlockCache::read_mut",))]
        if len(rms) != 1:
            R.bad(fn, arm + ":read_mut", "expected exactly one read_mut on the %s path, found %d" % (arm, len(rms)), kind="anchor-missing")
            continue
        b, t = rms[0]
        idx = in_slice(fn.term_of_operand(t["args"][1], b), arms[arm])
        pat = ("call", "Add::add", [("place", ("arg", 1), ("*", "lba_start")),
                                   ("call", "BlockCount::offset_bytes", [("place", ("arg", 1), ("*", "fat_start")), "$off"])])
        env = tmatch(idx, pat)
        ok = env is not None and tmatch(env["$off"], ("bin", "Mul", ("place", ("arg", 3), ("0",)), ("c", k))) is not None
        R.require(ok, fn, arm + ":primary-index", "primary FAT block must be lba_start + fat_start.offset_bytes(cluster.0 * %d); got %s" % (k, tstr(idx)), fn.loc(b))
        # duplicate index assigned in this arm
        dups = []
        for bb, ii, s in fn.stmts():
            if bb in arms[arm] and s["k"] == "Assign" and not s["p"]["proj"]:
                v = in_slice(fn.term_of_rvalue(s["rv"], bb), arms[arm])
                if v[0] == "agg" and v[2] and v[2].endswith("Option::Some") and has_sub(v, lambda q: q[0] == "call" and q[1] and path_matches(q[1], "BlockCount::offset_bytes")):
                    dups.append((bb, ii, v))
        okd = False
        pat2 = ("call", "Add::add", [("place", ("arg", 1), ("*", "lba_start")), ("call", "BlockCount::offset_bytes", ["$base", "$off2"])])
        is_geo = lambda x: (lambda y: y[0] == "place" and last_field(y) == "second_fat_start" and strip_refs(y[1])[:2] == ("arg", 1))(strip_refs(x))
        for bb, ii, v in dups:
            e2 = tmatch(v[3][0], pat2)
            if e2 is not None and env is not None and e2["$off2"] == env["$off"] and "second_fat_start" in tstr(e2["$base"]):
                g, _ = guarded(fn, bb, lambda g: g.kind == "variant" and g.variant == "Some" and "second_fat_start" in tstr(g.term))
                okd = g
        # ... or self.second_fat_start.map(|s| lba_start + s.offset_bytes(off)): Some exactly when the geometry has a second FAT
        from .mir import inline_closure
        for bb, t2 in fn.calls():
            if bb in arms[arm] and (callee_of(t2) or "").endswith("Option::map"):
                ct = in_slice(fn.call_term(t2, bb), arms[arm])
                if is_geo(ct[2][0]):
                    body = inline_closure(F, ct[2][1], [("place", strip_refs(ct[2][0]), ("as:Some", "0"))])
                    e2 = tmatch(body, pat2) if body is not None else None
                    if e2 is not None and env is not None and e2["$off2"] == env["$off"] and is_geo(strip_refs(e2["$base"])[1] if strip_refs(e2["$base"])[0] == "place" and tuple(strip_refs(e2["$base"])[2][-2:]) == ("as:Some", "0") and len(strip_refs(e2["$base"])[2]) == 2 else e2["$base"]) or (e2 is not None and env is not None and e2["$off2"] == env["$off"] and "second_fat_start as Some" in tstr(e2["$base"])):
                        okd = True
        R.require(okd, fn, arm + ":duplicate-index", "duplicate FAT block must be lba_start + second_fat_start.offset_bytes(<same offset>) under second_fat_start == Some", fn.loc(b))
    # write-back discipline
    wbd = [(b, t) for b, t in fn.calls() if call_matches(t, ("BlockCache::write_back_with_duplicate",))]
    wb = [(b, t) for b, t in fn.calls() if call_matches(t, ("BlockCache::write_back",))]
    R.require(len(wbd) == 1 and len(wb) == 1, fn, "write-back-sites", "expected one write_back_with_duplicate and one write_back", fn.loc(0))
    for b, t in wb:
        # plain write_back only when no duplicate was computed
        ok, _ = guarded(fn, b, lambda g: g.kind in ("variant", "variants") and (g.variant == "None" or g.variant == ("None",)))
        R.require(ok, fn, "plain-only-if-no-dup", "plain write_back reachable although a duplicate FAT index exists (second FAT copy would go stale)", fn.loc(b))
    for b, t in wbd:
        dv = fn.term_of_operand(t["args"][1], b)
        R.require("Some" in tstr(dv) or has_sub(dv, lambda q: q[0] == "var"), fn, "dup-arg", "write_back_with_duplicate argument is not the computed duplicate index", fn.loc(b))
    for (bb, ii, v) in ok_returns(fn):
        ok, _ = guarded(fn, bb, lambda g: (g_try_ok("BlockCache::write_back")(g) or g_try_ok("BlockCache::write_back_with_duplicate")(g)))
        R.require(ok, fn, "ok-after-writeback", "Ok return reachable without a successful write_back*", fn.loc(bb, ii))


def _arm_consts(fn, blocks):
    """Width-related constants used inside a set of blocks."""
    sig = {"mul": set(), "rw": set(), "extent": set(), "stride": set(), "bound": set(), "mask": set(), "chunk": set()}
    for b in sorted(blocks):
        blk = fn.blocks[b]
        for s in blk["stmts"]:
            if s["k"] != "Assign":
                continue
            rv = s["rv"]
            if rv["k"] == "BinaryOp":
                l, r = fn.term_of_operand(rv["l"], b), fn.term_of_operand(rv["r"], b)
                # a width held in a local (`let entry_size = match fat type { .. => 2, .. => 4 }`): its definitions in these blocks
                def _as_const(x_):
                    if strip_refs(x_)[0] == "var":
                        cs_ = {strip_refs(fn.term_of_rvalue(d_[3], d_[1]))[1] for d_ in fn.defs().get(strip_refs(x_)[1], []) if d_[0] == "assign" and d_[1] in blocks and strip_refs(fn.term_of_rvalue(d_[3], d_[1]))[0] == "c"}
                        if len(cs_) == 1:
                            return ("c", next(iter(cs_)), None)
                    return x_
                l, r = _as_const(l), _as_const(r)
                op = rv["op"].replace("WithOverflow", "")
                if op in ("Mul", "Add", "BitAnd") and strip_refs(l)[0] == "c" and strip_refs(r)[0] != "c":
                    l, r = r, l             # commutative: the constant is the right operand
                if op == "Mul" and r[0] == "c" and last_field(strip_refs(l)) == "0":
                    sig["mul"].add(r[1])
                if op == "Add" and r[0] == "c" and l[0] != "c":
                    lt = fn.locals[s["p"]["l"]]["ty"]
                    if "usize" in lt:
                        sig["stride"].add(r[1])
                # scan bound as the largest admitted offset: x <= c / x < c+1 / c >= x / c+1 > x
                if op in ("Le", "Lt") and r[0] == "c" and r[1] > 256:
                    sig["bound"].add(r[1] if op == "Le" else r[1] - 1)
                if op in ("Ge", "Gt") and l[0] == "c" and l[1] > 256:
                    sig["bound"].add(l[1] if op == "Ge" else l[1] - 1)
                # ... or as the first offset that ends the scan: x > c / x >= c+1 / c < x / c+1 <= x (`if off > LEN - w { break }`)
                if op in ("Gt", "Ge") and r[0] == "c" and r[1] > 256:
                    sig["bound"].add(r[1] if op == "Gt" else r[1] - 1)
                if op in ("Lt", "Le") and l[0] == "c" and l[1] > 256:
                    sig["bound"].add(l[1] if op == "Lt" else l[1] - 1)
                if op == "BitAnd" and r[0] == "c" and r[1] > 0xFFFF:
                    sig["mask"].add(r[1])
                if op == "BitAnd" and l[0] == "c" and l[1] > 0xFFFF:
                    sig["mask"].add(l[1])
            if rv["k"] == "Aggregate" and rv.get("adt", "").endswith(("ops::Range", "ops::Range::Range")) and len(rv["ops"]) == 2:
                # half-open o..o+w covers the same bytes as o..=o+(w-1)
                hi = fn.term_of_operand(rv["ops"][1], b)
                if tmatch(hi, ("bin", "Add", "_", ("c", "_"))) is not None and isinstance(hi[3][1], int) and hi[3][1] <= 8:
                    sig["extent"].add(hi[3][1] - 1)
        t = blk["term"]
        if t["k"] == "Call":
            c = callee_of(t) or ""
            for nm, w in (("read_u16", 2), ("write_u16", 2), ("read_u32", 4), ("write_u32", 4)):
                if c.endswith("ByteOrder::" + nm):
                    sig["rw"].add(w)
            if c.endswith(("chunks_exact", "chunks_exact_mut", "slice::chunks")) and len(t["args"]) == 2:
                n_ = fn.term_of_operand(t["args"][1], b)
                if n_[0] == "c" and isinstance(n_[1], int):
                    sig["chunk"].add(n_[1])         # the scan walks the sector in entry-sized chunks
            if c.endswith("RangeInclusive::new"):
                hi = fn.term_of_operand(t["args"][1], b)
                e = tmatch(hi, ("bin", "Add", "_", ("c", "_")))
                if e is not None:
                    sig["extent"].add(hi[3][1])
    # strides include the range extents (both are `+ const` on usize); remove them
    sig["stride"] -= sig["extent"]
    sig["stride"].discard(1)
    return sig


@rule("FT3", ["C03", "C04", "C16"], floor=6,
      doc="entry-width agreement between the FAT16 and FAT32 arms of update_fat, next_cluster, find_next_free_cluster: multiplier, byteorder width, range extent, scan stride and scan bound all equal the FAT type's entry width (2 / 4); FAT32 values masked with 0x0FFF_FFFF")
def ft3(F, R):
    expect = {"Fat16": {"mul": {2}, "rw": {2}, "extent": {1}}, "Fat32": {"mul": {4}, "rw": {4}, "extent": {3}}}
    for name in ("update_fat", "next_cluster", "find_next_free_cluster"):
        fn = F.fn(FATVOL + "::" + name)
        arms0 = fat_arms(fn)
        arms = fat_slices(fn)
        for arm in ("Fat16", "Fat32"):
            if not arms0[arm]:
                R.bad(fn, arm + ":arm", "no %s arm found" % arm, kind="anchor-missing")
                continue
            # (read off the function as it is for this FAT type: a width kept in a per-type variable is a constant there)
            fv = fat_views(fn)[arm]
            sig = _arm_consts(fv, set(fv.live_blocks()))
            k = 2 if arm == "Fat16" else 4
            # every width indicator that is present says k, and the essential ones are present: the byte offset is
            # cluster * k, the entry is read / written with the k-byte accessor, and whatever delimits one entry in the
            # sector (an inclusive range of extent k-1, a stride of k with a last offset of 512-k, or k-byte chunks) agrees
            problems = []
            for key, conv in (("mul", lambda v: v), ("rw", lambda v: v), ("extent", lambda v: v + 1), ("stride", lambda v: v), ("bound", lambda v: 512 - v), ("chunk", lambda v: v)):
                if key in ("stride", "bound") and name != "find_next_free_cluster":
                    continue
                got_ = {conv(v) for v in sig[key] if not (key == "bound" and v > 512)}
                if got_ - {k}:
                    problems.append("%s=%s (entry width %d expected)" % (key, sorted(sig[key]), k))
            if not sig["mul"]:
                problems.append("no `cluster * %d` byte offset" % k)
            if not sig["rw"]:
                problems.append("no %d-byte read/write of the entry" % k)
            if not (sig["extent"] or sig["chunk"]):
                problems.append("the entry's byte range is not delimited (range of extent %d or %d-byte chunks)" % (k - 1, k))
            if name == "find_next_free_cluster" and not (sig["chunk"] or (sig["stride"] and sig["bound"])):
                problems.append("the sector scan has no entry-sized step (stride %d up to offset %d, or %d-byte chunks)" % (k, 512 - k, k))
            if arm == "Fat32" and name != "find_next_free_cluster" or (arm == "Fat32" and name == "find_next_free_cluster"):
                if 0x0FFFFFFF not in sig["mask"]:
                    problems.append("missing 0x0FFF_FFFF mask (got %s)" % sorted(hex(m) for m in sig["mask"]))
            R.require(not problems, fn, arm + ":width", "%s arm of %s uses inconsistent entry-width constants: %s" % (arm, name, "; ".join(problems)), fn.loc(min(arms[arm])),
                      okdetail="%s arm constants %s" % (arm, {k2: sorted(v) for k2, v in sig.items() if v}))


@rule("FT4", ["C04", "C16"], floor=3,
      doc="update_fat FAT32 arm writes (old & 0xF000_0000) | (new & 0x0FFF_FFFF) where old is read from the same byte range it writes; special values map INVALID->0x0FFFFFF6/0xFFF6, BAD->..F7, EMPTY->0, END_OF_FILE->0xFFFF (FAT16) / 0x0FFFFFFF after masking (FAT32)")
def ft4(F, R):
    fn = F.fn(FATVOL + "::update_fat")
    arms = fat_arms(fn)
    w32 = [(b, t) for b, t in fn.calls() if b in arms["Fat32"] and (callee_of(t) or "").endswith("ByteOrder::write_u32")]
    if len(w32) > 1:
        # one call changes one entry: every ordering argument (mark the new cluster before linking it, unlink before
        # freeing) counts update_fat calls as single-entry writes
        R.bad(fn, "fat32:one-entry-per-call", "update_fat stores %d FAT32 entries in one call: a call changes the one entry it was asked to change (a second entry written along rides on sector arithmetic that differs per FAT type and is seen by none of the ordering rules)" % len(w32), fn.loc(w32[1][0]))
    elif len(w32) != 1:
        R.bad(fn, "fat32:write_u32", "expected one write_u32 in the FAT32 arm", kind="anchor-missing")
    for b, t in w32:
        val = fn.term_of_operand(t["args"][1], b)
        dst = fn.term_of_operand(t["args"][0], b)
        pat = ("bin", "BitOr", ("bin", "BitAnd", ("call", "ByteOrder::read_u32", ["$src"]), ("c", 0xF0000000)), ("bin", "BitAnd", "$entry", ("c", 0x0FFFFFFF)))
        env = tmatch(val, pat)
        if env is None and val[0] == "bin" and val[1] == "BitOr":
            env = tmatch(("bin", "BitOr", val[3], val[2]), pat)      # | is commutative
        ok = env is not None
        R.require(ok, fn, "fat32:nibble", "FAT32 entry must be written as (existing & 0xF000_0000) | (entry & 0x0FFF_FFFF); got %s" % tstr(val), fn.loc(b))
        if ok:
            # same range for read and write
            rng_r = find_sub(env["$src"], ("call", "RangeInclusive::new", ["$a", "$b"]))
            rng_w = find_sub(dst, ("call", "RangeInclusive::new", ["$a", "$b"]))
            if rng_r is None or rng_w is None or rng_r != rng_w:
                # the same window however it is sliced (`o..=o+3`, `o..o+4`, `o..end` with end = o + 4): start and length as polynomials
                from .rules_walk import slice_window
                from .poly import peq as _peq
                wr_, ww_ = slice_window(env["$src"]), slice_window(dst)
                if wr_ is not None and ww_ is not None and wr_[2] is not None and ww_[2] is not None and _peq(wr_[1], ww_[1]) and _peq(wr_[2], ww_[2]):
                    rng_r = rng_w = ("same-window",)
            R.require(rng_r is not None and rng_w is not None and rng_r == rng_w, fn, "fat32:same-range", "read and write of the FAT32 entry use different byte ranges", fn.loc(b))
    # special value tables, decided by value: for each special cluster number (and one ordinary one) the tests of new_value are
    # decided and the definition of the entry that reaches the write is read off - match, if-chain, helper function alike
    from .specialise import specialise_on
    NV = 4      # update_fat(self, block_cache, cluster, new_value)
    is_nv = lambda q: (q[:2] == ("arg", NV)) or (q[0] == "place" and strip_refs(q[1])[:2] == ("arg", NV) and tuple(e for e in q[2] if e != "*") == ("0",))
    for arm, want in (("Fat16", {0xFFFFFFF6: 0xFFF6, 0xFFFFFFF7: 0xFFF7, 0: 0, 0xFFFFFFFF: 0xFFFF}), ("Fat32", {0xFFFFFFF6: 0x0FFFFFF6, 0xFFFFFFF7: 0x0FFFFFF7, 0: 0})):
        got = {}
        other_ok = False
        # (on the function as it is for this FAT type: per-type variables such as an entry width are constants there)
        fn0, fn = fn, fat_views(fn)[arm]
        wr = [(b, t) for b, t in fn.calls() if (callee_of(t) or "").endswith(("ByteOrder::write_u16", "ByteOrder::write_u32"))]
        evs = []
        for b, t in wr:
            for q in subterms(fn.term_of_operand(t["args"][1], b)):
                if q[0] == "var" and len([d for d in fn.defs().get(q[1], []) if d[0] == "assign"]) >= 2 and q[1] not in [e[0] for e in evs]:
                    evs.append((q[1], b))
        if len(evs) == 1:
            ev, wb = evs[0]
            from .specialise import compared_constants
            extra_keys = sorted(k_ for k_ in compared_constants(fn, is_nv) if k_ not in want and k_ != 0x1234)
            other_all = True
            for key in list(want) + [0x1234] + extra_keys:
                cut = specialise_on(fn, is_nv, key)
                rs = fn.reach([0], cut_edges=cut)
                vals = []
                for d in fn.defs().get(ev, []):
                    if d[0] == "assign" and d[1] in rs and wb in fn.reach([d[1]], cut_edges=cut):
                        vals.append(fn.term_of_rvalue(d[3], d[1]))
                if key not in want:
                    # an ordinary cluster number - and every other number the code compares new_value with - passes through
                    okk = len(vals) == 1 and vals[0][0] != "c" and has_sub(vals[0], lambda q: q[:2] == ("arg", NV))
                    other_all = other_all and okk
                    if not okk and len(vals) == 1 and vals[0][0] == "c":
                        got[key] = vals[0][1]
                    other_ok = other_all
                elif len(vals) == 1 and vals[0][0] == "c":
                    got[key] = vals[0][1]
        fn = fn0
        R.require(got == want and other_ok, fn, arm + ":special-values", "%s special-value table is %s, expected %s (and pass-through otherwise)" % (arm, {hex(k): hex(v) for k, v in got.items()}, {hex(k): hex(v) for k, v in want.items()}), fn.loc(min(arms[arm])) if arms[arm] else fn.loc(0))


@rule("FT5", ["C03", "C04", "C05", "C16"], floor=2,
      doc="free search bounded: every cluster returned by find_next_free_cluster has been compared `< end_cluster` since its last change (no return of a FAT-sector slack entry past the last cluster)")
def ft5(F, R):
    fn = F.fn(FATVOL + "::find_next_free_cluster")
    # variable returned
    rets = ok_returns(fn)
    if not rets:
        R.bad(fn, "anchor", "no Ok return", kind="anchor-missing")
    cur = None
    for (b, i, v) in rets:
        v = strip_refs(v)
        if v[0] == "var":
            cur = v[1]
    if cur is None:
        R.bad(fn, "anchor", "returned value is not a tracked variable", kind="anchor-missing")
        return

    def classify(kind, payload):
        if kind == "stmt":
            f, b, i, s = payload
            e = ret_event(f, b, s)
            if e:
                return (e[0], e[1], b)
            if s["k"] == "Assign" and s["p"]["l"] == cur:
                return ("set", f.loc(b, i))
            return None
        if kind == "term":
            f, b, t = payload
            if t["k"] == "Call":
                # current_cluster += 1 through AddAssign
                for a in t["args"]:
                    if a.get("k") in ("copy", "move"):
                        tt = f.term_of_operand(a, b)
                        if tt[0] == "ref" and tt[1][0] == "var" and tt[1][1] == cur and (callee_of(t) or "").endswith("AddAssign::add_assign"):
                            return ("set", f.loc(b))
            return None
        if kind == "edge":
            f, b, i, g = payload
            from .ev import cmp_forms
            for (op, a, bb, truth) in cmp_forms(g):
                if op == "Lt" and truth and has_sub(a, lambda q: q[0] == "var" and q[1] == cur) and has_sub(bb, lambda q: q[:2] == ("arg", 4)):
                    return ("checked",)
            return None

    def step(st, e):
        if e[0] == "set":
            return "unchecked"
        if e[0] == "checked":
            return "checked"
        if e[0] == "ret" and e[1] == "Ok":
            if st != "checked":
                return Bad("returns Ok(cluster) although the cluster was advanced and not re-compared with end_cluster")
        return st

    arms = fat_arms(fn)
    viol, n = product(fn, classify, step, "unchecked")
    seen = set()
    for msg, trace, b in viol:
        arm = "Fat16" if b in arms["Fat16"] else ("Fat32" if b in arms["Fat32"] else "?")
        if arm in seen:
            continue
        seen.add(arm)
        R.bad(fn, arm + ":unbounded-return", msg, fn.loc(b), trace=trace[-10:])
    for arm in ("Fat16", "Fat32"):
        if arm not in seen:
            R.ok(fn, arm + ":bounded", "every Ok return of the %s arm is preceded by `current < end_cluster` (product states %d)" % (arm, n))


def _count_writers(F):
    writers = set()
    for f in F.fns:
        for b, i, s in f.stmts():
            if s["k"] == "Assign" and s["p"]["proj"] and "free_clusters_count" in [e[2] for e in f.canon_place(s["p"])["proj"] if e[0] == "field"]:
                writers.add(f.npath)
            if s["k"] == "Assign" and s["rv"]["k"] == "Ref" and s["rv"].get("mut") and "free_clusters_count" in [e[2] for e in s["rv"]["p"]["proj"] if e[0] == "field"]:
                writers.add(f.npath)
    return writers


def _count_carriers(f):
    """locals whose value is moved wholesale into self.free_clusters_count and which are built as Some(..) / None only
    (`self.free_clusters_count = self.free_clusters_count.map(|n| n + 1)`, lowered): local -> True"""
    out = {}
    for b, i, s in f.stmts():
        if s["k"] == "Assign" and s["p"]["proj"] and s["rv"]["k"] == "Use" and s["rv"]["op"].get("k") in ("move", "copy") and not s["rv"]["op"]["p"]["proj"]:
            proj = f.canon_place(s["p"])["proj"]
            if proj and proj[-1][0] == "field" and proj[-1][2] == "free_clusters_count":
                l = s["rv"]["op"]["p"]["l"]
                ds = f.defs().get(l, [])
                if ds and all(d[0] == "assign" and d[3]["k"] == "Aggregate" and d[3].get("adt", "").endswith("option::Option") for d in ds):
                    out[l] = True
    return out


@rule("FT7", ["C05", "C16"], floor=4,
      doc="free-count pairing: in every function that updates free_clusters_count (besides mount) each update_fat(.., EMPTY) is followed by exactly one +1 before the next EMPTY event or the Ok return, each update_fat(.., END_OF_FILE) allocation by exactly one -1 on every Ok path, and the +-1 cannot overflow (saturating/checked)")
def ft7(F, R):
    writers = sorted(w for w in _count_writers(F) if w != "fat::volume::parse_volume")
    for must in (FATVOL + "::alloc_cluster", FATVOL + "::truncate_cluster_chain"):
        if must not in writers:
            R.bad(None, "writer:" + must.split("::")[-1], "%s does not maintain free_clusters_count" % must, kind="anchor-missing")
    for w in writers:
        fn = F.fn(w)
        pairs_eof = w.endswith("::alloc_cluster")  # END_OF_FILE marks an allocation only there (truncate re-terminates an existing chain)

        carriers = _count_carriers(fn)

        def classify(kind, payload, fn=fn):
            if kind == "stmt":
                f, b, i, s = payload
                e = ret_event(f, b, s)
                if e:
                    return e
                carried = s["k"] == "Assign" and not s["p"]["proj"] and s["p"]["l"] in carriers
                if carried and not (s["rv"].get("variant") == 1 and s["rv"]["ops"]):
                    # None built for the count: no change where the old value was tested to be None, else the count is forgotten
                    if guarded(f, b, lambda g: g.kind == "variant" and g.variant == "None" and "free_clusters_count" in tstr(g.term))[0]:
                        return None
                    return ("count-other", f.loc(b, i), "None")
                if s["k"] == "Assign" and s["p"]["proj"] and s["rv"]["k"] == "Use" and s["rv"]["op"].get("k") in ("move", "copy") and s["rv"]["op"]["p"]["l"] in carriers and not s["rv"]["op"]["p"]["proj"]:
                    return None                                     # the carrier stored: its definitions are the events
                if s["k"] == "Assign" and s["p"]["proj"] or carried:
                    dst = f.term_of_place(s["p"]) if not carried else ("other", "free_clusters_count")
                    if "free_clusters_count" in tstr(dst):
                        v = f.term_of_rvalue(s["rv"], b) if not carried else f.term_of_operand(s["rv"]["ops"][0], b)
                        for op, sign in (("Add", "+"), ("Sub", "-")):
                            if v[0] == "bin" and v[1] == op and v[3][:2] == ("c", 1):
                                return ("count", sign, "unchecked", f.loc(b, i))
                        for nm, sign in (("saturating_add", "+"), ("saturating_sub", "-"), ("wrapping_add", "+!"), ("wrapping_sub", "-!")):
                            if v[0] == "call" and v[1] and v[1].endswith("::" + nm) and v[2][1][:2] == ("c", 1):
                                return ("count", sign, "safe", f.loc(b, i))
                        return ("count-other", f.loc(b, i), tstr(v))
                return None
            if kind == "term":
                f, b, t = payload
                if t["k"] == "Call":
                    e = ret_event_term(f, b, t)
                    if e:
                        return e
                    if call_matches(t, ("FatVolume::update_fat",)):
                        val = f.term_of_operand(t["args"][3], b)
                        if is_cluster_const(None, val, "EMPTY"):
                            return ("free", f.loc(b))
                        if is_cluster_const(None, val, "END_OF_FILE"):
                            return ("eof", f.loc(b))
                        return ("link", f.loc(b))
                return None
            if kind == "edge":
                f, b, i, g = payload
                if g.kind in ("variant", "variants") and "free_clusters_count" in tstr(g.term):
                    return ("known", g.variant == "Some")
                if g.kind == "variant" and g.variant == "Break":
                    x = try_inner(g.term)
                    if x is not None and x[0] == "call" and path_matches(x[1], "FatVolume::update_fat"):
                        return ("fat-failed",)
                if g.kind == "bool" and g.term[0] == "call" and g.term[1] and g.term[1].endswith("Result::is_ok") and g.truth is False and "update_fat" in tstr(g.term):
                    return ("fat-failed",)
                return None

        def step(st, e, pairs_eof=pairs_eof):
            pf, pa, ret = st
            k = e[0]
            if k == "ret":
                return (pf, pa, e[1])
            if k == "fat-failed":
                return (0, 0, ret)
            if k == "free":
                if pf >= 1:
                    return Bad("a cluster is freed while the previous free has not been added to free_clusters_count (the count falls behind by one per chain)")
                return (pf + 1, pa, ret)
            if k == "eof" and pairs_eof:
                return (pf, pa + 1, ret)
            if k == "known" and e[1] is False:
                return (0, 0, ret)
            if k == "count":
                if e[1].startswith("+"):
                    if pf == 0:
                        return Bad("free_clusters_count incremented without a freed cluster")
                    return (pf - 1, pa, ret)
                if pa == 0:
                    return Bad("free_clusters_count decremented without an allocation")
                return (pf, pa - 1, ret)
            if k == "count-other":
                return Bad("free_clusters_count changed by something other than +-1 (%s)" % e[2])
            return st

        def at_exit(st, b):
            pf, pa, ret = st
            if ret == "Ok" and pf > 0:
                return Bad("returns Ok with a freed cluster not added to free_clusters_count")
            if ret == "Ok" and pa > 0:
                return Bad("returns Ok with an allocated cluster not subtracted from free_clusters_count")
            return None

        viol, n = product(fn, classify, step, (0, 0, "none"), at_exit)
        short = w.split("::")[-1]
        for msg, trace, b in viol[:1]:
            R.bad(fn, short + ":pairing", msg, fn.loc(b), trace=trace[-10:])
        if not viol:
            R.ok(fn, short + ":pairing", "every EMPTY/END_OF_FILE event paired with +1/-1 (product states %d)" % n)
        # overflow safety of each update
        for b, i, s in fn.stmts():
            carried = s["k"] == "Assign" and not s["p"]["proj"] and s["p"]["l"] in carriers and s["rv"].get("variant") == 1 and s["rv"]["ops"]
            if carried or s["k"] == "Assign" and s["p"]["proj"] and "free_clusters_count" in tstr(fn.term_of_place(s["p"])):
                v = fn.term_of_rvalue(s["rv"], b) if not carried else fn.term_of_operand(s["rv"]["ops"][0], b)
                if v[0] == "bin" and v[1] in ("Add", "Sub"):
                    R.bad(fn, "count-overflow:" + v[1], "`free_clusters_count %s= 1` on the untrusted on-disk count can overflow-panic (the FSInfo value may be 0 or 0xFFFFFFFE)" % ("+" if v[1] == "Add" else "-"), fn.loc(b, i))
                elif v[0] == "call" and v[1] and ("saturating_" in v[1] or "checked_" in v[1]):
                    R.ok(fn, "count-safe:" + v[1].split("::")[-1], "overflow-safe update %s" % tstr(v), fn.loc(b, i))
    R.ok(None, "count-writers", "writers of free_clusters_count: %s" % writers)


@rule("FT8", ["C05", "C16"], floor=1,
      doc="delete releases the chain: every Ok path of delete_file_in_dir passes through update_fat(.., EMPTY) (directly or through a callee)")
def ft8(F, R):
    fn = F.fn(VM + "::delete_file_in_dir")
    # transitive callees that free clusters
    freeing = set()
    for f in F.fns:
        for (b, t, cl, val, kind) in _update_fat_calls(f):
            if kind == "EMPTY":
                freeing.add(f.npath)
    changed = True
    while changed:
        changed = False
        for f in F.fns:
            if f.npath in freeing:
                continue
            for b, t in f.calls():
                c = callee_of(t)
                if c in freeing:
                    freeing.add(f.npath)
                    changed = True
                    break
    sites = [b for b, t in fn.calls() if callee_of(t) in freeing]
    # every place the answer can become Ok: an Ok built here, or a callee's result handed on as the tail expression
    oks = maybe_ok_returns(fn)
    for (b, i) in oks:
        reach = fn.reach([0], cut_blocks=sites)
        R.require(b not in reach, fn, "frees-chain", "delete_file_in_dir can return Ok without freeing the file's cluster chain (no update_fat(.., EMPTY) on the path): every delete leaks the file's clusters", fn.loc(b, i))


@rule("FT9", ["C05", "C03"], floor=3,
      doc="truncate loop frees the visited cluster: both continuing outcomes of next_cluster(next) (Ok(n), EndOfFile) call update_fat(next, EMPTY) with the loop cursor, before the cursor advances")
def ft9(F, R):
    fn = F.fn(FATVOL + "::truncate_cluster_chain")
    calls = _update_fat_calls(fn)
    empt = [c for c in calls if c[4] == "EMPTY"]
    eof = [c for c in calls if c[4] == "EOF"]
    R.require(len(eof) == 1 and strip_refs(eof[0][2])[:2] == ("arg", 3), fn, "terminate-head", "the chain head `cluster` must be marked END_OF_FILE (got %s)" % [tstr(c[2]) for c in eof], fn.loc(eof[0][0]) if eof else None)
    # every cluster the walk looks up is freed: from either continuing outcome of next_cluster(cursor) (Ok, EndOfFile) no
    # reassignment of the cursor, no further trip and no Ok return is reachable without passing update_fat(cursor, EMPTY)
    ncs = [(b2, t2) for b2, t2 in fn.calls() if call_matches(t2, ("FatVolume::next_cluster",)) and any(b2 in body for (h, body, backs) in fn.loops())]
    okf = len(empt) >= 1 and len(ncs) == 1
    if okf:
        nb, nt = ncs[0]
        cur = strip_refs(fn.term_of_operand(nt["args"][2], nb))
        loop = [(h, body, backs) for (h, body, backs) in fn.loops() if nb in body][0]
        outcome = [(gb, gi) for (gb, gi, g) in all_guards(fn) if g.kind == "variant" and g.variant in ("Ok", "EndOfFile") and has_sub(g.term, lambda q: q[0] == "call" and q[1] and path_matches(q[1], "FatVolume::next_cluster") and q[3] == nb)]
        stops = {loop[0]} | {x[0] for x in ok_returns(fn)}
        if cur[0] == "var":
            stops |= {d[1] for d in fn.defs().get(cur[1], []) if d[1] in loop[1]}
        okf = len(outcome) >= 2
        for (gb, gi) in outcome:
            free = fn.reach([fn.succ(gb)[gi][0]], cut_blocks=[c[0] for c in empt])
            if free & stops:
                okf = False
    # the walk goes to the end of the chain: once in the loop, Ok is returned only after next_cluster answered EndOfFile
    # (a walk that gives up after a counted number of links leaves the rest of a long chain allocated without an owner)
    if len(ncs) == 1:
        nb_ = ncs[0][0]
        lp_ = [(h, body, backs) for (h, body, backs) in fn.loops() if nb_ in body][0]
        isend = lambda g: g.kind == "variant" and g.variant == "EndOfFile" and has_sub(g.term, lambda q: q[0] == "call" and q[1] and path_matches(q[1], "FatVolume::next_cluster") and q[3] == nb_)
        for (rb, ri, rv) in ok_returns(fn):
            if rb in fn.reach([lp_[0]]):
                from .ev import implying_edges
                # (the answer may be carried to the exit in a local: `let following = match .. { Err(EndOfFile) => None, .. }`)
                okend = fn.unreachable_without(rb, list(implying_edges(fn, isend)), lp_[0])
                R.require(okend, fn, "walks-to-end", "truncate_cluster_chain can return Ok from its loop without having reached the end of the chain: the clusters behind stay allocated with no owner", fn.loc(rb, ri))
    R.require(okf, fn, "frees", "a cluster looked up by the truncation walk can be left allocated: after next_cluster(cursor) answered Ok / EndOfFile the walk moves on (or finishes) without update_fat(cursor, EMPTY)", fn.loc(0))
    for (b, t, cl, val, kind) in empt:
        c = strip_refs(cl)
        # the cursor is the var fed to next_cluster in the loop
        ok = c[0] == "var" and any(tstr(strip_refs(fn.term_of_operand(t2["args"][2], b2))) == tstr(c) for b2, t2 in fn.calls() if call_matches(t2, ("FatVolume::next_cluster",)))
        R.require(ok, fn, "free-cursor", "update_fat(.., EMPTY) must free the loop cursor (the cluster just looked up), got %s" % tstr(cl), fn.loc(b))
        # reached only under a next_cluster outcome Ok or Err(EndOfFile)
        g1, _ = guarded(fn, b, lambda g: g.kind == "variant" and g.variant in ("Ok", "EndOfFile") and has_sub(g.term, lambda q: q[0] == "call" and q[1] and path_matches(q[1], "FatVolume::next_cluster")))
        R.require(g1, fn, "free-after-lookup", "cluster freed without a successful next_cluster lookup of its successor", fn.loc(b))


# ---------------------------------------------------------------------------------------
# write order


def _fat_event_classifier(fn, extra=None):
    def classify(kind, payload):
        if kind == "stmt":
            f, b, i, s = payload
            e = ret_event(f, b, s)
            if e:
                return e
            return None
        if kind == "term":
            f, b, t = payload
            if t["k"] != "Call" or is_log_call(t):
                return None
            e = ret_event_term(f, b, t)
            if e:
                return e
            if call_matches(t, ("FatVolume::update_fat",)):
                cl = f.term_of_operand(t["args"][2], b)
                val = f.term_of_operand(t["args"][3], b)
                if is_cluster_const(None, val, "END_OF_FILE"):
                    return ("fat", "EOF", tstr(cl), f.loc(b))
                if is_cluster_const(None, val, "EMPTY"):
                    return ("fat", "EMPTY", tstr(cl), f.loc(b))
                return ("fat", "LINK", tstr(cl) + "->" + tstr(val), f.loc(b))
            if extra:
                return extra(f, b, t)
            return None
        return None
    return classify


@rule("OR1", ["C03", "C10"], floor=2,
      doc="alloc_cluster: on every path update_fat(new, END_OF_FILE) precedes update_fat(prev, new); new derives from find_next_free_cluster; when zeroing is requested all blank_mut/write_back of the new cluster precede the predecessor link")
def or1(F, R):
    fn = F.fn(FATVOL + "::alloc_cluster")

    def extra(f, b, t):
        if call_matches(t, ("BlockCache::blank_mut",)):
            return ("zero", f.loc(b))
        return None

    def step(st, e):
        eof, linked = st
        if e[0] == "fat":
            if e[1] == "EOF":
                return (True, linked)
            if e[1] == "LINK":
                if not eof:
                    return Bad("predecessor linked to the new cluster before the new cluster is end-marked (%s)" % e[3])
                return (eof, True)
        if e[0] == "zero":
            if linked:
                return Bad("zero-after-link")
        return st

    viol, n = product(fn, _fat_event_classifier(fn, extra), step, (False, False))
    a = [v for v in viol if "end-marked" in v[0]]
    z = [v for v in viol if v[0] == "zero-after-link"]
    for msg, trace, b in a[:1]:
        R.bad(fn, "eof-before-link", msg, fn.loc(b), trace=trace[-8:])
    if not a:
        R.ok(fn, "eof-before-link", "END_OF_FILE mark precedes the predecessor link on all paths (%d states)" % n)
    for msg, trace, b in z[:1]:
        R.bad(fn, "zero-before-link", "a directory cluster is linked into the chain before it is zeroed: power loss in between exposes stale cluster contents as directory entries", fn.loc(b), trace=trace[-8:])
    if not z:
        R.ok(fn, "zero-before-link", "zeroing precedes the predecessor link")
    # provenance of the new cluster
    for (b, t, cl, val, kind) in _update_fat_calls(fn):
        if kind == "EOF":
            _rs = roots(fn, cl, stop=lambda n_: path_matches(n_, "FatVolume::find_next_free_cluster"))
            R.require(bool(_rs) and all(r[0] == "call" and r[1] and path_matches(r[1], "FatVolume::find_next_free_cluster") for r in _rs),
                      fn, "new-from-free-search", "the cluster marked END_OF_FILE must be a result of find_next_free_cluster (an entry verified free), got %s with roots %s" % (tstr(cl), sorted(str(r) for r in roots(fn, cl))), fn.loc(b))
        if kind == "link":
            R.require(derives_from_call(fn, val, ("FatVolume::find_next_free_cluster",)), fn, "link-to-new", "predecessor must be linked to the newly found cluster", fn.loc(b))


@rule("OR2", ["C03", "C05", "C10"], floor=3,
      doc="truncate_cluster_chain: the first FAT write is update_fat(cluster, END_OF_FILE) and every EMPTY write follows it; in open_file_in_dir (truncate) truncate_cluster_chain precedes update_length(0) precedes write_entry_to_disk")
def or2(F, R):
    fn = F.fn(FATVOL + "::truncate_cluster_chain")

    def step(st, e):
        if e[0] == "fat":
            if e[1] == "EOF":
                if e[2] != (fn.local_name(3) or "cluster"):   # the ClusterId parameter, whatever it is called
                    return Bad("END_OF_FILE written to %s instead of the retained chain head `cluster`" % e[2])
                return "terminated"
            if e[1] == "EMPTY" and st != "terminated":
                return Bad("a cluster is freed before the chain head is terminated (%s)" % e[3])
            if e[1] == "LINK":
                return Bad("unexpected link write in truncate")
        return st

    viol, n = product(fn, _fat_event_classifier(fn), step, "start")
    for msg, trace, b in viol[:2]:
        R.bad(fn, "terminate-first", msg, fn.loc(b), trace=trace[-8:])
    if not viol:
        R.ok(fn, "terminate-first", "END_OF_FILE(cluster) precedes every EMPTY (%d states)" % n)
    fn2 = F.fn(VM + "::open_file_in_dir")

    def cl2(kind, payload):
        if kind == "term":
            f, b, t = payload
            if t["k"] == "Call":
                for nme in ("FatVolume::truncate_cluster_chain", "FileInfo::update_length", "FatVolume::write_entry_to_disk"):
                    if call_matches(t, (nme,)):
                        return ("ev", nme.split("::")[-1], f.loc(b))
        return None

    order = ["truncate_cluster_chain", "update_length", "write_entry_to_disk"]

    def step2(st, e):
        if e[0] == "ev":
            i = order.index(e[1])
            if i < st:
                return Bad("%s after %s" % (e[1], order[st]))
            if i > st + 1:
                return Bad("%s reached without %s" % (e[1], order[st + 1] if st + 1 < len(order) else "?"))
            return i
        return st

    viol, n = product(fn2, cl2, step2, -1)
    for msg, trace, b in viol[:2]:
        R.bad(fn2, "truncate-order", "truncate-on-open order violated: " + msg, fn2.loc(b), trace=trace)
    if not viol:
        R.ok(fn2, "truncate-order", "truncate_cluster_chain < update_length < write_entry_to_disk")
    ul = [(b, t) for b, t in fn2.calls() if call_matches(t, ("FileInfo::update_length",))]
    R.require(len(ul) == 1 and fn2.term_of_operand(ul[0][1]["args"][1], ul[0][0])[:2] == ("c", 0), fn2, "truncate-length-0", "truncate must set the length to 0", fn2.loc(ul[0][0]) if ul else None)


@rule("OR3", ["C10"], floor=2,
      doc="make_dir: (a) no entry naming the new directory is written to the parent before its cluster is allocated; (b) the parent entry carrying the final cluster is written only after that cluster is initialised (dot entries written / blocks zeroed)")
def or3(F, R):
    fn = F.fn(FATVOL + "::make_dir")

    def classify(kind, payload):
        if kind == "term":
            f, b, t = payload
            if t["k"] == "Call":
                if call_matches(t, ("FatVolume::write_new_directory_entry",)):
                    return ("parent-entry", f.loc(b))
                if call_matches(t, ("FatVolume::write_entry_to_disk",)):
                    return ("parent-entry", f.loc(b))
                if call_matches(t, ("FatVolume::alloc_cluster",)):
                    return ("alloc", f.loc(b))
                if call_matches(t, ("BlockCache::blank_mut",)):
                    return ("init-block", f.loc(b))
        return None

    def step_a(st, e):
        if e[0] == "alloc":
            return True
        if e[0] == "parent-entry" and not st:
            return Bad("the parent directory gets an entry for the new directory (at %s) before a cluster has been allocated for it: after a power cut the sub-directory entry has no cluster of its own (start cluster 0 is read back as the root directory)" % e[1])
        return st

    def step_b(st, e):
        alloc, init = st
        if e[0] == "alloc":
            return (True, init)
        if e[0] == "init-block":
            return (alloc, True)
        if e[0] == "parent-entry" and alloc and not init:
            return Bad("the parent entry is (re)written with the new cluster (at %s) before that cluster is initialised: after a power cut the directory exposes uninitialised cluster contents as entries" % e[1])
        return st

    va, n = product(fn, classify, step_a, False)
    vb, n2 = product(fn, classify, step_b, (False, False))
    if va:
        R.bad(fn, "entry-before-alloc", va[0][0], fn.loc(va[0][2]), trace=va[0][1])
    else:
        R.ok(fn, "entry-before-alloc", "allocation precedes every parent entry write (%d states)" % n)
    if vb:
        R.bad(fn, "entry-before-init", vb[0][0], fn.loc(vb[0][2]), trace=vb[0][1])
    else:
        R.ok(fn, "entry-before-init", "initialisation precedes the parent entry carrying the cluster (%d states)" % n2)


@rule("OR4", ["C02", "C09", "C10"], floor=2,
      doc="flush_file: update_info_sector precedes write_entry_to_disk (entry last); VolumeManager::write: the data write_back of an iteration precedes update_length/seek of that iteration")
def or4(F, R):
    fn = F.fn(VM + "::flush_file")

    def classify(kind, payload):
        if kind == "term":
            f, b, t = payload
            if t["k"] == "Call":
                if call_matches(t, ("FatVolume::update_info_sector",)):
                    return ("info",)
                if call_matches(t, ("FatVolume::write_entry_to_disk",)):
                    return ("entry",)
        return None

    def step(st, e):
        if e[0] == "info" and st == "entry":
            return Bad("info sector written after the directory entry")
        if e[0] == "entry":
            return "entry"
        return st

    viol, n = product(fn, classify, step, "start")
    for msg, trace, b in viol[:1]:
        R.bad(fn, "entry-last", msg, fn.loc(b), trace=trace)
    if not viol:
        R.ok(fn, "entry-last", "info sector precedes entry write")
    fn2 = F.fn(VM + "::write")
    for b, t in fn2.calls():
        if call_matches(t, ("FileInfo::update_length",)):
            ok, _ = guarded(fn2, b, g_try_ok("BlockCache::write_back"))
            R.require(ok, fn2, "length-after-data", "file length updated before the data block's write_back succeeded", fn2.loc(b))


@rule("OR6", ["C10", "C05"], floor=1,
      doc="delete: the directory slot is marked 0xE5 before any cluster of the chain is freed (no live entry ever refers to freed clusters)")
def or6(F, R):
    fn = F.fn(VM + "::delete_file_in_dir")
    freeing = {f.npath for f in F.fns if any(k == "EMPTY" for (_b, _t, _c, _v, k) in _update_fat_calls(f))}
    freeing |= {f.npath for f in F.fns if any(callee_of(t) in freeing for b, t in f.calls())}

    def classify(kind, payload):
        if kind == "term":
            f, b, t = payload
            if t["k"] == "Call":
                if call_matches(t, ("FatVolume::delete_directory_entry",)):
                    return ("slot",)
                if callee_of(t) in freeing:
                    return ("free", f.loc(b))
        return None

    def step(st, e):
        if e[0] == "slot":
            return True
        if e[0] == "free" and not st:
            return Bad("chain freed at %s before the directory slot is marked deleted" % e[1])
        return st

    viol, n = product(fn, classify, step, False)
    for msg, trace, b in viol[:1]:
        R.bad(fn, "slot-before-free", msg, fn.loc(b), trace=trace)
    if not viol:
        R.ok(fn, "slot-before-free", "slot marked before chain release (or no release present: see FT8)")
    # and the entry stays gone: once the slot is marked, delete writes no directory entry any more (putting the entry back
    # after the chain was - partly - released leaves a live entry on free clusters)
    slots = [b for b, t in fn.calls() if call_matches(t, ("FatVolume::delete_directory_entry",))]
    for sb in slots:
        after = fn.reach_after(sb)
        for b, t in fn.calls():
            if b in after and call_matches(t, ("FatVolume::write_entry_to_disk", "FatVolume::write_new_directory_entry")):
                R.bad(fn, "entry-stays-deleted", "delete writes a directory entry again after the slot was marked deleted: a live entry can refer to clusters already released", fn.loc(b))


# ---------------------------------------------------------------------------------------
# flush / close


@rule("FL1", ["C02", "C09"], floor=3,
      doc="flush_file: when dirty, every Ok path writes &open_files[file].entry with write_entry_to_disk; write_entry_to_disk reads entry.entry_block mutably, copies the 32 serialized bytes at entry.entry_offset and writes back")
def fl1(F, R):
    fn = F.fn(VM + "::flush_file")
    wes = [(b, t) for b, t in fn.calls() if call_matches(t, ("FatVolume::write_entry_to_disk",))]
    R.require(len(wes) == 1, fn, "entry-write", "flush_file must call write_entry_to_disk once", fn.loc(0))
    for b, t in wes:
        a = fn.term_of_operand(t["args"][2], b)
        ok = last_field(strip_refs(a)) == "entry" and table_of_term(a) == "open_files" and has_sub(a, lambda q: q[0] == "call" and q[1] and path_matches(q[1], "get_file_by_id"))
        R.require(ok, fn, "entry-arg", "flush must write the open file's own in-memory entry (got %s)" % tstr(a), fn.loc(b))
    # dirty => entry written: Ok return reachable without the write only via dirty == false
    for (b, i, v) in ok_returns(fn):
        cut = [x[0] for x in wes]
        edges = [(gb, gi) for (gb, gi, g) in all_guards(fn) if g.kind == "bool" and last_field(g.term) == "dirty" and g.truth is False]
        reach = fn.reach([0], cut_edges=edges, cut_blocks=cut)
        R.require(b not in reach, fn, "dirty-implies-write", "flush can return Ok for a dirty file without writing its directory entry", fn.loc(b, i))
    # a flush can always be carried through: the only assertion flush may make about the entry is "a length implies a cluster",
    # so every explicit panic lies behind a test size != 0 (a dirty file whose first write failed has size 0 and no cluster;
    # a panic there makes the handle impossible to close)
    PAN = ("panicking::panic", "panicking::panic_fmt", "panicking::assert_failed", "panicking::panic_explicit", "panicking::panic_display")
    is_size = lambda a: last_field(strip_refs(a)) == "size"
    zero = lambda z: strip_refs(z)[:2] == ("c", 0)
    for b, t in fn.calls():
        c = callee_of(t) or ""
        if any(c.endswith(x) for x in PAN) and not is_log_call(t):
            ok = guarded(fn, b, g_cmp("Eq", False, is_size, zero))[0] or guarded(fn, b, g_cmp("Gt", True, is_size, zero))[0]
            R.require(ok, fn, "assert-only-with-length", "flush_file can panic for a file of length 0 (dirty, but no cluster yet: its first write failed): the handle can then never be flushed or closed", fn.loc(b))
    fn2 = F.fn(FATVOL + "::write_entry_to_disk")
    rms = [(b, t) for b, t in fn2.calls() if call_matches(t, ("BlockCache::read_mut",))]
    okr = False
    if len(rms) == 1:
        a_ = strip_refs(fn2.term_of_operand(rms[0][1]["args"][1], rms[0][0]))
        # write_entry_to_disk(self, block_cache, entry): the block is the third parameter's entry_block
        okr = a_[0] == "place" and strip_refs(a_[1])[:2] == ("arg", 3) and [e for e in a_[2] if isinstance(e, str) and e != "*"] == ["entry_block"]
    R.require(okr, fn2, "slot-block", "write_entry_to_disk must read_mut(entry.entry_block)", fn2.loc(0))
    cps = [(b, t) for b, t in fn2.calls() if (callee_of(t) or "").endswith("copy_from_slice")]
    okc = False
    for b, t in cps:
        d = tstr(fn2.term_of_operand(t["args"][0], b))
        s_ = tstr(fn2.term_of_operand(t["args"][1], b))
        okc = "entry_offset" in d and "Add(" in d and "0x20" in d and "serialize" in s_
    R.require(okc, fn2, "slot-bytes", "write_entry_to_disk must copy serialize() into block[entry_offset .. entry_offset+32]", fn2.loc(0))


@rule("FL2", ["C02", "C11"], floor=2,
      doc="close_file: flushes, then removes the handle on every path on which the handle lookup succeeds, independent of the flush result, and returns the flush result")
def fl2(F, R):
    fn = F.fn(VM + "::close_file")
    fl = [(b, t) for b, t in fn.calls() if call_matches(t, ("VolumeManager::flush_file",))]
    rm = [(b, t) for b, t in fn.calls() if call_matches(t, ("Vec::swap_remove",))]
    R.require(len(fl) == 1 and len(rm) == 1, fn, "sites", "close_file must call flush_file and swap_remove once each", fn.loc(0))
    if len(fl) == 1 and len(rm) == 1:
        fb, ft = fl[0]
        rb, rt = rm[0]
        # removal not control dependent on the flush result
        flush_local = ft["dest"]["l"]
        dep = False
        for (gb, gi, g) in all_guards(fn):
            if has_sub(g.raw, lambda q: q[0] == "var" and q[1] == flush_local) or has_sub(g.raw, lambda q: q[0] == "call" and q[1] and path_matches(q[1], "VolumeManager::flush_file")):
                if not fn.unreachable_without(rb, [(gb, gi)]) is False and rb not in fn.reach([0], cut_edges=[(gb, gi)]):
                    dep = True
        R.require(not dep, fn, "remove-regardless", "handle removal depends on the flush result (a failed flush would leave the handle open forever)", fn.loc(rb))
        # return value is the flush result after removal
        succ = fn.reach_after(rb)
        okret = False
        for b, i, s in fn.stmts():
            if b in succ | {rb} and s["k"] == "Assign" and s["p"]["l"] == 0 and not s["p"]["proj"]:
                v = fn.term_of_rvalue(s["rv"], b)
                okret = has_sub(v, lambda q: (q[0] == "var" and q[1] == flush_local) or (q[0] == "call" and q[1] and path_matches(q[1], "VolumeManager::flush_file")))
        R.require(okret, fn, "returns-flush-result", "close_file must return the flush result", fn.loc(rb))
    for nm, closer in (("File", "VolumeManager::close_file"), ("Directory", "VolumeManager::close_dir"), ("Volume", "VolumeManager::close_volume")):
        drops = [f for f in F.fns if f.npath.endswith("as core::ops::Drop>::drop") and ("::" + nm + "<") in f.path or (f.npath.endswith("as core::ops::Drop>::drop") and f.npath.startswith("<" ) and nm in f.npath.split(" as ")[0].split("::")[-1])]
        okd = any(any(call_matches(t, (closer,)) for b, t in f.calls()) for f in drops)
        R.require(okd, None, "drop:" + nm, "Drop for %s must call %s" % (nm, closer))


# ---------------------------------------------------------------------------------------
# info sector


@rule("IS1", ["C16"], floor=4,
      doc="unknown stays unknown: the info-sector stores and the +-1 updates happen only under the Some variant of the respective field; nothing assigns Some(_) to free_clusters_count besides mount")
def is1(F, R):
    fn = F.fn(FATVOL + "::update_info_sector")
    for b, t in fn.calls():
        if (callee_of(t) or "").endswith("copy_from_slice"):
            src = tstr(fn.term_of_operand(t["args"][1], b))
            fld = "free_clusters_count" if "free_clusters_count" in src else ("next_free_cluster" if "next_free_cluster" in src else None)
            if fld is None:
                R.bad(fn, "store-src", "info-sector store from unexpected source %s" % src, fn.loc(b))
                continue
            ok, _ = guarded(fn, b, lambda g, fld=fld: g.kind == "variant" and g.variant == "Some" and fld in tstr(g.term))
            R.require(ok, fn, "store:" + fld, "info-sector field %s stored although the in-memory value is unknown (None)" % fld, fn.loc(b))
            # the value stored is the field's value itself, little-endian - not a clamped / adjusted one
            sv = strip_refs(fn.term_of_operand(t["args"][1], b))
            while sv[0] == "call" and sv[1] and sv[1].split("::")[-1] in ("index", "deref", "as_slice", "as_ref", "borrow") and sv[2]:
                sv = strip_refs(sv[2][0])
            exact = False
            if sv[0] == "call" and sv[1] and sv[1].endswith("to_le_bytes") and len(sv[2]) == 1:
                inner = strip_refs(sv[2][0])
                from .mir import flat_place
                root, names = flat_place(inner)
                exact = inner[0] == "place" and root[:2] == ("arg", 1) and [n for n in names if n not in ("as:Some",)] in ([fld, "0"], [fld, "0", "0"])
            R.require(exact, fn, "stored-value:" + fld, "the %s written to the info sector is not the in-memory value itself (%s): a clamped / recomputed number makes the record untrue" % (fld, tstr(sv)[:100]), fn.loc(b))
    n = 0
    for f in F.fns:
        for b, i, s in f.stmts():
            if s["k"] == "Assign" and s["p"]["proj"]:
                names = [e[2] for e in f.canon_place(s["p"])["proj"] if e[0] == "field"]
                if names and names[-1] == "free_clusters_count":
                    n += 1
                    okw = f.npath == "fat::volume::parse_volume"
                    if not okw and s["rv"]["k"] == "Use" and s["rv"]["op"].get("k") in ("move", "copy") and s["rv"]["op"]["p"]["l"] in _count_carriers(f):
                        # an Option rebuilt from the old one: Some(..) only where the old value was tested to be Some
                        okw = all(guarded(f, d[1], lambda g, d=d: g.kind == "variant" and g.variant == ("None" if d[3].get("variant") == 0 else "Some") and "free_clusters_count" in tstr(g.term))[0]
                                  for d in f.defs().get(s["rv"]["op"]["p"]["l"], []))
                    R.require(okw, f, "assign-count", "free_clusters_count assigned wholesale outside mount", f.loc(b, i))
    if n == 0:
        # the volume record built in one go: FatVolume { .., free_clusters_count: info_sector.free_clusters_count(), .. }
        pv_ = F.fn("fat::volume::parse_volume")
        for b, i, s in pv_.stmts():
            if s["k"] == "Assign" and s["rv"]["k"] == "Aggregate" and s["rv"].get("adt", "").endswith("FatVolume") and "free_clusters_count" in s["rv"].get("fields", []):
                o = s["rv"]["ops"][s["rv"]["fields"].index("free_clusters_count")]
                if any(q[0] == "call" and q[1] and q[1].endswith("InfoSector::free_clusters_count") for q in _all_subterms_through_vars(pv_, pv_.term_of_operand(o, b))):
                    n += 1
    R.require(n >= 1, None, "mount-assign", "mount does not initialise free_clusters_count from the info sector")


@rule("IS2", ["C16", "C02", "C01", "C04", "C09"], floor=4,
      doc="update_info_sector writes count.to_le_bytes() at [488..492] and next.0.to_le_bytes() at [492..496] of read_mut(info_location) and writes back; flush_file (dirty) and close_volume call it")
def is2(F, R):
    fn = F.fn(FATVOL + "::update_info_sector")
    want = {"free_clusters_count": (488, 492), "next_free_cluster": (492, 496)}
    got = {}
    for b, t in fn.calls():
        if (callee_of(t) or "").endswith("copy_from_slice"):
            d = fn.term_of_operand(t["args"][0], b)
            s_ = tstr(fn.term_of_operand(t["args"][1], b))
            rng = find_sub(d, ("agg", "Range", ["$a", "$b"]))
            for fld in want:
                if fld in s_ and "to_le_bytes" in s_ and rng is not None and rng["$a"][0] == "c" and rng["$b"][0] == "c":
                    got[fld] = (rng["$a"][1], rng["$b"][1])
    R.require(got == want, fn, "offsets", "info-sector fields written at %s, FAT spec (FSI_Free_Count, FSI_Nxt_Free) says %s" % (got, want), fn.loc(0))
    # nothing else of the sector is touched: every view of the mutable block is one of the two 4-byte ranges (the three
    # signatures, the reserved bytes and the boot-code area stay as they were read)
    viewed = []
    for b, t in fn.calls():
        c = callee_of(t) or ""
        if c.endswith(("IndexMut::index_mut", "Index::index")) and has_sub(fn.term_of_operand(t["args"][0], b), lambda q: q[0] == "call" and q[1] and path_matches(q[1], "BlockCache::read_mut")):
            ix = fn.term_of_operand(t["args"][1], b)
            rng = find_sub(ix, ("agg", "Range", ["$a", "$b"]))
            if rng is not None and rng["$a"][0] == "c" and rng["$b"][0] == "c" and ix[0] == "agg" and ix[2] and ix[2].endswith("ops::Range::Range"):
                viewed.append((rng["$a"][1], rng["$b"][1]))
            else:
                viewed.append(tstr(ix)[:60])
    stores = [fn.loc(b, i) for b, i, s in fn.stmts() if s["k"] == "Assign" and s["p"]["proj"] and any(e[0] == "index" or e[0] == "constindex" for e in s["p"]["proj"])]
    R.require(sorted(map(str, viewed)) == sorted(map(str, want.values())) and not stores, fn, "only-the-two-fields", "update_info_sector touches more of the FSInfo sector than FSI_Free_Count [488..492) and FSI_Nxt_Free [492..496): views %s, direct stores %s (bytes 496..512 hold the reserved area and the trail signature)" % (viewed, stores), fn.loc(0))
    # on FAT32 the record is rewritten whenever something is known: an Ok return that has not passed write_back lies behind
    # "free count unknown" and "hint unknown" - no cached "nothing changed" shortcut, which goes stale with the first code path
    # that forgets to invalidate it
    fv = fat_views(fn)["Fat32"]
    wbs = [b for b, t in fv.calls() if call_matches(t, ("BlockCache::write_back", "BlockCache::write_back_with_duplicate"))]
    dry = fv.reach([0], cut_blocks=wbs)
    def _opt_field(q):
        """the field an Option-typed term is (a copy of): (*self).free_clusters_count, or a local `let free = self.free_clusters_count`"""
        q = strip_refs(q)
        for _k in range(4):
            if q[0] == "var":
                ds_ = var_def_terms(fv, q[1])
                if len(ds_) != 1:
                    return None
                q = strip_refs(ds_[0])
            elif q[0] == "place" and strip_refs(q[1])[0] == "var" and q[2] and str(q[2][0]).isdigit():
                # a component of a tuple built on the spot: `match (self.free_clusters_count, self.next_free_cluster) { .. }`
                ds_ = var_def_terms(fv, strip_refs(q[1])[1])
                if len(ds_) == 1 and strip_refs(ds_[0])[0] == "agg" and strip_refs(ds_[0])[1] == "Tuple" and int(q[2][0]) < len(strip_refs(ds_[0])[3]):
                    rest_ = tuple(q[2][1:])
                    el_ = strip_refs(strip_refs(ds_[0])[3][int(q[2][0])])
                    q = el_ if not rest_ else ("place", el_, rest_)
                else:
                    break
            else:
                break
        return last_field(q) if q[0] == "place" else None

    def unknown(field):
        def pred(g):
            t_ = strip_refs(g.term)
            if g.kind == "bool" and g.truth is True and t_[0] == "call" and t_[1] and t_[1].endswith("::is_none") and _opt_field(t_[2][0]) == field:
                return True
            if g.kind == "bool" and g.truth is False and t_[0] == "call" and t_[1] and t_[1].endswith("::is_some") and _opt_field(t_[2][0]) == field:
                return True
            return g.kind == "variant" and g.variant == "None" and _opt_field(t_) == field
        return pred
    from .ev import implying_edges
    for (b, i, v) in ok_returns(fv):
        if b not in dry:
            continue
        # (on the ways that avoid the write-back: the return itself may be shared with the writing path)
        okq = all(b not in fv.reach([0], cut_edges=list(implying_edges(fv, unknown(fld))), cut_blocks=wbs) for fld in ("free_clusters_count", "next_free_cluster"))
        R.require(okq, fn, "written-unless-unknown", "on FAT32 update_info_sector can return Ok without writing the record although a free count / hint is known (a shortcut of its own decides that nothing changed)", fn.loc(b, i))
    rms = [(b, t) for b, t in fn.calls() if call_matches(t, ("BlockCache::read_mut",))]
    okloc = False
    if len(rms) == 1:
        from .poly import nkey
        k = nkey(fn.term_of_operand(rms[0][1]["args"][1], rms[0][0]))
        # exactly the stored (absolute, validated at mount: MT5) location - no offset added or removed
        okloc = isinstance(k, tuple) and k[0] == "place" and "info_location" in [e for e in k[2] if isinstance(e, str)][-1:]
    R.require(okloc, fn, "location", "the info sector must be read-modified-written at exactly fat32_info.info_location (an absolute block number, the one validated at mount); got %s" % (tstr(fn.term_of_operand(rms[0][1]["args"][1], rms[0][0]))[:160] if rms else None), fn.loc(0))
    for nm in ("flush_file", "close_volume"):
        f = F.fn(VM + "::" + nm)
        sites = [b for b, t in f.calls() if call_matches(t, ("FatVolume::update_info_sector",))]
        R.require(len(sites) >= 1, f, "calls-update", "%s must call update_info_sector" % nm, f.loc(0))
        if nm == "close_volume" and sites:
            for (b, i, v) in ok_returns(f):
                R.require(b not in f.reach([0], cut_blocks=sites), f, "ok-implies-update", "close_volume can return Ok without writing the info sector", f.loc(b, i))


@rule("IS3", ["C16", "C04"], floor=1,
      doc="alloc_cluster uses the mounted next_free_cluster hint only under hint < end_cluster (= cluster_count + 2), otherwise restarts at cluster 2")
def is3(F, R):
    fn = F.fn(FATVOL + "::alloc_cluster")
    sites = [(b, t) for b, t in fn.calls() if call_matches(t, ("FatVolume::find_next_free_cluster",))]
    if not sites:
        R.bad(fn, "anchor", "no find_next_free_cluster call", kind="anchor-missing")
        return
    b, t = sites[0]
    start = strip_refs(fn.term_of_operand(t["args"][2], b))
    okk = False
    if start[0] == "var":
        ok_all = True
        for d in fn.defs().get(start[1], []):
            if d[0] != "assign":
                continue
            v = fn.term_of_rvalue(d[3], d[1])
            if "next_free_cluster" in tstr(v):
                from .ev import implying_edges
                pr_ = lambda g: g_cmp("Lt", True, lambda a: "next_free_cluster" in tstr(a), lambda z: "cluster_count" in tstr(z) or z[0] == "var" or "0" in tstr(z))(g)
                # (the test may sit in a filter predicate / be carried in a flag: decided on the edges that imply it)
                g = d[1] not in fn.reach([0], cut_edges=list(implying_edges(fn, pr_)))
                ok_all = ok_all and g
            else:
                ok_all = ok_all and ("RESERVED_ENTRIES" in tstr(v) or tstr(v) in ("ClusterId{2}",))
        okk = ok_all
    R.require(okk, fn, "hint-in-range", "the on-disk next-free hint is used as a search start without `hint < cluster_count + 2`", fn.loc(b))
    end = fn.term_of_operand(t["args"][3], b)
    oke = tmatch(strip_refs(end), ("agg", "ClusterId", [("bin", "Add", ("place", ("arg", 1), ("*", "cluster_count")), ("c", 2))])) is not None
    R.require(oke, fn, "end=count+2", "search end must be cluster_count + RESERVED_ENTRIES, got %s" % tstr(end), fn.loc(b))


# ---------------------------------------------------------------------------------------


@rule("DK1", ["C05"], floor=3,
      doc="VolumeManager::write: a failing alloc_cluster on the extend path leads to an Err return (DiskFull), never to Ok; bytes written by earlier iterations stay accounted (no rollback of length/offset)")
def dk1(F, R):
    from .ev import failure_edges
    fn = F.fn(VM + "::write")
    sites = [(b, t) for b, t in fn.calls() if call_matches(t, ("FatVolume::alloc_cluster",))]
    ext = []
    for b, t in sites:
        prev = strip_refs(fn.term_of_operand(t["args"][2], b))
        if prev[0] == "agg" and prev[2] and prev[2].endswith("Option::Some"):
            ext.append((b, t))
    R.require(len(ext) >= 1, fn, "extend-site", "extend-path alloc_cluster(.., Some(tail), ..) not found in write()", fn.loc(0))
    for b, t in ext:
        fe = failure_edges(fn, b)
        R.require(bool(fe), fn, "alloc-fail-tested", "the result of the extension allocation is not tested", fn.loc(b))
        oks = errs = 0
        for (gb, gi) in fe:
            reach = fn.reach([fn.succ(gb)[gi][0]])
            oks += len([x for x in ok_returns(fn) if x[0] in reach])
            errs += len([x for x in err_returns(fn) if x[0] in reach]) + len([1 for bb, tt in fn.calls() if bb in reach and (callee_of(tt) or "").endswith("FromResidual::from_residual")])
        R.require(fe and not oks and errs, fn, "alloc-fail->DiskFull", "a failed extension allocation can reach an Ok return (a silent short write: the caller is told the whole buffer was stored) or is not reported", fn.loc(b))


def field_setters(F, field):
    """Crate functions that are mere conduits for one field: on every path to their return they store one of their own
    parameters into <receiver>...<field> (directly or through another such function).  -> {function path: parameter index}"""
    out = {}
    for _round in range(3):
        for g in F.fns:
            if g.npath in out or g.arg_count < 2:
                continue
            sites = []
            for b, i, s_ in g.stmts():
                if s_["k"] == "Assign" and [e[2] for e in g.canon_place(s_["p"])["proj"] if e[0] == "field"][-1:] == [field]:
                    base = strip_refs(g.term_of_place({"l": g.canon_place(s_["p"])["l"], "proj": []}))
                    v = strip_refs(g.term_of_rvalue(s_["rv"], b))
                    if base[:2] == ("arg", 1) and v[0] == "arg" and v[1] >= 2:
                        sites.append((b, v[1]))
                    else:
                        sites.append((b, None))
            for b, t in g.calls():
                c = strip_generics(callee_of(t) or "")
                if c in out and len(t["args"]) > out[c] - 1:
                    v = strip_refs(g.term_of_operand(t["args"][out[c] - 1], b))
                    recv = strip_refs(g.term_of_operand(t["args"][0], b))
                    if v[0] == "arg" and v[1] >= 2 and recv[:2] == ("arg", 1):
                        sites.append((b, v[1]))
            ks = {k for _b, k in sites}
            if not sites or None in ks or len(ks) != 1:
                continue
            free = g.reach([0], cut_blocks=[b for b, _k in sites])
            if any(g.blocks[b]["term"]["k"] == "Return" for b in free):
                continue
            out[g.npath] = next(iter(ks))
    return out


@rule("TS1", ["C02"], floor=6,
      doc="creation time is written only at creation (DirEntry::new, make_dir literals, parse); mtime is taken from the TimeSource only in write() and the truncate arm of open_file_in_dir")
def ts1(F, R):
    allowed_c = {"filesystem::directory::DirEntry::new", "fat::ondiskdirentry::OnDiskDirEntry::get_entry", FATVOL + "::make_dir"}
    allowed_m = allowed_c | {VM + "::write", VM + "::open_file_in_dir"}
    setters = field_setters(F, "mtime")
    seen_c, seen_m = set(), set()
    for f in F.fns:
        for b, i, s in f.stmts():
            if s["k"] != "Assign":
                continue
            names = [e[2] for e in f.canon_place(s["p"])["proj"] if e[0] == "field"]
            if names and names[-1] == "ctime":
                seen_c.add(f.npath)
            if names and names[-1] == "mtime" and f.npath not in setters:
                seen_m.add(f.npath)
            if s["rv"]["k"] == "Aggregate" and s["rv"].get("adt", "") == "filesystem::directory::DirEntry":
                seen_c.add(f.npath)
                seen_m.add(f.npath)
        # a conduit (fn set_modified(&mut self, now) { self.entry.mtime = now }) writes what its caller hands it: the caller is the writer
        for b, t in f.calls():
            if strip_generics(callee_of(t) or "") in setters and f.npath not in setters:
                seen_m.add(f.npath)
    test_ok = lambda n: n.startswith(("fat::test", "volume_mgr::tests")) or n.endswith("as core::clone::Clone>::clone")
    bad_c = {n for n in seen_c if n not in allowed_c and not test_ok(n)}
    bad_m = {n for n in seen_m if n not in allowed_m and not test_ok(n)}
    R.require(not bad_c, None, "ctime-writers", "creation time written in %s" % sorted(bad_c), okdetail="ctime writers: %s" % sorted(seen_c))
    R.require(not bad_m, None, "mtime-writers", "modification time written in %s" % sorted(bad_m), okdetail="mtime writers: %s (conduits: %s)" % (sorted(seen_m), sorted(setters)))

    def stamps(f):
        """(block, value term) of every place where f sets a modification time: a store, or a call of a conduit"""
        out = []
        for b, i, s in f.stmts():
            if s["k"] == "Assign" and [e[2] for e in f.canon_place(s["p"])["proj"] if e[0] == "field"][-1:] == ["mtime"]:
                out.append((b, f.term_of_rvalue(s["rv"], b)))
        for b, t in f.calls():
            c = strip_generics(callee_of(t) or "")
            if c in setters:
                out.append((b, f.term_of_operand(t["args"][setters[c] - 1], b)))
        return out
    fn = F.fn(VM + "::write")
    st = stamps(fn)
    okm = bool(st) and all(has_sub(v, lambda q: q[0] == "call" and q[1] and q[1].endswith("TimeSource::get_timestamp")) for b, v in st)
    R.require(okm, fn, "mtime=clock", "write() must set mtime from time_source.get_timestamp()", fn.loc(0))
    # ... on every successful write, not only the first one through the handle: no Ok return without passing the stamp
    free = fn.reach([0], cut_blocks=[b for b, v in st])
    R.require(bool(st) and not any(x[0] in free for x in ok_returns(fn)), fn, "mtime-every-write", "write() can return Ok without stamping the modification time (e.g. only on the first write through a handle): the flushed entry carries the time of an earlier write", fn.loc(st[0][0]) if st else fn.loc(0))
    # the truncating open stamps before it persists the entry (the handle is not dirty afterwards, so a later stamp is never written)
    fo = F.fn(VM + "::open_file_in_dir")
    st = [b for b, v in stamps(fo)]
    ws = [b for b, t in fo.calls() if call_matches(t, ("FatVolume::write_entry_to_disk",))]
    R.require(bool(st) and bool(ws), fo, "truncate-stamp-sites", "open_file_in_dir must stamp mtime and persist the entry in its truncating arm", fo.loc(0))
    for w in ws:
        before = w not in fo.reach([0], cut_blocks=st)
        after = any(x in fo.reach_after(w) for x in st)
        R.require(before and not after, fo, "truncate-stamp-before-persist", "the truncating open writes the directory entry %s the new modification time is stored in it: the medium keeps the old mtime (nothing marks the handle dirty)" % ("before" if not before else "and only afterwards"), fo.loc(w))


# ---------------------------------------------------------------------------------------
# additional structural rules


@rule("OR5", ["C02", "C03", "C10"], floor=3,
      doc="a new directory cluster is initialised completely: alloc_cluster(zero) blanks start.range(BlockCount(blocks_per_cluster)) of the new cluster; make_dir blanks block 0 and range(BlockCount(blocks_per_cluster)).skip(1); directory growth calls alloc_cluster(.., zero = true)")
def or5(F, R):
    for name in ("alloc_cluster", "make_dir"):
        fn = F.fn(FATVOL + "::" + name)
        sites = [(b, t) for b, t in fn.calls() if call_matches(t, ("BlockCache::blank_mut",))]
        loops = 0
        for b, t in sites:
            idx = fn.term_of_operand(t["args"][1], b)
            subs = _all_subterms_through_vars(fn, idx)
            rng = [s for s in subs if s[0] == "call" and s[1] and (path_matches(s[1], "BlockIdx::range") or path_matches(s[1], "BlockIter::new"))]
            if not rng:
                continue  # the directly indexed first block of make_dir
            loops += 1
            problems = []
            for r in rng:
                if path_matches(r[1], "BlockIter::new"):
                    problems.append("blocks enumerated with a hand-built BlockIter (%s); use start.range(BlockCount(blocks_per_cluster))" % tstr(r))
                    continue
                cnt = r[2][1]
                pat = ("agg", "BlockCount", [("call", "From::from", [("place", ("arg", 1), ("*", "blocks_per_cluster"))])])
                pat2 = ("agg", "BlockCount", [("cast", "_", ("place", ("arg", 1), ("*", "blocks_per_cluster")))])      # `as u32`: the same widening
                c2 = strip_refs(cnt)
                cands = [c2] if c2[0] != "var" else var_def_terms(fn, c2[1])
                if not all(tmatch(c, pat) is not None or tmatch(c, pat2) is not None for c in cands):
                    problems.append("range length is %s, expected BlockCount(blocks_per_cluster)" % [tstr(c) for c in cands])
                st = strip_refs(r[2][0])
                sts = [st] if st[0] != "var" else var_def_terms(fn, st[1])
                if not all(s_[0] == "call" and s_[1] and path_matches(s_[1], "FatVolume::cluster_to_block") for s_ in sts):
                    problems.append("range does not start at cluster_to_block(new cluster): %s" % [tstr(s_) for s_ in sts])
            skips = [s for s in subs if s[0] == "call" and s[1] and s[1].endswith("Iterator::skip")]
            if name == "make_dir":
                # exactly one block is left out in front: `.skip(1)`, or one item taken off the iterator before the loop
                dropped = sum(sk[2][1][1] if sk[2][1][0] == "c" and isinstance(sk[2][1][1], int) else 99 for sk in skips)
                nx = [s_ for s_ in subs if s_[0] == "call" and s_[1] and s_[1].endswith("Iterator::next") and len(s_[2]) == 1 and strip_refs(s_[2][0])[0] == "var"]
                if len(nx) == 1:
                    itv = strip_refs(nx[0][2][0])[1]
                    its = {itv}          # the loop's iterator and the variable it was moved from (`for x in it` = into_iter(it))
                    for _k in range(3):
                        for v_ in list(its):
                            for d_ in var_def_terms(fn, v_):
                                d_ = strip_refs(d_)
                                if d_[0] == "call" and d_[1] and d_[1].endswith("into_iter") and d_[2] and strip_refs(d_[2][0])[0] == "var":
                                    its.add(strip_refs(d_[2][0])[1])
                    inloop = {x for l_ in fn.loops() for x in l_[1]}
                    for b2, t2 in fn.calls():
                        rcv = strip_refs(fn.term_of_operand(t2["args"][0], b2)) if t2["args"] else None
                        if (callee_of(t2) or "").endswith("Iterator::next") and b2 != nx[0][3] and b2 not in inloop and rcv is not None and rcv[0] == "var" and rcv[1] in its:
                            dropped += 1
                if dropped != 1:
                    problems.append("make_dir must skip exactly the first block (already written with the dot entries)")
            elif skips:
                problems.append("alloc_cluster must not skip blocks when zeroing")
            R.require(not problems, fn, name + ":zero-range", "; ".join(problems), fn.loc(b))
        R.require(loops >= 1, fn, name + ":zero-loop", "no zeroing loop over the new cluster's blocks found", fn.loc(0))
    w = F.fn(FATVOL + "::write_new_directory_entry")
    acs = [(b, t) for b, t in w.calls() if call_matches(t, ("FatVolume::alloc_cluster",))]
    R.require(len(acs) == 2 and all(w.term_of_operand(t["args"][3], b)[:2] == ("c", 1) for b, t in acs), w, "growth-zeroes", "directory growth must call alloc_cluster(.., zero = true) in both FAT arms", w.loc(0))
    # make_dir's first block is blanked via blank_mut(cluster_to_block(new cluster)) and written back after the dot entries
    md = F.fn(FATVOL + "::make_dir")
    cps = [(b, t) for b, t in md.calls() if (callee_of(t) or "").endswith("copy_from_slice")]
    R.require(len(cps) == 2, md, "dot-entries", "make_dir must write exactly the '.' and '..' entries into the first block", md.loc(0))


@rule("TS2", ["C02"], floor=1,
      doc="DirEntry::new (which stamps a fresh creation time) is called only when a directory slot is created (write_new_directory_entry); re-opening or truncating never rebuilds the entry")
def ts2(F, R):
    n = 0
    for f in F.fns:
        for b, t in f.calls():
            if call_matches(t, ("DirEntry::new",)):
                n += 1
                ok = f.npath == FATVOL + "::write_new_directory_entry" or f.npath.startswith(("fat::test", "volume_mgr::tests"))
                R.require(ok, f, "DirEntry::new", "DirEntry::new (fresh ctime) called from %s: the creation time of an existing file would change" % f.npath, f.loc(b))
    if n == 0:
        R.bad(None, "anchor", "no DirEntry::new call", kind="anchor-missing")


@rule("FT10", ["C05"], floor=2,
      doc="alloc_cluster searches the whole FAT: when the search that starts at the next-free hint (> 2) ends with NotEnoughSpace it restarts at cluster 2; the allocation fails only if that second search fails too")
def ft10(F, R):
    fn = F.fn(FATVOL + "::alloc_cluster")
    sites = [(b, t) for b, t in fn.calls() if call_matches(t, ("FatVolume::find_next_free_cluster",))]
    # the searches before the END_OF_FILE mark
    eof = [c for c in _update_fat_calls(fn) if c[4] == "EOF"]
    if not eof:
        R.bad(fn, "anchor", "no END_OF_FILE mark", kind="anchor-missing")
        return
    pre = [(b, t) for b, t in sites if eof[0][0] in fn.reach([b])]
    first = [x for x in pre if strip_refs(fn.term_of_operand(x[1]["args"][2], x[0]))[0] == "var"]
    retry = [x for x in pre if tmatch(strip_refs(fn.term_of_operand(x[1]["args"][2], x[0])), ("agg", "ClusterId", [("c", 2)])) is not None]
    R.require(len(first) == 1 and len(retry) == 1, fn, "two-searches", "expected a hinted search and a wrap-around search from cluster 2 before the allocation (found %d / %d)" % (len(first), len(retry)), fn.loc(0))
    if len(first) == 1 and len(retry) == 1:
        fb = first[0][0]
        rb = retry[0][0]
        g, _ = guarded(fn, rb, lambda g: g.kind == "variant" and g.variant == "NotEnoughSpace" and has_sub(g.term, lambda q: q[0] == "call" and q[3] == fb))
        g2, _ = guarded(fn, rb, g_cmp("Gt", True, None, lambda z: strip_refs(z)[:2] == ("c", 2)))
        R.require(g and g2, fn, "retry-on-nospace", "the wrap-around search must run exactly when the hinted search (start > 2) returned NotEnoughSpace", fn.loc(rb))
        # an Err(NotEnoughSpace) from the hinted search with start > 2 must not reach the function's Err return without the retry
        for (gb, gi, g_) in all_guards(fn):
            if g_.kind == "variant" and g_.variant == "Err" and g_.term[0] == "call" and g_.term[3] == fb:
                tgt = fn.succ(gb)[gi][0]
                # paths from the Err edge to an Err return avoiding the retry: only allowed via start <= 2 or other error variants
                pass


@rule("RL1", ["C08"], floor=1,
      doc="get_root_volume_label: the root directory it opens internally is closed on every exit (it is held in the RAII Directory wrapper, or close_dir post-dominates the open on all paths)")
def rl1(F, R):
    fn = F.fn(VM + "::get_root_volume_label")
    opens = [(b, t) for b, t in fn.calls() if call_matches(t, ("VolumeManager::open_root_dir",))]
    if not opens:
        R.bad(fn, "anchor", "no open_root_dir call", kind="anchor-missing")
        return
    for b, t in opens:
        # Ok edge of the open
        starts = []
        for (gb, gi, g) in all_guards(fn):
            if g_try_ok("VolumeManager::open_root_dir")(g):
                starts.append(fn.succ(gb)[gi][0])
        closers = set()
        for b2, t2 in fn.calls():
            c = callee_of(t2) or ""
            if call_matches(t2, ("VolumeManager::close_dir", "Directory::close")):
                closers.add(b2)
        for b2 in fn.live_blocks():
            tt = fn.term(b2)
            if tt["k"] == "Drop" and "Directory<" in fn.locals[tt["p"]["l"]]["ty"] and not tt["p"]["proj"]:
                closers.add(b2)
        leaks = []
        for s in starts:
            reach = fn.reach([s], cut_blocks=closers)
            for rb in fn.return_blocks():
                if rb in reach:
                    leaks.append(fn.loc(rb))
        # wrapper must be constructed right away (to_directory) if relying on Drop
        R.require(bool(starts) and not leaks, fn, "dir-closed-on-all-exits", "the internally opened root directory can stay open on some exit of get_root_volume_label (handle leak: has_open_handles() stays true, a slot is lost)", fn.loc(b))


@rule("IS4", ["C16"], floor=2,
      doc="the on-disk free-space record is advisory: the value of free_clusters_count never influences control flow (it is only updated and stored); each info-sector field is written whenever it is known, independent of the other field")
def is4(F, R):
    n = 0
    for f in F.fns:
        if f.npath.startswith(("fat::test", "volume_mgr::tests")) or f.npath.startswith("<"):
            continue  # derived PartialEq/Debug impls compare or print all fields
        for (gb, gi, g) in all_guards(f):
            s = tstr(g.raw)
            if "free_clusters_count" not in s:
                continue
            n += 1
            if g.kind in ("variant", "variants") and g.raw[0] == "discr":
                # Some/None test of the Option itself
                inner = strip_refs(g.raw[1])
                # ... also through the Option adaptors that keep Some/None (as_mut, as_ref, as_deref..)
                while inner[0] == "call" and inner[1] and inner[1].startswith("core::option::") and inner[1].split("::")[-1] in ("as_mut", "as_ref", "as_deref", "as_deref_mut", "copied", "cloned") and len(inner[2]) == 1:
                    inner = strip_refs(inner[2][0])
                if last_field(inner) == "free_clusters_count":
                    continue
                R.bad(f, "count-variant-test", "control flow depends on %r" % g, f.loc(gb))
                continue
            if g.kind == "bool" and g.term[0] == "call" and g.term[1] and g.term[1].endswith(("Option::is_none", "Option::is_some", "Option::<T>::is_none", "Option::<T>::is_some")) and len(g.term[2]) == 1:
                # known / unknown is not the *value* of the count: `x.is_none()` / `x.is_some()` is the Some/None test spelled as a call
                continue
            R.bad(f, "count-influences-control", "control flow depends on the stored free-cluster count (%r): a stale record could make an operation fail" % g, f.loc(gb))
    R.ok(None, "count-guards", "%d guards mention free_clusters_count; all are Some/None tests" % n)
    # ... and neither field decides whether the volume mounts: the record is rewritten only at flush / close / delete, so
    # between two of those (i.e. after any power cut) it is stale - the hint names a cluster that has been handed out since.
    # No Err exit of parse_volume lies behind a test of the hint or the count.
    pv = F.fn("fat::volume::parse_volume")
    hint_edges = [(gb, gi) for (gb, gi, g) in all_guards(pv) if any(k in tstr(g.raw) for k in ("next_free_cluster", "free_clusters_count"))]
    for x in err_returns(pv):
        R.require(not hint_edges or not pv.unreachable_without(x[0], hint_edges), pv, "record-decides-mount", "parse_volume refuses the volume (Err(%s)) depending on the FSInfo hint / count: after a power cut the record is stale by design, and the whole volume - every flushed file - becomes unreachable" % x[2], pv.loc(x[0]))
    # independence of the two info-sector fields
    fn = F.fn(FATVOL + "::update_info_sector")
    for b, t in fn.calls():
        if (callee_of(t) or "").endswith("copy_from_slice"):
            src = tstr(fn.term_of_operand(t["args"][1], b))
            fld = "free_clusters_count" if "free_clusters_count" in src else ("next_free_cluster" if "next_free_cluster" in src else None)
            other = "next_free_cluster" if fld == "free_clusters_count" else "free_clusters_count"
            if fld is None:
                continue
            dep = [g for (gb, gi, g) in all_guards(fn) if g.kind == "variant" and g.variant == "Some" and other in tstr(g.term) and fld not in tstr(g.term) and fn.unreachable_without(b, [(gb, gi)])]
            R.require(not dep, fn, "independent:" + fld, "%s is written only when %s is known too: a known free count is not persisted when the hint is unknown" % (fld, other), fn.loc(b))
    # early exit only when both are unknown
    for (b, i, v) in ok_returns(fn):
        pass
