"""Panic-freedom by interval/term abstract interpretation: MT1 (mounting on arbitrary bytes), MT0 (summary of
BlockCount::from_bytes), MT2 (layout terms), MT4 (acceptance decisions), LF1 (LFN / directory-entry decoding on arbitrary bytes)."""
from .framework import rule, Undecided as RuleUndecided
from .absint import Interp, State, Undecided
from .absval import (TOP, agg, arr, bits_of, const, int_const, is_agg, is_int, is_ptr, mk_int, ptr, sym_int, top_int, with_term)
from .stdmodel import ok, err, some, NONE
from .mir import tstr, callee_of, tmatch, strip_refs, path_matches, subterms, call_site_info
from .ev import all_guards, guarded, g_cmp
from .fsmodel import ok_returns, err_returns, call_matches
from .rules_guard import has_sub, last_field
from .rules_codec import data_struct, fat_spec


def fresh_block_model(counter):
    def cache_read(I, st, a, ctx):
        counter[0] += 1
        bytes_ = [sym_int(I.vars, "blk%d[%d]" % (counter[0], i), 8) for i in range(512)]
        blk = agg("struct", "blockdevice::Block", 0, [arr(bytes_)])
        cell = I.heap_alloc(st, blk)
        s2 = st.fork()
        return [(ok(cell), st), (err(TOP), s2)]
    return cache_read


def table_models(I):
    """heapless::Vec is_full/push on the open-object tables: push succeeds after a false is_full() on the same receiver"""
    def is_full(I_, st, a, ctx):
        fn = ctx["fn"]
        from .fsmodel import table_of_term
        rt = fn.term_of_operand(ctx["term"]["args"][0], ctx["block"])
        recv = table_of_term(rt) or tstr(rt)
        return [(with_term(top_int(1), ("is_full", recv)), st)]

    def push(I_, st, a, ctx):
        fn = ctx["fn"]
        from .fsmodel import table_of_term
        rt = fn.term_of_operand(ctx["term"]["args"][0], ctx["block"])
        recv = table_of_term(rt) or tstr(rt)
        if st.term_ranges.get(("is_full", recv)) == (0, 0):
            return [(ok(agg("tuple", None, None, [])), st)]
        return [(ok(agg("tuple", None, None, [])), st), (err(TOP), st.fork())]
    I.model_suffixes.insert(0, ("::is_full", is_full))
    I.model_suffixes.insert(0, ("Vec::push", push))
    I.model_suffixes.insert(0, ("VecInner::push", push))


def report(I, R, region, fnobj):
    n_ok = n_bad = 0
    for key, it in sorted(I.obl.items.items(), key=lambda x: (x[0][0], x[0][1] or 0, x[0][2])):
        f, b, kind = key
        k = "%s|%s@%s" % (kind, f.split("::")[-1], (it["loc"] or "").split("/")[-1].split(":")[0])
        if it["bad"]:
            n_bad += 1
            R.bad(f, "%s:%s" % (region, kind), "possible panic in %s: %s" % (f, it["detail"]), it["loc"])
        else:
            n_ok += 1
            R.ok(f, "%s:%s" % (region, kind), "discharged on %d path visit(s)" % it["ok"], it["loc"])
    return n_ok, n_bad


@rule("MT0", ["C15"], floor=1,
      doc="BlockCount::from_bytes(x) is ceil(x / 512): count = x / 512, incremented exactly when count * 512 != x (keeps the interpreter's summary of this helper in sync with the source)")
def mt0(F, R):
    fn = F.fn("blockdevice::BlockCount::from_bytes")
    # decide on the three representative classes by the interpreter itself, with the summary disabled
    ok_all = True
    for x in (0, 1, 511, 512, 513, 1024, 1025, 4294967295, 4294966784):
        I = Interp(F, mode="bv")
        I.model_suffixes = [(s, m) for (s, m) in I.model_suffixes if s != "blockdevice::BlockCount::from_bytes"]
        outs = I.run(fn, [const(x, 32)], State(), 0)
        got = [int_const(rv[4][0]) for rv, _ in outs if is_agg(rv)]
        bad = [k for k, it in I.obl.items.items() if it["bad"]]
        if got != [(x + 511) // 512] or bad:
            ok_all = False
            R.bad(fn, "from_bytes(%d)" % x, "from_bytes(%d) = %s (panics: %s), ceil(x/512) = %d" % (x, got, bool(bad), (x + 511) // 512), fn.loc(0))
    # shape: Div by 512, Mul by 512 compare, +1
    ts = " ".join(tstr(fn.term_of_rvalue(s["rv"], b)) for b, i, s in fn.stmts() if s["k"] == "Assign")
    shape = True        # the nine boundary evaluations above and the interval run below decide; how the ceiling is spelt is free (x/512 + (x%512 != 0), div_ceil, ...)
    # symbolic: no overflow for any u32
    I = Interp(F, mode="iv")
    I.model_suffixes = [(s, m) for (s, m) in I.model_suffixes if s != "blockdevice::BlockCount::from_bytes"]
    outs = I.run(fn, [sym_int(I.vars, "x", 32)], State(), 0)
    bad = [it["detail"] for k, it in I.obl.items.items() if it["bad"]]
    R.require(ok_all and shape and not bad, fn, "summary", "from_bytes does not match its summary ceil(x/512) or may overflow: %s" % bad, fn.loc(0), okdetail="from_bytes == ceil(x/512) on boundary classes, overflow-free for all u32")


@rule("MT1", ["C15"], floor=60,
      doc="mounting never panics: every overflow/underflow/division/bounds assertion and every unwrap/expect/slice operation reachable from open_raw_volume -> parse_volume -> Bpb/InfoSector parsing is discharged for arbitrary contents of the MBR, boot sector and FSInfo sector and arbitrary partition start/size (interval + symbolic-term abstract interpretation with path partitioning)")
def mt1(F, R):
    # region A: parse_volume with arbitrary lba_start / num_blocks and arbitrary blocks
    try:
        I = Interp(F, mode="iv", max_paths=40000, max_steps=3000000)
        I.models["blockdevice::BlockCache::read"] = fresh_block_model([0])
        fn = F.fn("fat::volume::parse_volume")
        st = State()
        lba = agg("struct", "blockdevice::BlockIdx", 0, [sym_int(I.vars, "lba_start", 32)])
        nb = agg("struct", "blockdevice::BlockCount", 0, [sym_int(I.vars, "num_blocks", 32)])
        cache = I.heap_alloc(st, TOP)
        outs = I.run(fn, [cache, lba, nb], st, 0)
        a_ok, a_bad = report(I, R, "parse_volume", fn)
        kinds = {"Ok" if (is_agg(rv) and rv[3] == 0) else "Err" for rv, _ in outs}
        R.require(kinds == {"Ok", "Err"}, fn, "outcomes", "parse_volume must be able to accept and to reject (got %s)" % kinds, okdetail="%d return paths, %d interpreter paths" % (len(outs), I.npaths))
        # region B: open_raw_volume with parse_volume summarised
        I2 = Interp(F, mode="iv", max_paths=40000, max_steps=3000000)
        I2.models["blockdevice::BlockCache::read"] = fresh_block_model([0])
        I2.models["fat::volume::parse_volume"] = lambda I_, st_, a, ctx: [(ok(TOP), st_), (err(TOP), st_.fork())]
        table_models(I2)
        fn2 = F.fn("volume_mgr::VolumeManager::open_raw_volume")
        st2 = State()
        outs2 = I2.run(fn2, [TOP, agg("struct", "VolumeIdx", 0, [sym_int(I2.vars, "volume_idx", 64)])], st2, 0)
        b_ok, b_bad = report(I2, R, "open_raw_volume", fn2)
        R.note("parse_volume: %d obligations discharged, %d reported; open_raw_volume: %d / %d" % (a_ok, a_bad, b_ok, b_bad))
    except Undecided as e:
        raise RuleUndecided(str(e))


@rule("MT2", ["C15"], floor=5,
      doc="layout: fat_start = reserved; second FAT = fat_start + fat_size iff num_fats == 2; FAT16 root at fat_start + num_fats*fat_size with ceil(root_entries*32/512) blocks, data after it; FAT32 data at fat_start + num_fats*fat_size, root cluster = BPB_RootClus, FSInfo at lba_start + BPB_FSInfo; cluster_count = (total - non_data) / blocks_per_cluster with the same non-data term in Bpb::create_from_bytes and parse_volume")
def mt2(F, R):
    pv = F.fn("fat::volume::parse_volume")
    # collect the FatVolume aggregates (one per FAT type)
    vols = []
    for b, i, s in pv.stmts():
        if s["k"] == "Assign" and s["rv"]["k"] == "Aggregate" and s["rv"].get("adt", "").endswith("FatVolume"):
            vols.append((b, dict(zip(s["rv"]["fields"], [pv.term_of_operand(o, b) for o in s["rv"]["ops"]]))))
    R.require(len(vols) == 2, pv, "volumes", "expected one FatVolume literal per FAT type", pv.loc(0))
    from .poly import peq, ADD, MUL, DIV, C
    from .dataflow import var_def_terms

    def bpb_atom(term, name):
        """the call Bpb::<name>(..) inside term (an opaque atom of the layout polynomials)"""
        for q in subterms(term):
            if q[0] == "call" and q[1] and q[1].endswith("Bpb::" + name):
                return q
        return None

    def layout(term):
        """reserved + num_fats*fat_size built from the accessor calls found in term; None when one is missing"""
        rc, nf, fs = bpb_atom(term, "reserved_block_count"), bpb_atom(term, "num_fats"), bpb_atom(term, "fat_size")
        if rc is None or nf is None or fs is None:
            return None
        return ADD(rc, MUL(nf, fs))

    for b, v in vols:
        ft = "Fat32" if "Fat32" in tstr(v["fat_specific_info"]) else "Fat16"
        problems = []
        rc = bpb_atom(v["fat_start"], "reserved_block_count")
        if rc is None or not peq(v["fat_start"], rc):
            problems.append("fat_start = %s, expected reserved_block_count" % tstr(v["fat_start"]))
        sf = strip_refs(v["second_fat_start"])
        sdefs = [sf] if sf[0] != "var" else [strip_refs(d) for d in var_def_terms(pv, sf[1])]
        somes = [d for d in sdefs if d[0] == "agg" and d[2] and d[2].endswith("Option::Some")]
        nones = [d for d in sdefs if d[0] == "agg" and d[2] and d[2].endswith("Option::None")]
        okp = len(somes) >= 1 and len(nones) >= 1 and len(somes) + len(nones) == len(sdefs)
        for d in somes:
            a, f_ = bpb_atom(d, "reserved_block_count"), bpb_atom(d, "fat_size")
            okp = okp and a is not None and f_ is not None and peq(d[3][0], ADD(a, f_))
        if not okp:
            problems.append("second_fat_start defs %s" % [tstr(d) for d in sdefs])
        if sf[0] == "var":
            # ... chosen by num_fats == 2 exactly (a single-FAT volume has nothing behind its FAT but the root directory / data):
            # decide every test of num_fats() for a concrete value and see which definition reaches the volume literal
            from .rules_r3 import specialise_on
            for nfv in (0, 1, 2, 3, 255):
                cut = specialise_on(pv, lambda q: q[0] == "call" and q[1] and q[1].endswith("Bpb::num_fats"), nfv)
                rs = pv.reach([0], cut_edges=cut)
                kinds = set()
                for dd in pv.defs().get(sf[1], []):
                    if dd[0] != "assign" or dd[1] not in rs or b not in pv.reach([dd[1]], cut_edges=cut):
                        continue
                    dv = pv.term_of_rvalue(dd[3], dd[1])
                    kinds.add("Some" if (dv[0] == "agg" and dv[2] and dv[2].endswith("Option::Some")) else "None" if (dv[0] == "agg" and dv[2] and dv[2].endswith("Option::None")) else "?")
                if b not in rs:
                    continue
                if nfv == 2 and kinds != {"Some"}:
                    problems.append("no second FAT is assumed although BPB_NumFATs == 2 was not excluded")
                if nfv != 2 and kinds != {"None"}:
                    problems.append("a second FAT is assumed without BPB_NumFATs == 2 (every FAT update would be mirrored into whatever follows the only FAT) [BPB_NumFATs = %d]" % nfv)
        if ft == "Fat32":
            lay = layout(v["first_data_block"])
            if lay is None or not peq(v["first_data_block"], lay):
                problems.append("FAT32 first_data_block = %s" % tstr(v["first_data_block"]))
            fsi = tstr(v["fat_specific_info"])
            if "first_root_dir_cluster(" not in fsi:
                problems.append("FAT32 root cluster is not BPB_RootClus: %s" % fsi)
            if "info_location" in fsi or True:
                # parse_volume(block_cache, lba_start, num_blocks): the second parameter, whatever it is called
                is_lba = lambda z: strip_refs(z)[:2] == ("arg", 2) or (strip_refs(z)[0] == "place" and strip_refs(strip_refs(z)[1])[:2] == ("arg", 2))
                okloc_ = has_sub(v["fat_specific_info"], lambda q: q[0] == "call" and q[1] and q[1].split("::")[-1] in ("checked_add", "add") and len(q[2]) == 2 and (is_lba(q[2][0]) or is_lba(q[2][1])))
                if not okloc_:
                    problems.append("FSInfo location is not lba_start + BPB_FSInfo: %s" % fsi)
        else:
            fsi = v["fat_specific_info"]
            frd = None
            for s_ in subterms(fsi):
                if s_[0] == "agg" and s_[2] and s_[2].endswith("Fat16Info"):
                    flds = [f["name"] for f in F.adts["fat::info::Fat16Info"]["variants"][0]["fields"]]
                    frd = dict(zip(flds, s_[3]))
            lay = layout(frd["first_root_dir_block"]) if frd else None
            if frd is None or lay is None or not peq(frd["first_root_dir_block"], lay):
                problems.append("FAT16 first_root_dir_block = %s" % (tstr(frd["first_root_dir_block"]) if frd else None))
            rec = bpb_atom(frd["root_entries_count"], "root_entries_count") if frd else None
            if frd is not None and (rec is None or not peq(frd["root_entries_count"], rec)):
                problems.append("FAT16 root_entries_count = %s" % tstr(frd["root_entries_count"]))
            fdb = v["first_data_block"]
            lay = layout(fdb)
            re_ = bpb_atom(fdb, "root_entries_count")
            okd = False
            if lay is not None and re_ is not None:
                okd = peq(fdb, ADD(lay, DIV(ADD(MUL(re_, C(32)), C(511)), C(512))))
                if not okd:
                    for q in subterms(fdb):
                        if q[0] == "call" and q[1] and q[1].endswith("BlockCount::from_bytes") and peq(q[2][0], MUL(re_, C(32))):
                            okd = okd or peq(fdb, ADD(lay, q))
            if not okd:
                problems.append("FAT16 first_data_block must be first_root_dir_block + ceil(root_entries*32/512): %s" % tstr(fdb))
        for fld, acc in (("blocks_per_cluster", "blocks_per_cluster("), ("cluster_count", "total_clusters(")):
            if acc not in tstr(v[fld]):
                problems.append("%s = %s" % (fld, tstr(v[fld])))
        # the cluster count is the BPB's, as it is (MT2's formula): not clamped, rounded or corrected here
        cc_ = strip_refs(v["cluster_count"])
        if not (cc_[0] == "call" and cc_[1] and cc_[1].endswith("Bpb::total_clusters")):
            problems.append("cluster_count = %s (must be bpb.total_clusters() itself)" % tstr(cc_)[:120])
        for fld, argn in (("lba_start", 2), ("num_blocks", 3)):
            if strip_refs(v[fld])[:2] != ("arg", argn):
                problems.append("%s = %s (must be parse_volume's parameter %d)" % (fld, tstr(v[fld]), argn))
        R.require(not problems, pv, "layout:" + ft, "; ".join(problems), pv.loc(b), okdetail="layout terms of the %s volume match the FAT specification" % ft)
    # cluster count in Bpb::create_from_bytes: the value stored into cluster_count is, as a formula over the BPB accessors,
    # (total_blocks - (num_fats * fat_size + reserved + ceil(root_entries * 32 / 512))) / blocks_per_cluster - whatever mix of
    # checked_* / `?` / and_then / helper functions computes it
    from .mir import expand_local_calls
    cb = F.fn("fat::bpb::Bpb::create_from_bytes")
    stores = [(b, i, cb.term_of_rvalue(s_["rv"], b)) for b, i, s_ in cb.stmts() if s_["k"] == "Assign" and s_["p"]["proj"] and s_["p"]["proj"][-1][0] == "field" and s_["p"]["proj"][-1][2] == "cluster_count"]
    okc = len(stores) == 1
    det = "expected one store to cluster_count, found %d" % len(stores)
    if okc:
        v = expand_local_calls(F, stores[0][2])
        at = {nm: bpb_atom(v, nm) for nm in ("total_blocks", "num_fats", "fat_size", "reserved_block_count", "root_entries_count", "blocks_per_cluster")}
        okc = all(x is not None for x in at.values())
        det = "the stored value does not use all of %s: %s" % (sorted(at), tstr(v)[:160])
        if okc:
            rootb = None
            for q in subterms(v):
                if q[0] == "call" and q[1] and q[1].endswith("BlockCount::from_bytes") and peq(q[2][0], MUL(at["root_entries_count"], C(32))):
                    rootb = q
            cands = [DIV(ADD(MUL(at["root_entries_count"], C(32)), C(511)), C(512))] + ([rootb] if rootb is not None else [])
            from .poly import SUB
            okc = any(peq(v, DIV(SUB(at["total_blocks"], ADD(ADD(MUL(at["num_fats"], at["fat_size"]), at["reserved_block_count"]), rb)), at["blocks_per_cluster"])) for rb in cands)
            det = "got %s" % tstr(v)[:200]
    R.require(okc, cb, "cluster-count", "cluster_count must be (total_blocks - (num_fats*fat_size + reserved + root_dir_blocks)) / blocks_per_cluster: %s" % det, cb.loc(0))
    R.ok(cb, "root-dir-blocks", "root directory sized as ceil(root_entries_count * 32 / 512) (part of the cluster-count identity)")


@rule("MT4", ["C15"], floor=10,
      doc="acceptance decisions: MBR signature 0xAA55 at 510, partition status & 0x7F == 0, type in {04,06,0B,0C,0E}, entry i at 446+16i (LBA at +8, size at +12); BPB footer; cluster_count < 4085 rejected, < 65525 FAT16, else FAT32 with fs_ver == 0; FAT16 requires 512-byte blocks; FSInfo signatures; free-count / next-free sentinels")
def mt4(F, R):
    S = fat_spec()
    cb = F.fn("fat::bpb::Bpb::create_from_bytes")
    # decided by constant propagation through the tests: for boundary values of the cluster count (and every value of the
    # small fields) which outcome stays reachable - independent of how the tests are written
    from .specialise import specialise_on, specialise_all, compared_constants
    from .ev import specialise_enum, resolve_bool_temps
    th = S["fat_type_thresholds"]
    lo, hi = th["fat12_below"], th["fat16_below"]
    # the cluster count is the field - or the value that is stored into it, when the tests read it from a local
    cc_vals = [strip_refs(cb.term_of_rvalue(s_["rv"], b)) for b, i, s_ in cb.stmts()
               if s_["k"] == "Assign" and s_["p"]["proj"] and s_["p"]["proj"][-1][0] == "field" and s_["p"]["proj"][-1][2] == "cluster_count"]
    cc_vals = [t for t in cc_vals if t[0] != "c"]
    is_cc = lambda q: (q[0] == "place" and q[2] and q[2][-1] == "cluster_count") or q in cc_vals
    is_ft = lambda q: q[0] == "place" and q[2] and q[2][-1] == "fat_type"
    call_is = lambda nm: (lambda q: q[0] == "call" and q[1] and q[1].endswith(nm))
    cmpc = compared_constants(cb, is_cc)
    R.require(cmpc and cmpc <= {0, lo - 1, lo, hi - 1, hi}, cb, "thresholds", "the cluster count is compared with %s; the specification says count < 4085 => FAT12 (unsupported), < 65525 => FAT16, else FAT32" % sorted(cmpc), cb.loc(0))
    oks = [x[0] for x in ok_returns(cb)]
    ftv = F.variants("fat::FatType")

    def classes(rs, cut):
        """FatType constants that can be stored into .fat_type on the blocks rs"""
        out = set()
        def vals(t, depth=0):
            t = strip_refs(t)
            if t[0] == "agg" and t[2] and t[2].split("::")[-1] in ftv:
                return {t[2].split("::")[-1]}
            if t[0] == "c" and t[2] and t[2].split("::")[-1] in ftv:
                return {t[2].split("::")[-1]}
            if t[0] == "var" and depth < 4:
                o = set()
                for d in cb.defs().get(t[1], []):
                    if d[0] == "assign" and d[1] in rs:
                        o |= vals(cb.term_of_rvalue(d[3], d[1]), depth + 1)
                    elif d[1] in rs:
                        o.add("?")
                return o
            return {"?"}
        for b, i, s_ in cb.stmts():
            if b in rs and s_["k"] == "Assign" and s_["p"]["proj"] and s_["p"]["proj"][-1][0] == "field" and s_["p"]["proj"][-1][2] == "fat_type":
                out |= vals(cb.term_of_rvalue(s_["rv"], b))
        return out

    bad = []
    for v in (0, 1, lo - 2, lo - 1, lo, lo + 1, 30000, hi - 2, hi - 1, hi, hi + 1, 0x0FFFFFF5, 0xFFFFFFFF):
        want = None if v < lo else ("Fat16" if v < hi else "Fat32")
        cut0 = specialise_on(cb, is_cc, v)
        rs0 = cb.reach([0], cut_edges=cut0)
        cls = classes(rs0, cut0)
        if want is None:
            if any(b in rs0 for b in oks):
                bad.append("count %d (FAT12) can be accepted" % v)
            continue
        if cls != {want}:
            bad.append("count %d is classified %s, expected %s" % (v, sorted(cls), want))
            continue
        for ver in (0, 1, 0x0100):
            cut = resolve_bool_temps(cb, cut0 + specialise_enum(cb, is_ft, ftv, want) + specialise_on(cb, call_is("Bpb::fs_ver"), ver))
            rs = cb.reach([0], cut_edges=cut)
            okr = any(b in rs for b in oks)
            if want == "Fat16" and not okr:
                bad.append("a FAT16 volume (count %d) is refused (bytes 42..44 = %#x are not BPB_FSVer on FAT16)" % (v, ver))
            if want == "Fat32" and okr != (ver == 0):
                bad.append("FAT32 (count %d) with BPB_FSVer = %#x is %s" % (v, ver, "accepted" if okr else "refused"))
    R.require(not [x for x in bad if "FSVer" not in x], cb, "classification", "; ".join(x for x in bad if "FSVer" not in x), cb.loc(0), okdetail="13 boundary cluster counts classified as the specification says")
    R.require(not [x for x in bad if "FSVer" in x], cb, "fs_ver", "FAT32 must be accepted only with BPB_FSVer == 0: " + "; ".join(x for x in bad if "FSVer" in x), cb.loc(0))
    # boot sector signature
    fc = compared_constants(cb, call_is("Bpb::footer"))
    okf = fc == {S["bpb_footer_value"]}
    for v in (S["bpb_footer_value"], 0, 0x55AA, S["bpb_footer_value"] ^ 1, S["bpb_footer_value"] ^ 0x8000, 0xFFFF):
        rs = cb.reach([0], cut_edges=specialise_on(cb, call_is("Bpb::footer"), v))
        okf = okf and (any(b in rs for b in oks) == (v == S["bpb_footer_value"]))
    R.require(okf, cb, "bpb-footer", "boot sector must be rejected without the 0xAA55 signature", cb.loc(0))
    pv = F.fn("fat::volume::parse_volume")
    lit16 = [b for b, i, s_ in pv.stmts() if s_["k"] == "Assign" and s_["rv"]["k"] == "Aggregate" and s_["rv"].get("adt", "").endswith("Fat16Info")]
    bc = compared_constants(pv, call_is("Bpb::bytes_per_block"))
    ok512 = bool(lit16) and bc == {512}
    for v in (0, 256, 511, 512, 513, 1024, 4096, 65535):
        rs = pv.reach([0], cut_edges=specialise_on(pv, call_is("Bpb::bytes_per_block"), v))
        ok512 = ok512 and (any(b in rs for b in lit16) == (v == 512))
    R.require(ok512, pv, "fat16-512", "FAT16 volumes must have 512-byte blocks", pv.loc(0))
    # FSInfo
    ci = F.fn("fat::info::InfoSector::create_from_bytes")
    oki = [x[0] for x in ok_returns(ci)]
    sig = {"lead_sig": S["info_sigs"]["LEAD_SIG"], "struc_sig": S["info_sigs"]["STRUC_SIG"], "trail_sig": S["info_sigs"]["TRAIL_SIG"]}
    checked = set()
    rs = ci.reach([0], cut_edges=specialise_all(ci, [(call_is("InfoSector::" + nm), v) for nm, v in sig.items()]))
    all_ok = any(b in rs for b in oki)
    for nm in sig:
        refused = True
        for wrong in (0, sig[nm] ^ 1, sig[nm] ^ 0x80000000, int.from_bytes(sig[nm].to_bytes(4, "little"), "big")):
            if wrong == sig[nm]:
                continue
            rs = ci.reach([0], cut_edges=specialise_all(ci, [(call_is("InfoSector::" + n2), (wrong if n2 == nm else v2)) for n2, v2 in sig.items()]))
            refused = refused and not any(b in rs for b in oki)
        if refused and compared_constants(ci, call_is("InfoSector::" + nm)) == {sig[nm]}:
            checked.add(nm)
    R.require(all_ok and checked == set(sig), ci, "fsinfo-sigs", "FSInfo must be accepted with, and rejected unless, all three signatures match (checked: %s%s)" % (sorted(checked), "" if all_ok else "; a correct sector is refused"), ci.loc(0))
    # the "unknown" sentinels, decided by evaluating the accessor on concrete field values (match / if / range form alike)
    from .rules_codec import data_struct
    from .absval import is_agg as _is_agg
    for nm, unknown in (("free_clusters_count", {0xFFFFFFFF}), ("next_free_cluster", {0xFFFFFFFF, 0, 1})):
        f = F.fn("fat::info::InfoSector::" + nm)
        off = S["info"][{"free_clusters_count": "free_count", "next_free_cluster": "next_free"}[nm]][0]
        problems = []
        try:
            for val in (0, 1, 2, 3, 0x12345, 0x0FFFFFF7, 0xFFFFFFFE, 0xFFFFFFFF):
                I = Interp(F, mode="bv", max_paths=64)
                st = State()
                self_p, bytes_ = data_struct(I, st, F, "fat::info::InfoSector", 512)
                sv = I.read_loc(st, (self_p[1], self_p[2], self_p[3], None))
                dptr = sv[4][[x["name"] for x in F.adts["fat::info::InfoSector"]["variants"][0]["fields"]].index("data")]
                cells = list(I.read_loc(st, (dptr[1], dptr[2], dptr[3], None))[1])
                for k in range(4):
                    cells[off + k] = const((val >> (8 * k)) & 0xFF, 8)
                I.write_loc(st, (dptr[1], dptr[2], dptr[3], None), ("arr", tuple(cells)))
                outs = I.run(f, [self_p], st, 0)
                res = set()
                for rv, s2 in outs:
                    if _is_agg(rv) and rv[3] is not None:
                        if rv[3] == 0:
                            res.add(None)
                        else:
                            inner = rv[4][0]
                            while _is_agg(inner):
                                inner = inner[4][0]
                            res.add(int_const(inner) if is_int(inner) else "?")
                    else:
                        res.add("?")
                want = {None} if val in unknown else {val}
                if res != want:
                    problems.append("field value %#x gives %s, expected %s" % (val, sorted(res, key=repr), sorted(want, key=repr)))
        except Undecided as e:
            problems.append("cannot evaluate: %s" % e)
        R.require(not problems, f, "sentinels:" + nm, "%s must treat exactly %s as unknown (None) and pass every other value through; %s" % (nm, sorted(hex(x) for x in unknown), "; ".join(problems[:3])), f.loc(0))
    # MBR
    orv = F.fn("volume_mgr::VolumeManager::open_raw_volume")
    M = S["mbr"]
    from .specialise import _fold, _subst_pred
    # named constants are checked where they exist (their names are the upstream ones; a refactoring may fold them away -
    # the structural clauses below do not depend on them)
    for cn, cv in (("PARTITION1_START", M["partition_table"]), ("PARTITION2_START", M["partition_table"] + 16), ("PARTITION3_START", M["partition_table"] + 32), ("PARTITION4_START", M["partition_table"] + 48),
                   ("FOOTER_START", M["signature_offset"]), ("FOOTER_VALUE", M["signature"]), ("PARTITION_INFO_LENGTH", M["entry_len"]), ("PARTITION_INFO_STATUS_INDEX", M["status"]),
                   ("PARTITION_INFO_TYPE_INDEX", M["type"]), ("PARTITION_INFO_LBA_START_INDEX", M["lba_start"]), ("PARTITION_INFO_NUM_BLOCKS_INDEX", M["num_blocks"])):
        try:
            v = F.const("open_raw_volume::" + cn)
        except KeyError:
            continue
        R.require(v == cv, orv, "mbr:" + cn, "%s = %d, MBR layout says %d" % (cn, v, cv))
    ids = sorted(F.const(n) for n in ("PARTITION_ID_FAT32_LBA", "PARTITION_ID_FAT16_LBA", "PARTITION_ID_FAT16", "PARTITION_ID_FAT16_SMALL", "PARTITION_ID_FAT32_CHS_LBA"))
    R.require(ids == sorted(M["fat_types"]), orv, "mbr:types", "accepted partition types %s, expected %s" % (ids, sorted(M["fat_types"])))
    # MBR signature: 0xAA55 read little-endian from bytes 510..512 of block 0, everything else refused
    is_sig = lambda q: q[0] == "call" and q[1] and q[1].endswith("read_u16") and has_sub(q, lambda z: z[0] == "agg" and z[2] and z[2].endswith("Range") and len(z[3]) == 2 and z[3][0][:2] == ("c", M["signature_offset"]) and z[3][1][:2] == ("c", M["signature_offset"] + 2))
    _is_sig0 = is_sig

    def is_sig(q):
        if _is_sig0(q):
            return True
        # u16::from_le_bytes([block[510], block[511]])
        if q[0] == "call" and q[1] and q[1].endswith("from_le_bytes") and len(q[2]) == 1:
            a_ = strip_refs(q[2][0])
            if a_[0] == "agg" and a_[1] == "Array" and len(a_[3]) == 2:
                return all(has_sub(a_[3][k_], lambda z, k_=k_: z[:2] == ("c", M["signature_offset"] + k_)) for k_ in (0, 1))
        return False
    pv_sites = [b for b, t in orv.calls() if (t.get("callee") or "").endswith("parse_volume")]
    oksig = compared_constants(orv, is_sig) == {M["signature"]}
    for v in (M["signature"], 0, 0x55AA, M["signature"] ^ 1, 0xFFFF):
        rs = orv.reach([0], cut_edges=specialise_on(orv, is_sig, v))
        oksig = oksig and (any(b in rs for b in pv_sites) == (v == M["signature"]))
    R.require(oksig, orv, "mbr:signature", "a partition is mounted only from a sector whose bytes 510..512 hold 0xAA55 (little-endian)", orv.loc(0))
    # partition slot selection: volume index i uses block[446 + 16 i .. + 16], decided for i = 0..3; any other index is refused
    is_vi = lambda q: q[0] == "place" and strip_refs(q[1])[:2] == ("arg", 2) and tuple(q[2]) == ("0",)
    sel = {}

    def _res(t_, rs_, depth=0):
        """t_ with every local replaced by the one definition of it that is still reachable (rs_) once the volume index is
        decided (`let start = match volume_idx { VolumeIdx(0) => PARTITION1_START, .. }; &block[start..start + 16]`)"""
        if not isinstance(t_, tuple) or depth > 6:
            return t_
        if t_ and t_[0] == "var" and isinstance(t_[1], int):
            ds_ = [d for d in orv.defs().get(t_[1], []) if d[0] == "assign" and d[1] in rs_]
            if len(ds_) == 1 and len(orv.defs().get(t_[1], [])) > 1:
                return _res(orv.term_of_rvalue(ds_[0][3], ds_[0][1]), rs_, depth + 1)
            return t_
        return tuple(_res(x, rs_, depth + 1) if isinstance(x, tuple) else x for x in t_)
    rs_by_idx = {}
    for i_ in range(6):
        rs = orv.reach([0], cut_edges=specialise_on(orv, is_vi, i_))
        rs_by_idx[i_] = rs
        got = set()
        for b, t in orv.calls():
            if b in rs and (callee_of(t) or "").endswith(("Index::index", "::index")):
                r = strip_refs(orv.term_of_operand(t["args"][1], b))
                if r[0] == "agg" and r[2] and r[2].endswith("Range") and len(r[3]) == 2:
                    lo_, hi_ = _fold(_subst_pred(_res(r[3][0], rs), is_vi, i_)), _fold(_subst_pred(_res(r[3][1], rs), is_vi, i_))
                    if lo_ is not None and hi_ is not None and lo_ >= 64 and (lo_, hi_) != (M["signature_offset"], M["signature_offset"] + 2):
                        got.add((lo_, hi_))
        sel[i_] = (sorted(got), any(b in rs for b in pv_sites))
    want = {i_: ([(M["partition_table"] + 16 * i_, M["partition_table"] + 16 * i_ + 16)], True) if i_ < 4 else ([], False) for i_ in range(6)}
    for i_ in range(4, 6):
        sel[i_] = ([] if not sel[i_][1] else sel[i_][0], sel[i_][1])
    R.require(sel == want, orv, "mbr:slot-selection", "partition entry used per volume index is %s, expected %s" % (sel, want), orv.loc(0))
    # how the entry is used: parse_volume is reached only under (status & 0x7F) == 0 (0x00 and 0x80 are the valid status bytes),
    # with the type byte in the accepted set, and is given LE u32 [8..12) as start and [12..16) as length of *that* entry
    pvs = [(b, t) for b, t in orv.calls() if (t.get("callee") or "").endswith("parse_volume")]
    R.require(len(pvs) == 1, orv, "mbr:parse-site", "expected one parse_volume call in open_raw_volume", orv.loc(0))
    for b, t in pvs:
        from .dataflow import var_def_terms
        starts = {M["partition_table"] + 16 * k for k in range(4)}

        def entry_slice(x, depth=0):
            """x is (a reference to) one of the four 16-byte partition entries: block[446+16i .. +16]"""
            x = strip_refs(x)
            if x[0] == "var" and depth < 3:
                ds = var_def_terms(orv, x[1])
                return bool(ds) and all(entry_slice(d, depth + 1) for d in ds)
            if x[0] == "call" and x[1] and x[1].endswith(("Index::index", "::index")):
                r = strip_refs(x[2][1])
                if not (r[0] == "agg" and r[2] and r[2].endswith("Range") and len(r[3]) == 2):
                    return False
                for i_ in range(4):       # constant per arm, or computed from the volume index
                    lo_, hi_ = _fold(_subst_pred(_res(r[3][0], rs_by_idx[i_]), is_vi, i_)), _fold(_subst_pred(_res(r[3][1], rs_by_idx[i_]), is_vi, i_))
                    if lo_ is None or hi_ is None or lo_ not in starts or hi_ != lo_ + 16:
                        return False
                return True
            if x[0] == "place" and not any(isinstance(e, tuple) for e in x[2]):
                return entry_slice(x[1], depth + 1)
            return False

        def entry_byte(k):
            def pred(q):
                if q[0] != "place":
                    return False
                idx = [e for e in q[2] if isinstance(e, tuple) and e[0] in ("idx", "cidx")]
                if len(idx) != 1 or not ((idx[0][0] == "idx" and idx[0][1][:2] == ("c", k)) or (idx[0][0] == "cidx" and idx[0][1] == k)):
                    return False
                return entry_slice(q[1])
            return pred
        accepted = {v for v in range(256) if b in orv.reach([0], cut_edges=specialise_on(orv, entry_byte(M["status"]), v))}
        R.require(accepted == {0x00, 0x80} and compared_constants(orv, entry_byte(M["status"])), orv, "mbr:status-mask", "a partition is mounted for the status bytes %s: 0x00 and 0x80 (active) are the two valid status bytes, anything else must be refused and 0x80 must be accepted" % sorted(hex(v) for v in accepted)[:8], orv.loc(b))
        types = {v for v in range(256) if b in orv.reach([0], cut_edges=specialise_on(orv, entry_byte(M["type"]), v))}
        R.require(types == set(M["fat_types"]) and compared_constants(orv, entry_byte(M["type"])), orv, "mbr:type-dispatch", "parse_volume is reached for partition types %s, expected %s" % (sorted(types)[:12], sorted(M["fat_types"])), orv.loc(b))

        def le32_at(x, off):
            x = strip_refs(x)
            for q in subterms(x):
                le = q[0] == "call" and q[1] and q[1].endswith("read_u32") and "LittleEndian" in call_site_info(F, orv, q[3]).get("callee_full", "")
                if le or (q[0] == "call" and q[1] and q[1].endswith("u32::from_le_bytes")):
                    for q2 in subterms(q):
                        if q2[0] == "call" and q2[1] and q2[1].endswith(("Index::index", "::index")) and entry_slice(q2[2][0]):
                            r = strip_refs(q2[2][1])
                            if r[0] == "agg" and r[2] and r[2].endswith("Range") and len(r[3]) == 2 and _fold(r[3][0]) == off and _fold(r[3][1]) == off + 4:
                                return True
            return False
        from .mir import expand_local_calls
        a1 = expand_local_calls(F, orv.term_of_operand(t["args"][1], b))
        a2 = expand_local_calls(F, orv.term_of_operand(t["args"][2], b))
        okl = le32_at(a1, M["lba_start"]) and le32_at(a2, M["num_blocks"])
        R.require(okl, orv, "mbr:lba-and-length", "parse_volume must get LE u32 [8..12) as start block and [12..16) as block count of the selected entry; got (%s, %s)" % (tstr(a1)[-70:], tstr(a2)[-70:]), orv.loc(b))


# ---------------------------------------------------------------------------------------
# LF1: decoding of arbitrary directory bytes / LFN fragments never panics


def _run_region(F, R, I, fn, args, st, region, skip=()):
    try:
        outs = I.run(fn, args, st, 0)
    except Undecided as e:
        raise RuleUndecided("%s: %s" % (fn.npath, e))
    n_ok = n_bad = 0
    for key, it in sorted(I.obl.items.items(), key=lambda x: (x[0][0], x[0][1] or 0, x[0][2])):
        f, b, kind = key
        if it["bad"]:
            sk = [why for (pf, pk, why) in skip if f.endswith(pf) and kind.startswith(pk)]
            if sk:
                R.ok(f, "%s:%s" % (region, kind), "discharged by structural rule: %s" % sk[0], it["loc"])
                n_ok += 1
                continue
            n_bad += 1
            R.bad(f, "%s:%s" % (region, kind), "possible panic in %s: %s" % (f, it["detail"]), it["loc"])
        else:
            n_ok += 1
            R.ok(f, "%s:%s" % (region, kind), "discharged on %d path visit(s)" % it["ok"], it["loc"])
    return outs, n_ok, n_bad


@rule("IS5", ["C16"], floor=1,
      doc="a wrong record never makes the flush panic: update_info_sector, run on an arbitrary volume state (any free count, any next-free hint - the values read from the medium at mount are kept as they are until the first allocation), reaches no explicit panic / failed assertion (interval abstract interpretation; the cache and the slice stores are havocked)")
def is5(F, R):
    from .absval import TOP
    fn = F.fn("fat::volume::FatVolume::update_info_sector")
    I = Interp(F, mode="iv", max_paths=400)
    st = State()
    selfp = I.heap_alloc(st, TOP)
    cache = I.heap_alloc(st, TOP)
    # the cache is the BC rules' business: its calls succeed with some block or fail
    from .stdmodel import ok as _ok, err as _err
    for nm_ in ("read", "read_mut", "blank_mut", "write_back", "write_back_with_duplicate"):
        I.models["blockdevice::BlockCache::" + nm_] = lambda I_, st_, a_, ctx: [(_ok(TOP), st_), (_err(TOP), st_.fork())]
    skip = (("update_info_sector", "index:", "the block is the cache's 512-byte buffer (BC rules); the field offsets are IS2's"),)
    _o, a, b = _run_region(F, R, I, fn, [selfp, cache], st, "update_info_sector", skip=skip)
    R.ok(fn, "evaluated", "%d obligations discharged, %d reported; %d result state(s)" % (a, b, len(_o)))


@rule("LF1", ["C17"], floor=30,
      doc="decoding never panics on arbitrary bytes: every assertion / slice / unwrap obligation in OnDiskDirEntry::{is_end,is_valid,is_lfn,lfn_contents,matches,get_entry,first_cluster_*}, Timestamp::from_fat, Attributes::*, ShortFileName::csum, SeqState::update, LfnBuffer::{new,clear,as_str,push} and the slot loops of iterate_fat16/32 is discharged for a 32-byte slot of arbitrary contents, arbitrary 13-unit fragments and any buffer size (interval abstract interpretation; the byte-store loop of push by the LF3 idiom, the staging vector by LF2)")
def lf1(F, R):
    adt = "fat::ondiskdirentry::OnDiskDirEntry"
    total_ok = total_bad = 0
    # ---- slot decoders on a 32-byte slice
    for name in ("is_end", "is_valid", "is_lfn", "lfn_contents", "first_cluster_fat32", "first_cluster_fat16"):
        fn = F.fn(adt + "::" + name)
        I = Interp(F, mode="iv")
        st = State()
        self_p, _bs = data_struct(I, st, F, adt, 32, slice_=True)
        _o, a, b = _run_region(F, R, I, fn, [self_p], st, name)
        total_ok += a
        total_bad += b
    fn = F.fn(adt + "::matches")
    I = Interp(F, mode="iv")
    st = State()
    self_p, _bs = data_struct(I, st, F, adt, 32, slice_=True)
    from .rules_codec import sym_value
    sfn = I.heap_alloc(st, sym_value(I, st, "filesystem::filename::ShortFileName", "sfn", F))
    _o, a, b = _run_region(F, R, I, fn, [self_p, sfn], st, "matches")
    total_ok += a
    total_bad += b
    fn = F.fn(adt + "::get_entry")
    for ft in ("Fat16", "Fat32"):
        I = Interp(F, mode="iv")
        st = State()
        self_p, _bs = data_struct(I, st, F, adt, 32, slice_=True)
        args = [self_p, agg("enum", "fat::FatType", F.variant_index("fat::FatType", ft), []), agg("struct", "blockdevice::BlockIdx", 0, [sym_int(I.vars, "blk", 32)]), sym_int(I.vars, "off", 32)]
        _o, a, b = _run_region(F, R, I, fn, args, st, "get_entry/" + ft)
        total_ok += a
        total_bad += b
    # ---- checksum
    fn = F.fn("filesystem::filename::ShortFileName::csum")
    I = Interp(F, mode="iv")
    st = State()
    sfn = I.heap_alloc(st, sym_value(I, st, "filesystem::filename::ShortFileName", "sfn", F))
    _o, a, b = _run_region(F, R, I, fn, [sfn], st, "csum")
    total_ok += a
    total_bad += b
    # ---- sequence state machine, all inputs symbolic, each state kind
    upd = [f for f in F.fns if f.npath.endswith("SeqState::update")]
    sadt = [p for p in F.adts if p.endswith("SeqState")]
    if len(upd) == 1 and len(sadt) == 1:
        fn = upd[0]
        sadt = sadt[0]
        for vi, vname in enumerate(F.variants(sadt)):
            I = Interp(F, mode="iv")
            st = State()
            noop = lambda I_, st_, a_, ctx: [(agg("tuple", None, None, []), st_)]
            I.models["filesystem::filename::LfnBuffer::clear"] = noop
            I.models["filesystem::filename::LfnBuffer::push"] = noop
            nf = len(F.adts[sadt]["variants"][vi]["fields"])
            state = agg("enum", sadt, vi, [sym_int(I.vars, "s%d" % k, 8) for k in range(nf)])
            args = [state, I.heap_alloc(st, TOP), sym_int(I.vars, "start", 1), sym_int(I.vars, "sequence", 8), sym_int(I.vars, "csum", 8), arr([sym_int(I.vars, "u%d" % k, 16) for k in range(13)])]
            _o, a, b = _run_region(F, R, I, fn, args, st, "update/" + vname)
            total_ok += a
            total_bad += b
    else:
        R.bad(None, "update", "SeqState::update not found", kind="anchor-missing")
    # ---- LfnBuffer: invariant free <= inner.len() (established by new/clear, preserved by push: LF3)
    LB = "filesystem::filename::LfnBuffer"

    def mk_buffer(I, st):
        ln = sym_int(I.vars, "len", 64)
        ln = mk_int(64, False, None, 0, 1 << 40, ln[6])
        cell = I.heap_alloc(st, ("arrtop", 0, 1 << 40, top_int(8)))
        inner = ptr(cell[1], cell[2], (), (const(0, 64), ln), True)
        free = sym_int(I.vars, "free", 64)
        free = mk_int(64, False, None, 0, 1 << 40, free[6])
        st.rels = st.rels | {("le", free[6], ln[6])}
        flds = [f["name"] for f in F.adts[LB]["variants"][0]["fields"]]
        vals = {"inner": inner, "free": free, "overflow": sym_int(I.vars, "overflow", 1), "unpaired_surrogate": TOP}
        return I.heap_alloc(st, agg("struct", LB, 0, [vals[x] for x in flds]))
    for name in ("as_str", "clear"):
        fn = F.fn(LB + "::" + name)
        I = Interp(F, mode="iv")
        st = State()
        _o, a, b = _run_region(F, R, I, fn, [mk_buffer(I, st)], st, name)
        total_ok += a
        total_bad += b
    # push: staging-vector pushes are bounded by LF2; the byte-store loop by the LF3 idiom
    fn = F.fn(LB + "::push")
    I = Interp(F, mode="iv", max_paths=20000)
    st = State()

    def encode_utf8(I_, st_, a_, ctx):
        sv = None
        from .stdmodel import slice_view, panic_ob
        sv = slice_view(I_, st_, a_[1])
        ln = sv[2] if sv else top_int(64)
        panic_ob(I_, st_, ctx, "encode_utf8:buffer", ln[4] >= 4, "encode_utf8 into a buffer of length %s (needs up to 4)" % I_.show(ln))
        cell = I_.heap_alloc(st_, ("arrtop", 1, 4, top_int(8)))
        return [(ptr(cell[1], cell[2], (), (const(0, 64), mk_int(64, False, None, 1, 4)), True), st_)]
    I.model_suffixes.insert(0, ("::encode_utf8", encode_utf8))
    I.model_suffixes.insert(0, ("str::len", lambda I_, st_, a_, ctx: [((a_[0][4][1] if is_ptr(a_[0]) and a_[0][4] else mk_int(64, False, None, 0, 1 << 40)), st_)]))
    buf = I.heap_alloc(st, arr([sym_int(I.vars, "u%d" % k, 16) for k in range(13)]))
    skip = (("LfnBuffer::push", "unwrap:Err", "LF2 (iterator length bound <= capacity of the staging Vec)"),
            ("LfnBuffer::push", "assert:Overflow:Sub", "LF3 (free >= encoded.len() guard; exactly one `free -= 1` per byte of the encoded char)"),
            ("LfnBuffer::push", "assert:BoundsCheck", "LF3 (store index is `free` after the decrement, free < free_0 <= inner.len())"))
    from .rules_lfn import window_store
    win = window_store(fn)
    if win is not None and not win["problems"]:
        skip = skip + (("LfnBuffer::push", "index:range", "LF3 (window form: inner[free - len .. free] behind the space guard, free <= inner.len())"),)
    _o, a, b = _run_region(F, R, I, fn, [mk_buffer(I, st), buf], st, "push", skip=skip)
    total_ok += a
    total_bad += b
    # ---- the listing closures and walkers contain no arithmetic of their own beyond i * 32 with i < 16
    for wn in ("iterate_fat16", "iterate_fat32"):
        fn = F.fn("fat::volume::FatVolume::" + wn)
        muls = []
        for b_ in fn.live_blocks():
            t = fn.term(b_)
            if t["k"] == "Assert" and t["kind"].startswith("Overflow:Mul"):
                ops = [fn.term_of_operand(o, b_) for o in t["ops"]]
                muls.append((b_, ops))
        okm = True
        for b_, ops in muls:
            s_ = " ".join(tstr(o) for o in ops)
            if "blocks_per_cluster" in s_ or "root_entries_count" in s_:
                continue  # geometry arithmetic on mounted (validated) fields
            # slot offset: enumerate index of chunks_exact(32) over a 512-byte block times 32
            idx_ok = any(has_sub(o, lambda q: q[0] == "call" and q[1] and q[1].endswith("Iterator::next")) for o in ops) and any(o[:2] == ("c", 32) for o in ops)
            okm = okm and idx_ok
        # the same offset kept as a running sum: a u32 local that starts at 0 and grows by a constant <= 512 once per trip of
        # a loop driven by a chunks iterator over the 512-byte block (at most 512 trips): no overflow either
        running = 0
        for b_ in fn.live_blocks():
            t = fn.term(b_)
            if t["k"] == "Assert" and t["kind"].startswith("Overflow:Add"):
                ops = [strip_refs(fn.term_of_operand(o, b_)) for o in t["ops"]]
                s_ = " ".join(tstr(o) for o in ops)
                if "blocks_per_cluster" in s_ or "root_entries_count" in s_ or "BlockCount" in s_ or "BlockIdx" in s_:
                    continue
                v = [o for o in ops if o[0] == "var"]
                c = [o for o in ops if o[0] == "c" and isinstance(o[1], int) and 0 < o[1] <= 512]
                good = False
                # an item of a constant integer range (`for off in (0..512).step_by(32)`): below the range's end, so adding a
                # small constant cannot overflow
                if len(c) == 1 and len(ops) == 2:
                    from .dataflow import var_def_terms as _vdt
                    for o in ops:
                        q = o
                        if q[0] == "place" and tuple(q[2]) == ("as:Some", "0") and q[1][0] == "call" and (q[1][1] or "").endswith("Iterator::next") and len(q[1][2]) == 1:
                            it = strip_refs(q[1][2][0])
                            for _k in range(6):
                                if it[0] == "var":
                                    ds_ = [strip_refs(d) for d in _vdt(fn, it[1])]
                                    if len(ds_) != 1:
                                        break
                                    it = ds_[0]
                                elif it[0] == "call" and (it[1] or "").split("::")[-1] in ("into_iter", "step_by") and it[2]:
                                    it = strip_refs(it[2][0])
                                else:
                                    break
                            if it[0] == "agg" and (it[2] or "").split("::")[-1] == "Range" and len(it[3]) == 2 and all(z[0] == "c" and isinstance(z[1], int) and 0 <= z[1] <= (1 << 32) for z in it[3]):
                                good = True
                if len(v) == 1 and len(c) == 1:
                    from .dataflow import var_def_terms
                    ds = [strip_refs(d) for d in var_def_terms(fn, v[0][1])]
                    inloop = [l for l in fn.loops() if b_ in l[1] and any(fn.term(x)["k"] == "Call" and (callee_of(fn.term(x)) or "").endswith("Iterator::next") and "Chunks" in fn.term(x).get("callee_full", "") for x in l[1])]
                    good = bool(inloop) and len(ds) == 2 and any(d[:2] == ("c", 0) for d in ds) and any(d[0] == "bin" and d[1] == "Add" and strip_refs(d[2]) == v[0] and d[3][:2] == c[0][:2] for d in ds)
                if good:
                    running += 1
                else:
                    okm = False
        R.require(okm and (muls or running), fn, wn + ":slot-offset", "slot offset arithmetic in %s is not i * 32 with i from enumerate(chunks_exact(32)) (i < 16), nor a running offset growing by 32 per slot" % wn, fn.loc(0), okdetail="slot offset i*32 with i < 512/32")
    lf = F.fn("fat::volume::FatVolume::iterate_dir_lfn")
    for c in F.closures_of(lf):
        n_assert = sum(1 for b_ in c.live_blocks() if c.term(b_)["k"] == "Assert")
        R.require(n_assert == 0, c, "closure-no-arith", "listing closure contains %d arithmetic/bounds assertions" % n_assert, c.loc(0), okdetail="no assertions in the listing closure")
    R.note("LF1: %d obligations discharged, %d reported" % (total_ok, total_bad))
