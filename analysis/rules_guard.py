"""Guard rules (GD engine): effects happen only under the stated conditions.
MD2-MD5, MD7, MD9, LS1-LS3, SK1, CP1, CP2, LK1, LK2, HV1, HV2."""
from .framework import rule
from .ev import all_guards, guarded, g_call, g_cmp, g_try_ok, try_inner, decode_edge
from .mir import tstr, callee_of, path_matches, is_log_call, strip_refs, subterms, tmatch, find_sub, strip_generics
from .dataflow import var_def_terms
from .fsmodel import (
    VM, VMD, all_effects, medium_effects, state_effects, err_returns, ok_returns, public_vm_fns,
    is_result_of_error, call_matches, table_of_term, TABLES,
)


def last_field(t):
    if t[0] == "place" and t[2]:
        e = t[2][-1]
        return e if isinstance(e, str) else None
    return None


def is_variant(t, suffix):
    t = strip_refs(t)
    return t[0] == "agg" and t[2] is not None and path_matches(t[2], suffix)


def has_sub(t, pred):
    return any(pred(s) for s in subterms(t))


def eff_key(e):
    return "%s:%s" % (e[2], e[3])


# ---------------------------------------------------------------------------------------


@rule("MD2", ["C07"], floor=8,
      doc="VolumeManager::write: every effect (allocation, cache mutation, store into the open-file record) is reachable only through the false edge of `file.mode == Mode::ReadOnly`")
def md2(F, R):
    fn = F.fn(VM + "::write")
    # decide every test of the open file's mode for Mode::ReadOnly (==, !=, match, if let, matches!): no effect may stay reachable
    from .ev import specialise_enum
    modes = F.variants("filesystem::files::Mode")
    is_mode = lambda a: a[0] == "place" and last_field(a) == "mode" and table_of_term(a) == "open_files"
    cut = specialise_enum(fn, is_mode, modes, "ReadOnly")
    rs = fn.reach([0], cut_edges=cut)
    R.require(bool(cut), fn, "mode-test", "write() never tests the open file's mode", fn.loc(0))
    for e in all_effects(fn):
        R.require(e[0] not in rs, fn, eff_key(e), "effect %s %s reachable without passing `mode != ReadOnly`" % (e[2], e[3]), fn.loc(e[0], e[1]),
                  okdetail="effect %s unreachable for a ReadOnly file (%d test edges decided)" % (e[3], len(cut)))
    # the refusal itself: Err(ReadOnly) is what a ReadOnly file gets, and every other mode can get past the test
    errs = [x for x in err_returns(fn) if x[2] == "ReadOnly"]
    R.require(len(errs) >= 1 and any(x[0] in rs for x in errs) and not any(x[0] in rs for x in ok_returns(fn)), fn, "refusal", "write() on a ReadOnly file must end in `Err(Error::ReadOnly)`", fn.loc(0), okdetail="Err(ReadOnly) return present")
    for m in modes:
        if m == "ReadOnly":
            continue
        rs2 = fn.reach([0], cut_edges=specialise_enum(fn, is_mode, modes, m))
        R.require(any(x[0] in rs2 for x in ok_returns(fn)) and not any(x[0] in rs2 for x in errs), fn, "writable:" + m, "write() refuses a file opened in mode %s" % m, fn.loc(0))


def _lookup_var(fn):
    """The Option<DirEntry> variable holding the lookup outcome in open_file_in_dir: a local with
    a def Some{payload from find_directory_entry}."""
    for l, ds in fn.defs().items():
        for d in ds:
            if d[0] == "assign":
                v = fn.term_of_rvalue(d[3], d[1])
                if v[0] == "agg" and v[2] and v[2].endswith("Option::Some") and has_sub(v, lambda s: s[0] == "call" and s[1] and path_matches(s[1], "FatVolume::find_directory_entry")):
                    return l
    return None


@rule("MD3", ["C07", "C03"], floor=8,
      doc="open_file_in_dir: success pushes and truncate effects require (existing) !(read_only && mode!=ReadOnly), !is_directory, !file_is_open on the looked-up entry; (create) lookup outcome is None")
def md3(F, R):
    fn = F.fn(VM + "::open_file_in_dir")
    lv = _lookup_var(fn)
    if lv is None:
        R.bad(fn, "lookup-var", "cannot identify the lookup outcome variable (Some(find_directory_entry ok))", kind="anchor-missing")
        return
    lname = fn.local_name(lv)

    def refers_lookup(t):
        return has_sub(t, lambda s: s[0] == "var" and s[1] == lv)

    g_none = lambda g: (g_call("Option::is_some", False, lambda a: refers_lookup(a[0]))(g) or g_call("Option::is_none", True, lambda a: refers_lookup(a[0]))(g)
                        or (g.kind == "variant" and g.variant == "None" and refers_lookup(g.term)))
    g_not_dir = g_call("Attributes::is_directory", False, lambda a: refers_lookup(a[0]))
    g_not_open = g_call("file_is_open", False, lambda a: refers_lookup(a[2]))
    g_rw_ok = lambda g: (g_call("Attributes::is_read_only", False, lambda a: refers_lookup(a[0]))(g)
                         or g_cmp("Eq", True, None, lambda b: is_variant(b, "Mode::ReadOnly"))(g))
    g_create = lambda g: g.kind == "variant" and g.variant == "ReadWriteCreate" and g.term[0] == "call" and path_matches(g.term[1], "solve_mode_variant")

    pushes = [(b, t) for b, t in fn.calls() if call_matches(t, ("Vec::push_unchecked", "Vec::push")) and table_of_term(fn.term_of_operand(t["args"][0], b)) == "open_files"]
    if len(pushes) < 2:
        R.bad(fn, "pushes", "expected >= 2 open_files pushes, found %d" % len(pushes), kind="anchor-missing")
    sites = [(b, "push@" + ("create" if guarded(fn, b, g_create)[0] else "existing")) for b, t in pushes]
    for b, t in fn.calls():
        n = call_matches(t, ("FatVolume::truncate_cluster_chain", "FatVolume::write_entry_to_disk", "FatVolume::write_new_directory_entry"))
        if n:
            sites.append((b, n.split("::")[-1]))
    for b, what in sites:
        create = what in ("push@create", "write_new_directory_entry")
        if create:
            ok, _ = guarded(fn, b, g_none)
            R.require(ok, fn, what + ":absent", "%s reachable although the lookup found an entry (`%s.is_some()`)" % (what, lname), fn.loc(b))
        else:
            for nm, pr in (("not-readonly-or-ro-mode", g_rw_ok), ("not-directory", g_not_dir), ("not-already-open", g_not_open)):
                ok, _ = guarded(fn, b, pr)
                R.require(ok, fn, what + ":" + nm, "%s reachable without the `%s` check on the looked-up entry" % (what, nm), fn.loc(b))


@rule("MD4", ["C07"], floor=2,
      doc="delete_file_in_dir: the slot is freed only under !is_directory and !file_is_open of the entry just looked up")
def md4(F, R):
    fn = F.fn(VM + "::delete_file_in_dir")
    found = lambda t: has_sub(t, lambda s: s[0] == "call" and s[1] and path_matches(s[1], "FatVolume::find_directory_entry"))
    sites = [(b, t) for b, t in fn.calls() if call_matches(t, ("FatVolume::delete_directory_entry",))]
    if not sites:
        R.bad(fn, "anchor", "no delete_directory_entry call", kind="anchor-missing")
    for b, t in sites:
        ok1, _ = guarded(fn, b, g_call("Attributes::is_directory", False, lambda a: found(a[0])))
        R.require(ok1, fn, "not-directory", "delete reachable without `!is_directory()` on the looked-up entry", fn.loc(b))
        ok2, _ = guarded(fn, b, g_call("file_is_open", False, lambda a: found(a[2])))
        R.require(ok2, fn, "not-open", "delete reachable without `!file_is_open(volume, entry)`", fn.loc(b))
        ok3, _ = guarded(fn, b, g_try_ok("FatVolume::find_directory_entry"))
        R.require(ok3, fn, "found", "delete reachable without a successful lookup", fn.loc(b))


@rule("MD5", ["C07", "C06"], floor=4,
      doc="open_dir: a directory handle is pushed either on the '.' shortcut (name == this_dir()) or under is_directory() of the entry just looked up")
def md5(F, R):
    fn = F.fn(VM + "::open_dir")
    found = lambda t: has_sub(t, lambda s: s[0] == "call" and s[1] and path_matches(s[1], "FatVolume::find_directory_entry"))
    pushes = [(b, t) for b, t in fn.calls() if call_matches(t, ("Vec::push", "Vec::push_unchecked")) and table_of_term(fn.term_of_operand(t["args"][0], b)) == "open_dirs"]
    if len(pushes) < 1:
        R.bad(fn, "pushes", "expected an open_dirs push in open_dir, found none", kind="anchor-missing")
    g_short = g_cmp("Eq", True, None, lambda b: has_sub(b, lambda s: s[0] == "call" and s[1] and path_matches(s[1], "ShortFileName::this_dir")))
    g_isdir = g_call("Attributes::is_directory", True, lambda a: found(a[0]))
    flds = [f["name"] for f in F.adts["filesystem::directory::DirectoryInfo"]["variants"][0]["fields"]]
    kinds = set()
    for b, t in pushes:
        info = strip_refs(fn.term_of_operand(t["args"][1], b))
        if not (info[0] == "agg" and info[2] and info[2].endswith("DirectoryInfo")):
            R.bad(fn, "pushed-info", "open_dir pushes something that is not a DirectoryInfo literal: %s" % tstr(info)[:80], fn.loc(b))
            continue
        cl = strip_refs(info[3][flds.index("cluster")])
        # where the opened cluster comes from: the push itself, or the arms that define a local
        sites = [(b, cl)]
        if cl[0] == "var":
            sites = [(d[1], strip_refs(fn.term_of_rvalue(d[3], d[1]) if d[0] == "assign" else fn.call_term(d[2], d[1]))) for d in fn.defs().get(cl[1], []) if d[0] in ("assign", "call")]
        for (sb, sv) in sites:
            if last_field(sv) == "cluster" and table_of_term(sv) == "open_dirs" and not found(sv):
                kinds.add("shortcut")
                # the parent handle's own cluster: only for the name "."
                R.require(guarded(fn, sb, g_short)[0], fn, "shortcut-cluster", "the parent handle's own cluster is opened for a name other than '.'", fn.loc(sb))
            elif last_field(sv) == "cluster" and found(sv):
                kinds.add("entry")
                R.require(guarded(fn, sb, g_isdir)[0], fn, "is-directory", "directory handle pushed without `is_directory()` on the looked-up entry", fn.loc(sb))
                R.ok(fn, "entry-cluster", "opened cluster is the looked-up entry's cluster", fn.loc(sb))
            else:
                R.bad(fn, "entry-cluster", "opened directory's cluster must be the looked-up entry's cluster (or the parent's own for '.'), got %s" % tstr(sv), fn.loc(sb))
    R.require(kinds == {"shortcut", "entry"}, fn, "both-ways", "open_dir must open '.' as the parent's own cluster and any other name through the looked-up entry (found: %s)" % sorted(kinds), fn.loc(0))


    # "opening a sub-directory succeeds exactly for names that the listing contains": once the entry is found and is a
    # directory, nothing but a full handle table stands between it and the handle
    for (gb, gi, g) in all_guards(fn):
        if g_call("Attributes::is_directory", True, lambda a: found(a[0]))(g):
            tgt = fn.succ(gb)[gi][0]
            rs = fn.reach([tgt])
            late = [(b, var) for (b, i, var, term) in err_returns(fn) if b in rs and var != "TooManyOpenDirs"]
            late += [(b, "?%s" % (callee_of(t) or "")) for b, t in fn.calls() if b in rs and (callee_of(t) or "").endswith("FromResidual::from_residual")
                     and not any(x in tstr(fn.call_term(t, b)) for x in ("push(", "TooManyOpenDirs"))]
            R.require(not late, fn, "directory-entry-opens", "open_dir can still refuse (%s) after the name was found and is a directory: '.', '..' (cluster 0 = root) and every listed sub-directory must open" % sorted({v for _, v in late}), fn.loc(late[0][0]) if late else fn.loc(gb))


REFUSALS = {"ReadOnly", "OpenedDirAsFile", "OpenedFileAsDir", "DeleteDirAsFile", "FileAlreadyOpen", "FileAlreadyExists", "DirAlreadyExists",
            "NotFound", "BadHandle", "TooManyOpenDirs", "TooManyOpenFiles", "TooManyOpenVolumes", "FilenameError", "LockError", "InvalidOffset",
            "VolumeStillInUse", "VolumeAlreadyOpen", "NoSuchVolume", "Unsupported"}


REFUSAL_SOURCES = ("get_volume_by_id", "get_dir_by_id", "get_file_by_id", "RefCell::try_borrow", "RefCell::try_borrow_mut",
                   "ToShortFileName::to_short_filename", "FileInfo::seek_from_start", "FileInfo::seek_from_end", "FileInfo::seek_from_current",
                   "FatVolume::find_directory_entry")


def refusal_returns(fn):
    """(block, idx, label, source call term|None) of returns that refuse the call: direct Err(<refusal variant>) and
    `?` exits fed by a validation source."""
    out = []
    for (b, i, var, term) in err_returns(fn):
        if var in REFUSALS:
            out.append((b, i, "Err(%s)" % var, None))
    for b, t in fn.calls():
        c = callee_of(t) or ""
        if c.endswith("FromResidual::from_residual") and t["dest"]["l"] == 0:
            src = None
            for (gb, gi, g) in all_guards(fn):
                if g.kind == "variant" and g.variant == "Break" and fn.land(fn.succ(gb)[gi][0]) == b:
                    x = try_inner(g.term)
                    if x is not None and x[0] == "call":
                        src = x
            if src and any(path_matches(src[1], n) for n in REFUSAL_SOURCES):
                out.append((b, None, "?%s" % src[1].split("::")[-1], src))
                continue
            # `x.map_err(|_| Error::<refusal>)?` / `x.ok_or(Error::<refusal>)?`: the error built at this exit is a refusal
            v = None
            for (gb, gi, g) in all_guards(fn):
                if g.kind == "variant" and g.variant == "Break" and fn.land(fn.succ(gb)[gi][0]) == b and g.term[0] == "call" and g.term[1] and g.term[1].endswith("Try::branch"):
                    v = _converted_variant(fn, g.term[2][0])
            if v in REFUSALS:
                out.append((b, None, "?->%s" % v, src))
    return out


def _converted_variant(fn, x):
    """Error variant a `map_err(closure)` / `ok_or(const)` wrapper produces, or None."""
    if x[0] != "call" or not x[1]:
        return None
    if x[1].endswith("::map_err") and len(x[2]) == 2:
        f = x[2][1]
        if f[0] == "agg" and f[1] == "Closure":
            try:
                c = fn.facts.closure(f[2])
            except KeyError:
                return None
            vs = {var for (b, i, var, term) in err_returns_plain(c)}
            return vs.pop() if len(vs) == 1 else None
        if f[0] == "fn" and f[1]:
            return f[1].split("::")[-1]
    if (x[1].endswith("::ok_or") or x[1].endswith("::ok_or_else")) and len(x[2]) == 2:
        e = x[2][1]
        if e[0] == "agg" and e[2] and "Error::" in e[2]:
            return e[2].split("::")[-1]
    return None


def err_returns_plain(c):
    """(block, idx, variant, term) for `_0 = Error::V ..` assignments of a closure body (it returns the error itself)."""
    out = []
    for b, i, s in c.stmts():
        if s["k"] == "Assign" and s["p"]["l"] == 0 and not s["p"]["proj"]:
            t = c.term_of_rvalue(s["rv"], b)
            if t[0] == "agg" and t[2] and "Error::" in t[2]:
                out.append((b, i, t[2].split("::")[-1], t))
    return out


@rule("MD7", ["C07", "C08"], floor=70,
      doc="a refused call changes nothing: in every public VolumeManager function no path from entry to a refusal return (Err(<refusal variant>) or the `?` exit of a handle/lock/name/seek validation or of the lookup) passes a medium mutation, a table push/remove or a store into an open-file record")
def md7(F, R):
    for fn in public_vm_fns(F):
        if not is_result_of_error(fn):
            continue
        effs = all_effects(fn)
        has_table_mut = any(e[2] == "table" for e in effs)
        for (b, i, key, src) in refusal_returns(fn):
            if src is not None and not has_table_mut:
                # a repeated validation with identical arguments, dominated by its successful twin, cannot fail
                same = lambda g, src=src: g.kind == "variant" and g.variant == "Continue" and (lambda x: x is not None and x[0] == "call" and x[1] == src[1] and x[3] != src[3] and [tstr(a) for a in x[2]] == [tstr(a) for a in src[2]])(try_inner(g.term))
                if guarded(fn, b, same)[0]:
                    R.ok(fn, key + ":revalidation", "repeated validation %s with identical arguments after a successful one; tables are not mutated in this function, so this exit is infeasible" % key, fn.loc(b, i))
                    continue
            # the refusing call itself is atomic (it is the source of this refusal) - also when its failure is translated by an
            # explicit `Err(_) => Err(Other)` arm instead of map_err: a refusal built on the failure edges of an effect call
            # reports that call's own refusal
            from .ev import failure_edges
            def own_failure(e):
                fe = failure_edges(fn, e[0])
                return bool(fe) and b not in fn.reach([fn.succ(e[0])[0][0]] if fn.succ(e[0]) else [], cut_edges=fe)
            bad = [e for e in effs if b in fn.reach_after(e[0]) and not (src is not None and e[0] == src[3]) and not own_failure(e)]
            if bad:
                for e in bad:
                    R.bad(fn, key + "<-" + eff_key(e), "refusal %s reachable after effect %s %s" % (key, e[2], e[3]), fn.loc(b, i),
                          trace=["effect at %s" % fn.loc(e[0], e[1]), "refusal at %s" % fn.loc(b, i)])
            else:
                R.ok(fn, key, "no effect precedes %s (%d effects in function)" % (key, len(effs)), fn.loc(b, i))


def closure_equalities(F, clo):
    """For a predicate closure `|x| a == b && c == d ..` (as handed to any / position / find): (ok, [(item field path,
    captured caller term)], extras).  Each conjunct compares a field of the scanned item (closure parameter) with a
    captured value; the captured side is returned as the caller's term.  ok is False when the closure has another shape."""
    from .ev import norm_bool
    clo = strip_refs(clo)
    if not (clo[0] == "agg" and clo[1] == "Closure"):
        return (False, [], ["not a closure literal"])
    try:
        c = F.closure(clo[2])
    except KeyError:
        return (False, [], ["closure body not found"])
    caps = list(clo[3])
    may_true = []
    for d in c.defs().get(0, []):
        v = c.term_of_rvalue(d[3], d[1]) if d[0] == "assign" else c.call_term(d[2], d[1])
        if v[:2] == ("c", 0):
            continue
        may_true.append((d[1], v))
    if len(may_true) != 1:
        return (False, [], ["%d ways to answer true" % len(may_true)])
    tb, tv = may_true[0]
    tt, truth = norm_bool(tv, True)
    if tt[0] != "cmp" or tt[1] != "Eq" or not truth:
        return (False, [], ["last conjunct is not an equality: %s" % tstr(tv)[:60]])
    conj = [tt]
    extras = []
    for (gb, gi, g) in all_guards(c):
        if not c.unreachable_without(tb, [(gb, gi)]):
            continue
        if g.kind == "bool" and g.term[0] == "cmp" and g.term[1] == "Eq" and g.truth is True:
            conj.append(g.term)
        else:
            extras.append(repr(g)[:60])
    out = []
    for t in conj:
        sides = [strip_refs(t[2]), strip_refs(t[3])]
        item = [x for x in sides if x[0] == "place" and strip_refs(x[1])[:2] == ("arg", 2)]
        cap = [x for x in sides if (x[0] == "place" and strip_refs(x[1])[:2] == ("arg", 1))]
        if len(item) != 1 or len(cap) != 1:
            extras.append(tstr(t)[:60])
            continue
        fi = tuple(e for e in item[0][2] if isinstance(e, str) and e not in ("*", "0") and not e.startswith("as:"))
        # resolve the captured place (*(*env).k)... to the caller's operand
        cp = [e for e in cap[0][2] if isinstance(e, str) and e != "*"]
        k = int(cp[0]) if cp and cp[0].isdigit() else None
        cterm = strip_refs(caps[k]) if k is not None and k < len(caps) else None
        rest = tuple(e for e in cp[1:] if not e.isdigit() or True)
        out.append((fi, cterm, tuple(rest)))
    return (not extras, out, extras)


def file_is_open_any_form(F, fn):
    """file_is_open written as `self.open_files.iter().any(|f| <conjunction>)`: returns None when it is not of this form,
    else (ok, detail, fields) where fields is the set of record fields the conjunction compares with the arguments
    (each conjunct an equality between a field of the scanned record and the matching argument) - nothing else may take
    part in the answer."""
    from .ev import norm_bool
    ds = fn.defs().get(0, [])
    if len(ds) != 1 or ds[0][0] != "call":
        return None
    ct = fn.call_term(ds[0][2], ds[0][1])
    if not (ct[1] or "").endswith("Iterator::any"):
        return None
    if _iter_table(fn, ct) != "open_files":
        return (False, "the scan does not run over open_files", set())
    clo = strip_refs(ct[2][1])
    if not (clo[0] == "agg" and clo[1] == "Closure"):
        return (False, "the predicate is not a closure literal", set())
    try:
        c = F.closure(clo[2])
    except KeyError:
        return (False, "closure body not found", set())
    conj = []
    may_true = []
    for d in c.defs().get(0, []):
        v = c.term_of_rvalue(d[3], d[1]) if d[0] == "assign" else c.call_term(d[2], d[1])
        if v[:2] == ("c", 0):
            continue
        may_true.append((d[1], v))
    if len(may_true) != 1:
        return (False, "the predicate has %d ways to answer true" % len(may_true), set())
    tb, tv = may_true[0]
    tt, truth = norm_bool(tv, True)
    if tt[0] != "cmp" or tt[1] != "Eq" or not truth:
        return (False, "the predicate's last conjunct is not an equality: %s" % tstr(tv)[:60], set())
    conj.append(tt)
    extra = []
    for (gb, gi, g) in all_guards(c):
        if not c.unreachable_without(tb, [(gb, gi)]):
            continue
        if g.kind == "bool" and g.term[0] == "cmp" and g.term[1] == "Eq" and g.truth is True:
            conj.append(g.term)
        else:
            extra.append(repr(g)[:60])
    fields = set()
    for t in conj:
        sides = [strip_refs(t[2]), strip_refs(t[3])]
        item = [x for x in sides if x[0] == "place" and strip_refs(x[1])[:2] == ("arg", 2)]
        cap = [x for x in sides if x[0] == "place" and strip_refs(x[1])[:2] == ("arg", 1)]
        if len(item) != 1 or len(cap) != 1:
            extra.append(tstr(t)[:60])
            continue
        fi = tuple(e for e in item[0][2] if isinstance(e, str) and e not in ("*", "0") and not e.startswith("as:"))
        fc = tuple(e for e in cap[0][2] if isinstance(e, str) and e != "*" and not e.isdigit() and not e.startswith("as:"))
        if fi == ("raw_volume",) and fc in ((), ("raw_volume",)):
            fields.add("raw_volume")
        elif fi[-1:] == fc[-1:] and fi[-1:] in (("entry_block",), ("entry_offset",)):
            fields.add(fi[-1])
        else:
            extra.append(tstr(t)[:60])
    if extra:
        return (False, "the predicate also depends on %s" % "; ".join(extra), fields)
    return (True, "any(|f| %s)" % " && ".join(sorted(fields)), fields)


@rule("MD9", ["C07", "C09"], floor=3,
      doc="file_is_open identifies an open file by (volume, entry block, entry offset): returns true only under all three equalities")
def md9(F, R):
    fn = F.fn(VMD + "::file_is_open")
    af = file_is_open_any_form(F, fn)
    if af is not None:
        for fld in ("raw_volume", "entry_block", "entry_offset"):
            R.require(fld in af[2], fn, "eq:" + fld, "`true` reachable without comparing %s (%s)" % (fld, af[1]), fn.loc(0))
        return
    trues = [(b, i) for b, i, s in fn.stmts() if s["k"] == "Assign" and s["p"]["l"] == 0 and not s["p"]["proj"] and fn.term_of_rvalue(s["rv"], b) == ("c", 1, None)]
    if not trues:
        R.bad(fn, "anchor", "no `return true`", kind="anchor-missing")
    for b, i in trues:
        for fld, other in (("raw_volume", None), ("entry_block", "entry_block"), ("entry_offset", "entry_offset")):
            def pr(g, fld=fld, other=other):
                if g.kind != "bool" or g.term[0] != "cmp" or g.term[1] != "Eq" or g.truth is not True:
                    return False
                a, bb = g.term[2], g.term[3]
                fa, fb = last_field(a), last_field(bb)
                # compare through newtype projections (BlockIdx.0)
                names = {fa, fb}
                def lf(t):
                    if t[0] == "place":
                        return [e for e in t[2] if isinstance(e, str)]
                    return []
                na, nb = lf(a), lf(bb)
                if fld == "raw_volume":
                    return "raw_volume" in na or "raw_volume" in nb
                return fld in na and fld in nb
            ok, _ = guarded(fn, b, pr)
            R.require(ok, fn, "eq:" + fld, "`true` reachable without comparing %s" % fld, fn.loc(b, i))


# ---------------------------------------------------------------------------------------
# listing / lookup


def _same_local_arg(fn, t_call, b, argidx, local):
    a = t_call["args"][argidx]
    if a.get("k") not in ("copy", "move"):
        return False
    p = fn.canon_place(a["p"])
    term = fn.term_of_operand(a, b)
    return has_sub(term, lambda s: s[0] == "var" and s[1] == local) or p["l"] == local


@rule("LS1", ["C06"], floor=6,
      doc="iterate_fat16/32: the callback is invoked only for a slot with !is_end() && is_valid(); the is_end() edge returns Ok without another callback")
def ls1(F, R):
    for name in ("iterate_fat16", "iterate_fat32"):
        fn = F.fn("FatVolume::" + name)
        cbs = [(b, t) for b, t in fn.calls() if callee_of(t) and callee_of(t).endswith("FnMut::call_mut")]
        if not cbs:
            R.bad(fn, "anchor", "no callback invocation found", kind="anchor-missing")
        for b, t in cbs:
            args = fn.term_of_operand(t["args"][1], b)
            # second tuple component is &OnDiskDirEntry
            odde = None
            for s in subterms(args):
                if s[0] == "call" and s[1] and path_matches(s[1], "OnDiskDirEntry::new"):
                    odde = s
            if odde is None:
                R.bad(fn, "cb-arg", "callback is not given the OnDiskDirEntry of the scanned slot", fn.loc(b))
                continue
            same = lambda a: has_sub(a[0], lambda s: s == odde)
            ok1, _ = guarded(fn, b, g_call("OnDiskDirEntry::is_end", False, same))
            ok2, _ = guarded(fn, b, g_call("OnDiskDirEntry::is_valid", True, same))
            R.require(ok1, fn, "not-end", "callback reachable without `!is_end()` on the same slot", fn.loc(b))
            R.require(ok2, fn, "valid", "callback reachable without `is_valid()` on the same slot", fn.loc(b))
            # the DirEntry passed is get_entry of the same slot
            ok3 = has_sub(args, lambda s: s[0] == "call" and s[1] and path_matches(s[1], "OnDiskDirEntry::get_entry") and has_sub(s[2][0], lambda q: q == odde))
            R.require(ok3, fn, "entry-of-slot", "callback's DirEntry is not get_entry() of the scanned slot", fn.loc(b))
        # end marker: from the is_end()==true edge no callback is reachable
        for (b, i, g) in all_guards(fn):
            if g_call("OnDiskDirEntry::is_end", True)(g):
                tgt = fn.succ(b)[i][0]
                reach = fn.reach([tgt])
                hit = [cb for cb, _ in cbs if cb in reach]
                R.require(not hit, fn, "end-stops", "a callback is reachable after the end-of-directory marker", fn.loc(b))


@rule("LS2", ["C06"], floor=5,
      doc="VolumeManager::iterate_dir: the user's callback runs only under !attributes.is_lfn()")
def ls2(F, R):
    def closure_of_arg(f, t, b, k):
        a = strip_refs(f.term_of_operand(t["args"][k], b))
        if a[0] == "agg" and a[1] == "Closure":
            try:
                return F.closure(a[2])
            except KeyError:
                return None
        return None

    def filters(c):
        """every invocation of the wrapped callback inside closure c lies behind !is_lfn()"""
        calls = [b for b, t in c.calls() if (callee_of(t) or "").endswith(("FnMut::call_mut", "Fn::call", "FnOnce::call_once"))]
        return bool(calls) and all(guarded(c, b, lambda g: g_call("Attributes::is_lfn", False)(g) or g_call("OnDiskDirEntry::is_lfn", False)(g))[0] for b in calls)
    vm = F.fn(VM + "::iterate_dir")
    top = [(b, t) for b, t in vm.calls() if call_matches(t, ("FatVolume::iterate_dir",))]
    R.require(len(top) == 1, vm, "route", "VolumeManager::iterate_dir must list through FatVolume::iterate_dir", vm.loc(0))
    if len(top) != 1:
        return
    c0 = closure_of_arg(vm, top[0][1], top[0][0], len(top[0][1]["args"]) - 1)
    top_filter = c0 is not None and filters(c0)
    fv = F.fn("FatVolume::iterate_dir")
    n = 0
    for arm, walker in (("FAT16", "FatVolume::iterate_fat16"), ("FAT32", "FatVolume::iterate_fat32")):
        sites = [(b, t) for b, t in fv.calls() if call_matches(t, (walker,))]
        R.require(len(sites) == 1, fv, "route:" + arm, "FatVolume::iterate_dir must walk %s directories with %s" % (arm, walker.split("::")[-1]), fv.loc(0))
        for b, t in sites:
            n += 1
            c1 = closure_of_arg(fv, t, b, len(t["args"]) - 1)
            R.require(top_filter or (c1 is not None and filters(c1)), fv, "not-lfn:" + arm, "on %s the plain listing hands long-name fragments to the user's callback: no layer between the slot walk and the callback tests !is_lfn()" % arm, fv.loc(b))
    if n == 0:
        R.bad(vm, "anchor", "no directory walk found behind iterate_dir", kind="anchor-missing")


@rule("LS3", ["C06"], floor=4,
      doc="find_entry_in_block / delete_entry_in_block act only on a slot with !is_end() && matches(name); matches() compares bytes 0..11 with the 11-byte short name")
def ls3(F, R):
    fn = F.fn("FatVolume::find_entry_in_block")
    for (b, i, v) in ok_returns(fn):
        if has_sub(v, lambda q: q[0] == "agg" and q[2] and q[2].endswith("Option::None")):
            continue    # "not in this block, keep going" (checked by LS7)
        ok1, _ = guarded(fn, b, g_call("OnDiskDirEntry::matches", True))
        ok2, _ = guarded(fn, b, g_call("OnDiskDirEntry::is_end", False))
        R.require(ok1, fn, "hit-matches", "Ok(entry) reachable without matches()", fn.loc(b, i))
        R.require(ok2, fn, "hit-not-end", "Ok(entry) reachable past the end marker", fn.loc(b, i))
    fn = F.fn("FatVolume::delete_entry_in_block")
    stores = [(b, i, s) for b, i, s in fn.stmts() if s["k"] == "Assign" and s["p"]["proj"] and fn.term_of_rvalue(s["rv"], b)[:2] == ("c", 0xE5)]
    if not stores:
        R.bad(fn, "tombstone", "delete_entry_in_block does not store the 0xE5 tombstone into the matched slot's first byte (a different marker changes where the listing ends)")
    from .ev import guarded_through
    for b, i, s in stores:
        ok1 = guarded_through(fn, b, g_call("OnDiskDirEntry::matches", True))
        ok2 = guarded_through(fn, b, g_call("OnDiskDirEntry::is_end", False))
        R.require(ok1, fn, "del-matches", "0xE5 store reachable without matches()", fn.loc(b, i))
        R.require(ok2, fn, "del-not-end", "0xE5 store reachable past the end marker", fn.loc(b, i))
    # lookup and delete select a slot by the same test, and by nothing else (a delete marks the very entry the lookup returned)
    def hit_tests(f, hit_block, depth=0):
        out = set()
        for (gb, gi, g) in all_guards(f):
            if not f.unreachable_without(hit_block, [(gb, gi)]):
                continue
            if g.kind == "bool" and g.term[0] == "call" and g.term[1]:
                out.add((g.term[1].split("::")[-1], g.truth))
            elif g.kind == "variant" and g.variant == "Some" and strip_refs(g.term)[0] == "var" and depth < 2:
                # the slot was selected earlier and carried here in an Option local: the tests in front of its Some definitions
                for d in f.defs().get(strip_refs(g.term)[1], []):
                    if d[0] == "assign":
                        dv = strip_refs(f.term_of_rvalue(d[3], d[1]))
                        if dv[0] == "agg" and dv[2] and dv[2].endswith("Option::Some"):
                            out |= hit_tests(f, d[1], depth + 1)
        return out
    fe = F.fn("FatVolume::find_entry_in_block")
    de = F.fn("FatVolume::delete_entry_in_block")
    hits_f = [b for (b, i, v) in ok_returns(fe) if not has_sub(v, lambda q: q[0] == "agg" and q[2] and q[2].endswith("Option::None"))]
    hits_d = [b for b, i, s_ in stores]
    if hits_f and hits_d:
        tf, td = hit_tests(fe, hits_f[0]), hit_tests(de, hits_d[0])
        want = {("is_end", False), ("matches", True)}
        R.require(tf == want and td == want, fe, "same-slot-test", "lookup selects a slot under %s, delete under %s; both must be exactly !is_end() && matches(name) - otherwise a delete frees the chain of one entry and marks another" % (sorted(tf), sorted(td)), fe.loc(hits_f[0]))
    # matches(): data[0..11] == sfn.contents
    fn = F.fn("OnDiskDirEntry::matches")
    t = None
    for b, tt in fn.calls():
        c = callee_of(tt)
        if c and (c.endswith("PartialEq::eq") or c.endswith("::eq")):
            t = fn.call_term(tt, b)
    ok = False
    if t is not None and len(t[2]) == 2:
        def is_name_bytes(x):
            """self.data[0..11] / self.data[..11]"""
            x = strip_refs(x)
            if not (x[0] == "call" and x[1] and x[1].endswith(("Index::index", "::index")) and len(x[2]) == 2):
                return False
            base, r = strip_refs(x[2][0]), strip_refs(x[2][1])
            whole = has_sub(base, lambda q: q[0] == "place" and [e for e in q[2] if isinstance(e, str) and e != "*"][-1:] == ["data"] and strip_refs(q[1])[:2] == ("arg", 1))
            rng = (r[0] == "agg" and r[2] and r[2].endswith(("ops::Range", "ops::Range::Range")) and r[3][0][:2] == ("c", 0) and r[3][1][:2] == ("c", 11)) or \
                  (r[0] == "agg" and r[2] and r[2].endswith(("ops::RangeTo", "RangeTo::RangeTo")) and r[3][0][:2] == ("c", 11))
            return whole and rng
        is_contents = lambda x: (lambda y: y[0] == "place" and last_field(y) == "contents" and strip_refs(y[1])[:2] == ("arg", 2))(strip_refs(x))
        a_, b_ = t[2]
        ok = (is_name_bytes(a_) and is_contents(b_)) or (is_name_bytes(b_) and is_contents(a_))
    R.require(ok, fn, "matches-range", "matches() must compare data[0..11] with sfn.contents; got %s" % (tstr(t) if t else None), fn.loc(0))
    # ... and nothing else: the answer is that comparison (no attribute or other side condition decides whether a name matches)
    rets = [fn.term_of_rvalue(d[3], d[1]) if d[0] == "assign" else fn.call_term(d[2], d[1]) for d in fn.defs().get(0, [])]
    sw = [b for b in fn.live_blocks() if fn.term(b)["k"] == "SwitchInt"]
    R.require(len(rets) == 1 and rets[0][0] == "call" and rets[0][1] and (rets[0][1].endswith("PartialEq::eq") or rets[0][1].endswith("::eq")) and not sw, fn, "matches-only-name", "matches() must be exactly the 11-byte comparison; it also depends on %s" % ("a branch at %s" % fn.loc(sw[0]) if sw else [tstr(r)[:80] for r in rets]), fn.loc(0))


# ---------------------------------------------------------------------------------------
# seeks


@rule("HV4", ["C08"], floor=10,
      doc="a stale handle is answered with BadHandle: in every VolumeManager function the Result of get_volume_by_id / get_dir_by_id / get_file_by_id is consumed by `?` (or returned as it is) - it is never flattened with .ok() / .is_ok() / unwrap_or or matched into another error, which would report a closed handle as some other failure (InvalidOffset, NotFound ..) or as success")
def hv4(F, R):
    n = 0
    for fn in F.fns:
        if not fn.npath.startswith((VM + "::", VMD + "::")) or fn.kind == "Closure":
            continue
        for b, t in fn.calls():
            if not call_matches(t, (VMD + "::get_volume_by_id", VMD + "::get_dir_by_id", VMD + "::get_file_by_id")):
                continue
            n += 1
            dl = t["dest"]["l"]
            # uses of the result local: the operand of Try::branch, a plain return, or a match on it whose Err arm rebuilds
            # Err(the same payload)
            uses = []
            for b2, t2 in fn.calls():
                for a in t2["args"]:
                    if a.get("k") in ("move", "copy") and a["p"]["l"] == dl:
                        uses.append((b2, callee_of(t2) or ""))
            flat = [u for u in uses if u[1].split("::")[-1] in ("ok", "is_ok", "is_err", "unwrap_or", "unwrap_or_default", "unwrap_or_else", "map_or", "map_or_else", "err", "is_ok_and", "is_err_and", "and", "or", "or_else")]
            R.require(not flat, fn, "lookup-not-flattened:%s" % fn.npath.split("::")[-1], "the result of a handle lookup is flattened by %s: a closed / foreign handle is no longer reported as BadHandle" % sorted({u[1].split("::")[-1] for u in flat}), fn.loc(b))
    R.require(n >= 10, None, "sites", "expected >= 10 handle lookups in VolumeManager, found %d" % n)


def _seek_eval(F, name, size, cur, arg):
    """run FileInfo::<name> on a file of `size` bytes positioned at `cur` with argument `arg` -> ('ok'|'err'|'?', offset afterwards)"""
    from .absint import Interp, State
    from .absval import const, agg as _agg, is_agg, is_int, int_const, TOP
    from .rules_codec import sym_value
    I = Interp(F, mode="bv", max_paths=64)
    st = State()
    fi = sym_value(I, st, "filesystem::files::FileInfo", "f", F)
    A = F.adts["filesystem::files::FileInfo"]
    names = [f["name"] for f in A["variants"][0]["fields"]]
    vals = list(fi[4])
    vals[names.index("current_offset")] = const(cur, 32)
    e = vals[names.index("entry")]
    E = F.adts[e[2]]
    en = [f["name"] for f in E["variants"][0]["fields"]]
    ev = list(e[4])
    ev[en.index("size")] = const(size, 32)
    vals[names.index("entry")] = _agg("struct", e[2], 0, ev)
    cell = I.heap_alloc(st, _agg("struct", fi[2], 0, vals))
    fn = F.fn("FileInfo::" + name)
    signed = name == "seek_from_current"
    outs = I.run(fn, [cell, const(arg, 32, signed)], st, 0)
    if len(outs) != 1:
        return "?", None
    rv, s2 = outs[0]
    after = I.read_loc(s2, (cell[1], cell[2], cell[3], None))[4][names.index("current_offset")]
    kind = "?"
    if is_agg(rv) and rv[3] is not None:
        kind = "ok" if rv[3] == 0 else "err"
    return kind, (int_const(after) if is_int(after) else None)


@rule("SK1", ["C01"], floor=4,
      doc="FileInfo::seek_from_*: current_offset is stored only on the in-range edge (offset <= size; 0 <= new <= size); update_length in write only under new_offset > size")
def sk1(F, R):
    # decided by value first: each seek primitive on boundary positions of small and of > 2 GiB files is the specified
    # function (target in 0..=size -> Ok and the cursor is the target; else Err and the cursor stays) - however it is written
    from .absint import Undecided as _Und
    M31, M32 = (1 << 31), (1 << 32) - 1
    for name in ("seek_from_start", "seek_from_end", "seek_from_current"):
        fn_ = F.fn("FileInfo::" + name)
        bad = None
        try:
            for size in (0, 1, 1000, M31 - 1, M31, M31 + 5, M32):
                for cur in sorted({0, size // 2, size}):
                    if name == "seek_from_current":
                        args = sorted({0, 1, -1, M31 - 1, -M31, max(-M31, min(M31 - 1, size - cur)), max(-M31, -cur), max(-M31, min(M31 - 1, size - cur + 1)), max(-M31, -cur - 1)})
                    else:
                        args = sorted({0, 1, size, min(M32, size + 1), M31, M32, size // 2})
                    for a in args:
                        if name == "seek_from_start":
                            tgt = a
                        elif name == "seek_from_end":
                            tgt = size - a
                        else:
                            tgt = cur + a
                        want = ("ok", tgt) if 0 <= tgt <= size else ("err", cur)
                        got = _seek_eval(F, name, size, cur, a)
                        if got != want and bad is None:
                            bad = "%s(%d) on a %d-byte file at offset %d gives %s, expected %s" % (name, a, size, cur, got, want)
        except _Und as e:
            bad = "cannot evaluate: %s" % e
        R.require(bad is None, fn_, "table:" + name, "seek primitive differs from its specification: %s" % bad, fn_.loc(0))

    def stores(fn):
        return [(b, i) for b, i, s in fn.stmts() if s["k"] == "Assign" and [e[2] for e in fn.canon_place(s["p"])["proj"] if e[0] == "field"] == ["current_offset"]]

    is_size = lambda t: has_sub(t, lambda s: s[0] == "place" and "size" in [e for e in s[2] if isinstance(e, str)])
    for name in ("seek_from_start", "seek_from_end"):
        fn = F.fn("FileInfo::" + name)
        st = stores(fn)
        if not st:
            R.bad(fn, "anchor", "no store to current_offset", kind="anchor-missing")
        arg = lambda t: t[0] == "arg" and t[1] == 2
        def checked_diff(g):
            """Some edge of size.checked_sub(offset): taken exactly when offset <= size"""
            t = g.term
            return g.kind == "variant" and g.variant == "Some" and t[0] == "call" and t[1] and t[1].endswith("::checked_sub") and is_size(t[2][0]) and arg(strip_refs(t[2][1]))
        for b, i in st:
            ok, _ = guarded(fn, b, lambda g: g_cmp("Le", True, arg, is_size)(g) or checked_diff(g))
            R.require(ok, fn, "bound", "current_offset stored without `offset <= size`", fn.loc(b, i))
    fn = F.fn("FileInfo::seek_from_current")
    st = stores(fn)
    if not st:
        R.bad(fn, "anchor", "no store to current_offset", kind="anchor-missing")
    for b, i in st:
        def in_range(g):
            """(0..=size).contains(&new) taken true"""
            t = g.term
            if not (g.kind == "bool" and g.truth is True and t[0] == "call" and t[1] and t[1].endswith("::contains") and len(t[2]) == 2):
                return False
            r = strip_refs(t[2][0])
            return r[0] == "call" and r[1] and r[1].endswith("RangeInclusive::new") and r[2][0][:2] == ("c", 0) and is_size(r[2][1])
        def fits_u32(g):
            """Ok edge of u32::try_from(<the i64 sum>): taken exactly when 0 <= sum <= u32::MAX"""
            t = g.term
            return g.kind == "variant" and g.variant == "Ok" and t[0] == "call" and t[1] and t[1].endswith("TryFrom::try_from") and isinstance(t[3], int) and "u32" in fn.term(t[3]).get("callee_full", "").split(" as ")[0]
        lo, _ = guarded(fn, b, lambda g: g_cmp("Ge", True, None, lambda z: z[:2] == ("c", 0))(g) or in_range(g) or fits_u32(g))
        hi, _ = guarded(fn, b, lambda g: g_cmp("Le", True, None, is_size)(g) or in_range(g))
        R.require(lo, fn, "lower", "current_offset stored without `new >= 0`", fn.loc(b, i))
        R.require(hi, fn, "upper", "current_offset stored without `new <= size`", fn.loc(b, i))
        # the sum is formed in a type that holds every u32 + i32 exactly (i64): a 32-bit sum rejects or wraps positions >= 2 GiB
        v = fn.term_of_rvalue(fn.blocks[b]["stmts"][i]["rv"], b)
        okw = False
        inner = None
        if v[0] == "cast" and len(v) > 3 and v[3] in ("i64", "i128") and v[1] == "u32":
            inner = v[2]
        elif v[0] == "place" and tuple(v[2]) == ("as:Ok", "0") and v[1][0] == "call" and (v[1][1] or "").endswith("TryFrom::try_from"):
            cf = fn.term(v[1][3]).get("callee_full", "") if isinstance(v[1][3], int) else ""
            if "u32 as" in cf and ("TryFrom<i64>" in cf or "TryFrom<i128>" in cf):
                inner = strip_refs(v[1][2][0])       # the checked narrowing of the same 64-bit sum
        if inner is not None:
            if inner[0] == "bin" and inner[1] in ("Add", "AddWithOverflow"):
                def widened(x, what):
                    x = strip_refs(x)
                    if x[0] == "call" and x[1] and x[1].endswith("From::from") and len(x[2]) == 1:
                        return what(strip_refs(x[2][0]))
                    if x[0] == "cast" and len(x) > 3 and x[1] in ("i64", "i128"):
                        return what(strip_refs(x[2]))
                    return False
                is_cur = lambda y: y[0] == "place" and [e for e in y[2] if isinstance(e, str)][-1:] == ["current_offset"]
                is_off = lambda y: y[:2] == ("arg", 2)
                okw = (widened(inner[2], is_cur) and widened(inner[3], is_off)) or (widened(inner[2], is_off) and widened(inner[3], is_cur))
        R.require(okw, fn, "wide-sum", "seek_from_current must compute current_offset + offset in 64-bit arithmetic and store its low 32 bits; got %s" % tstr(v)[:160], fn.loc(b, i))
    # what the other two seeks store
    from .poly import peq, SUB
    fn_s = F.fn("FileInfo::seek_from_start")
    for b, i in stores(fn_s):
        v = fn_s.term_of_rvalue(fn_s.blocks[b]["stmts"][i]["rv"], b)
        R.require(strip_refs(v)[:2] == ("arg", 2), fn_s, "stores-offset", "seek_from_start must store the requested offset, stores %s" % tstr(v), fn_s.loc(b, i))
    fn_e = F.fn("FileInfo::seek_from_end")
    for b, i in stores(fn_e):
        v = fn_e.term_of_rvalue(fn_e.blocks[b]["stmts"][i]["rv"], b)
        size_t = ("place", ("arg", 1, "self"), ("*", "entry", "size"))
        via_checked = v[0] == "place" and tuple(v[2]) == ("as:Some", "0") and v[1][0] == "call" and v[1][1] and v[1][1].endswith("::checked_sub") and peq(v[1][2][0], size_t) and strip_refs(v[1][2][1])[:2] == ("arg", 2)
        R.require(via_checked or peq(v, SUB(size_t, ("arg", 2, "offset"))), fn_e, "stores-size-minus-offset", "seek_from_end must store size - offset, stores %s" % tstr(v), fn_e.loc(b, i))
    fn = F.fn(VM + "::write")
    ul = [(b, t) for b, t in fn.calls() if call_matches(t, ("FileInfo::update_length",))]
    if not ul:
        R.bad(fn, "anchor", "no update_length call in write", kind="anchor-missing")
    for b, t in ul:
        ok, _ = guarded(fn, b, g_cmp("Gt", True, None, is_size))
        # the same as a value: update_length(max(size, new_offset)) never shrinks either
        ok = ok or max_with(fn.term_of_operand(t["args"][1], b), is_size) is not None
        R.require(ok, fn, "grow-only", "update_length reachable without `new_offset > size`", fn.loc(b))


def max_with(term, is_x):
    """for `max(x, y)` / `x.max(y)` (either order) with is_x(x): y; else None"""
    t = strip_refs(term)
    if t[0] == "call" and t[1] and t[1].split("::")[-1] == "max" and len(t[2]) == 2:
        a, b = strip_refs(t[2][0]), strip_refs(t[2][1])
        if is_x(a):
            return b
        if is_x(b):
            return a
    return None


# ---------------------------------------------------------------------------------------
# limits


VARIANT_OF_TABLE = {"open_dirs": "TooManyOpenDirs", "open_files": "TooManyOpenFiles", "open_volumes": "TooManyOpenVolumes"}


@rule("CP1", ["C08"], floor=9,
      doc="every push into an open-object table is bounded: push_unchecked only under !is_full() of the same table; checked push maps its Err to the table's own TooMany* variant or is unwrapped under !is_full(); every close_* removes from the matching table")
def cp1(F, R):
    for fn in F.fns:
        if not (fn.npath.startswith(VM + "::") or fn.npath.startswith(VMD + "::")):
            continue
        for b, t in fn.calls():
            n = call_matches(t, ("Vec::push_unchecked", "Vec::push"))
            if not n:
                continue
            tab = table_of_term(fn.term_of_operand(t["args"][0], b))
            if not tab:
                continue
            full = g_call("Vec::is_full", False, lambda a, tab=tab: table_of_term(a[0]) == tab)
            okfull, _ = guarded(fn, b, full)
            if n.endswith("push_unchecked"):
                R.require(okfull, fn, "push_unchecked(%s)" % tab, "push_unchecked into %s without a dominating `!%s.is_full()`" % (tab, tab), fn.loc(b))
                continue
            # checked push: how is the result consumed?
            dest = t["dest"]["l"]
            use = None
            for b2, t2 in fn.calls():
                for a in t2["args"]:
                    if a.get("k") in ("copy", "move") and not a["p"]["proj"] and (a["p"]["l"] == dest or (lambda q: q[0] == "call" and q[3] == b)(strip_refs(fn.term_of_operand(a, b2)))):
                        use = (b2, t2)
            if use is None:
                # matched on directly: `match table.push(x) { Ok(()) => .., Err(_) => Err(TooMany..) }`
                err_edges = [(gb, gi) for (gb, gi, g) in all_guards(fn) if g.kind == "variant" and g.variant == "Err" and strip_refs(g.term)[0] == "call" and strip_refs(g.term)[3] == b]
                if err_edges:
                    okm = True
                    for (gb, gi) in err_edges:
                        rs_ = fn.reach([fn.succ(gb)[gi][0]])
                        errs_ = [x for x in err_returns(fn) if x[0] in rs_]
                        okm = okm and bool(errs_) and all(x[2] == VARIANT_OF_TABLE[tab] for x in errs_) and not any(x[0] in rs_ for x in ok_returns(fn))
                    R.require(okm, fn, "push(%s):match" % tab, "a failed push into %s is not reported as %s" % (tab, VARIANT_OF_TABLE[tab]), fn.loc(b))
                    continue
                R.bad(fn, "push(%s):result-dropped" % tab, "result of checked push into %s is not consumed" % tab, fn.loc(b))
                continue
            b2, t2 = use
            c2 = callee_of(t2)
            if c2.endswith("::map_err"):
                clos = fn.term_of_operand(t2["args"][1], b2)
                v = None
                if clos[0] == "agg" and clos[1] == "Closure":
                    cf = F.closure(clos[2])
                    er = [fn2 for fn2 in [cf]]
                    vals = [cf.term_of_rvalue(s["rv"], bb) for bb, ii, s in cf.stmts() if s["k"] == "Assign" and s["p"]["l"] == 0 and not s["p"]["proj"]]
                    if len(vals) == 1 and vals[0][0] == "agg":
                        v = vals[0][2].split("::")[-1]
                R.require(v == VARIANT_OF_TABLE[tab], fn, "push(%s):map_err" % tab, "failed push into %s is reported as %s, expected %s" % (tab, v, VARIANT_OF_TABLE[tab]), fn.loc(b2))
            elif c2.endswith("::unwrap") or c2.endswith("::expect"):
                R.require(okfull, fn, "push(%s):unwrap" % tab, "push().unwrap() into %s without a dominating `!is_full()`" % tab, fn.loc(b2))
            else:
                R.bad(fn, "push(%s):unknown-use" % tab, "result of push into %s consumed by %s" % (tab, c2), fn.loc(b2))
    # a TooMany* refusal is decided by the fullness of its own table, and only by that
    tab_of_variant = {v: k for k, v in VARIANT_OF_TABLE.items()}
    for fn in F.fns:
        if not (fn.npath.startswith(VM + "::") or fn.npath.startswith(VMD + "::")) or fn.kind == "Closure":
            continue
        for (b, i, var, term) in err_returns(fn):
            if var not in tab_of_variant:
                continue
            want = tab_of_variant[var]
            full_of = lambda tab: g_call("Vec::is_full", True, lambda a, tab=tab: table_of_term(a[0]) == tab)
            own = guarded(fn, b, full_of(want))[0]
            if not own:
                # ... or by the failure of the checked push into that very table
                def push_failed(g, want=want):
                    t_ = strip_refs(g.term)
                    return g.kind == "variant" and g.variant == "Err" and t_[0] == "call" and t_[1] and t_[1].endswith("Vec::push") and t_[2] and table_of_term(t_[2][0]) == want
                own = guarded(fn, b, push_failed)[0]
            foreign = [t_ for t_ in VARIANT_OF_TABLE if t_ != want and guarded(fn, b, full_of(t_))[0]]
            R.require(own and not foreign, fn, "refusal:%s" % var, "Err(%s) is %s: the limit that is reported must be the limit that was hit" % (var, "decided by %s.is_full()" % foreign[0] if foreign else "not guarded by %s.is_full()" % want), fn.loc(b, i))
    for name, tab in (("close_dir", "open_dirs"), ("close_file", "open_files"), ("close_volume", "open_volumes")):
        fn = F.fn(VM + "::" + name)
        rem = [(b, t) for b, t in fn.calls() if call_matches(t, ("Vec::swap_remove", "Vec::remove")) and table_of_term(fn.term_of_operand(t["args"][0], b)) == tab]
        oks = ok_returns(fn)
        R.require(len(rem) >= 1, fn, "close-removes(%s)" % tab, "%s does not remove from %s" % (name, tab), fn.loc(0))


@rule("CP2", ["C08"], floor=4,
      doc="close_volume removes the volume only after scanning open_files and open_dirs for it (VolumeStillInUse); open_raw_volume pushes only after the already-open scan and the is_full check")
def cp2(F, R):
    fn = F.fn(VM + "::close_volume")
    rem = [(b, t) for b, t in fn.calls() if call_matches(t, ("Vec::swap_remove",))]
    if not rem:
        R.bad(fn, "anchor", "no swap_remove in close_volume", kind="anchor-missing")
    from .ev import norm_bool
    from .specialise import specialise_on

    def any_scan(tab):
        """(block, pred) of `<tab>.iter().any(|x| x.raw_volume == volume)` calls: the iterator form of the scan loop"""
        out = []
        for b, t in fn.calls():
            if not (callee_of(t) or "").endswith("Iterator::any"):
                continue
            ct = fn.call_term(t, b)
            if _iter_table(fn, ct) != tab:
                continue
            clo = strip_refs(ct[2][1])
            if not (clo[0] == "agg" and clo[1] == "Closure" and len(clo[3]) == 1 and strip_refs(clo[3][0])[:2] == ("arg", 2)):
                continue
            cf = [c for c in F.closures_of(fn) if c.path_matches(clo[2])] if hasattr(fn, "path_matches") else [c for c in F.closures_of(fn) if strip_generics(c.npath) == strip_generics(clo[2]) or c.npath.endswith(clo[2].split("::")[-1])]
            okc = False
            for c in cf:
                rets = [c.term_of_rvalue(x[3], x[1]) if x[0] == "assign" else c.call_term(x[2], x[1]) for x in c.defs().get(0, [])]
                if len(rets) == 1:
                    tt, truth = norm_bool(rets[0], True)
                    if tt[0] == "cmp" and tt[1] == "Eq" and truth:
                        sides = [strip_refs(tt[2]), strip_refs(tt[3])]
                        item = [x for x in sides if x[0] == "place" and strip_refs(x[1])[:2] == ("arg", 2) and last_field(x) == "raw_volume"]
                        cap = [x for x in sides if x[0] == "place" and strip_refs(x[1])[:2] == ("arg", 1)]
                        okc = len(item) == 1 and len(cap) == 1
            if okc:
                out.append((b, (lambda q, b=b: q[0] == "call" and q[1] and q[1].endswith("Iterator::any") and q[3] == b)))
        return out

    errs = [x for x in err_returns(fn) if x[2] == "VolumeStillInUse"]
    for b, t in rem:
        for tab in ("open_files", "open_dirs"):
            # the loop over `tab` must have terminated with None (exhausted) before the removal
            def pr(g, tab=tab):
                return g.kind == "variant" and g.variant == "None" and g.term[0] == "call" and g.term[1].endswith("Iterator::next") and _iter_table(fn, g.term) == tab
            ok, _ = guarded(fn, b, pr)
            if not ok:
                # ... or `<tab>.iter().any(|x| x.raw_volume == volume)` decided true must make the removal unreachable and end in VolumeStillInUse
                for (ab, apred) in any_scan(tab):
                    rs = fn.reach([0], cut_edges=specialise_on(fn, apred, 1))
                    if b not in rs and any(x[0] in rs for x in errs) and not any(x[0] in rs for x in ok_returns(fn)):
                        ok = True
            R.require(ok, fn, "scan:" + tab, "volume removed without a completed scan of %s" % tab, fn.loc(b))
    found = False
    for (b, i, var, term) in errs:
        ok, _ = guarded(fn, b, g_cmp("Eq", True, lambda a: "raw_volume" in tstr(a), None))
        found = found or ok
    if not found and errs:
        scans = any_scan("open_files") + any_scan("open_dirs")
        # with every scan decided false the in-use exit must be unreachable
        from .specialise import specialise_all
        rs = fn.reach([0], cut_edges=specialise_all(fn, [(p_, 0) for (_b, p_) in scans]))
        found = len(scans) == 2 and not any(x[0] in rs for x in errs)
    R.require(found, fn, "in-use-exit", "no VolumeStillInUse exit guarded by raw_volume equality", fn.loc(0))
    fn = F.fn(VM + "::open_raw_volume")
    pushes = [(b, t) for b, t in fn.calls() if call_matches(t, ("Vec::push",)) and table_of_term(fn.term_of_operand(t["args"][0], b)) == "open_volumes"]
    if not pushes:
        R.bad(fn, "anchor", "no open_volumes push", kind="anchor-missing")
    anys = []
    for b, t in fn.calls():
        if (callee_of(t) or "").endswith("Iterator::any"):
            ct = fn.call_term(t, b)
            if _iter_table(fn, ct) == "open_volumes":
                ok_, conj_, _ex = closure_equalities(F, ct[2][1])
                if ok_ and len(conj_) == 1 and conj_[0][0] == ("idx",) and conj_[0][1] is not None and strip_refs(conj_[0][1])[:2] == ("arg", 2):
                    anys.append((b, (lambda q, b=b: q[0] == "call" and q[1] and q[1].endswith("Iterator::any") and q[3] == b)))
    errs = [x for x in err_returns(fn) if x[2] == "VolumeAlreadyOpen"]
    for b, t in pushes:
        def pr(g):
            return g.kind == "variant" and g.variant == "None" and g.term[0] == "call" and g.term[1].endswith("Iterator::next") and _iter_table(fn, g.term) == "open_volumes"
        ok, _ = guarded(fn, b, pr)
        for (ab, apred) in anys:
            # open_volumes.iter().any(|v| v.idx == volume_idx) decided true: no push, VolumeAlreadyOpen
            rs = fn.reach([0], cut_edges=specialise_on(fn, apred, 1))
            if b not in rs and any(x[0] in rs for x in errs):
                ok = True
        R.require(ok, fn, "already-open-scan", "volume pushed without a completed scan for VolumeAlreadyOpen", fn.loc(b))
    okk = False
    for (b, i, var, term) in errs:
        ok, _ = guarded(fn, b, g_cmp("Eq", True, lambda a: "idx" in tstr(a), None))
        okk = okk or ok
    if not okk and anys and errs:
        rs = fn.reach([0], cut_edges=specialise_all(fn, [(p_, 0) for (_b, p_) in anys]))
        okk = not any(x[0] in rs for x in errs)
    R.require(okk, fn, "already-open-exit", "no VolumeAlreadyOpen exit guarded by idx equality", fn.loc(0))


def _iter_table(fn, next_term):
    """Table iterated by an `Iterator::next(&mut iter)` call term: look at the defs of the iter var."""
    a = strip_refs(next_term[2][0])
    if a[0] != "var":
        return table_of_term(a)
    for d in fn.defs().get(a[1], []):
        if d[0] == "call":
            t = fn.call_term(d[2], d[1])
            tab = table_of_term(t)
            if tab:
                return tab
        elif d[0] == "assign":
            tab = table_of_term(fn.term_of_rvalue(d[3], d[1]))
            if tab:
                return tab
    return None


# ---------------------------------------------------------------------------------------
# lock


@rule("LK1", ["C08"], floor=22,
      doc="every Result-returning VolumeManager method that touches self.data acquires it with try_borrow[_mut] mapped to Error::LockError; panicking borrow()/borrow_mut() only in non-Result methods")
def lk1(F, R):
    for fn in F.fns:
        if not (fn.npath.startswith(VM + "::")) or fn.kind != "AssocFn":
            continue
        res = is_result_of_error(fn)
        for b, t in fn.calls():
            c = callee_of(t) or ""
            if c.endswith("RefCell::borrow") or c.endswith("RefCell::borrow_mut"):
                R.require(not res, fn, "panicking-borrow", "Result-returning %s uses panicking %s" % (fn.npath.split("::")[-1], c.split("::")[-1]), fn.loc(b))
            if c.endswith("RefCell::try_borrow") or c.endswith("RefCell::try_borrow_mut"):
                # consumer must be map_err(closure -> LockError)
                dest = t["dest"]["l"]
                okc = False
                for b2, t2 in fn.calls():
                    if (callee_of(t2) or "").endswith("::map_err") and (t2["args"][0].get("p", {}).get("l") == dest or (lambda q: q[0] == "call" and q[3] == b)(strip_refs(fn.term_of_operand(t2["args"][0], b2)))):
                        clos = fn.term_of_operand(t2["args"][1], b2)
                        if clos[0] == "agg" and clos[1] == "Closure":
                            cf = F.closure(clos[2])
                            vals = [cf.term_of_rvalue(s["rv"], bb) for bb, ii, s in cf.stmts() if s["k"] == "Assign" and s["p"]["l"] == 0 and not s["p"]["proj"]]
                            okc = len(vals) == 1 and vals[0][0] == "agg" and vals[0][2].endswith("Error::LockError")
                if not okc:
                    # written out: `match self.data.try_borrow_mut() { Ok(d) => d, Err(_) => return Err(Error::LockError) }` -
                    # from the Err edge of the call's own result no return is reached but through Err(LockError)
                    from .fsmodel import err_returns as _errs
                    lock_errs = [x[0] for x in _errs(fn) if x[2] == "LockError"]
                    eds = [(gb, gi) for (gb, gi, g) in all_guards(fn) if g.kind == "variant" and g.variant == "Err" and strip_refs(g.term)[0] == "call" and strip_refs(g.term)[3] == b]
                    okc = bool(eds) and bool(lock_errs) and all(not any(fn.term(rb)["k"] == "Return" for rb in fn.reach([fn.succ(gb)[gi][0]], cut_blocks=lock_errs)) for (gb, gi) in eds)
                R.require(okc, fn, "try_borrow->LockError", "try_borrow failure is not mapped to Error::LockError", fn.loc(b))


@rule("LK2", ["C08"], floor=22,
      doc="in every Result-returning VolumeManager method the successful lock acquisition dominates every non-logging call except delegations to other lock-taking VolumeManager/wrapper methods")
def lk2(F, R):
    _is_tb = lambda x: x is not None and x[0] == "call" and x[1] and (x[1].endswith("RefCell::try_borrow") or x[1].endswith("RefCell::try_borrow_mut"))
    # `try_borrow_mut().map_err(..)?` went on, or the call's own result was matched and is Ok
    lock_ok = lambda g: g.kind == "variant" and ((g.variant == "Continue" and _is_tb(try_inner(g.term))) or (g.variant == "Ok" and _is_tb(strip_refs(g.term))))
    DELEG_OK = ("VolumeManager::", "RawVolume::to_volume", "RawDirectory::to_directory", "RawFile::to_file", "Directory::iterate_dir", "core::mem::drop", "core::mem::forget",
                "Try::branch", "FromResidual::from_residual", "Result::map_err", "RefCell::try_borrow", "RefCell::try_borrow_mut", "Directory", "Volume::", "File::")
    for fn in F.fns:
        if not fn.npath.startswith(VM + "::") or fn.kind != "AssocFn" or not is_result_of_error(fn):
            continue
        touches = any((callee_of(t) or "").endswith(("RefCell::try_borrow", "RefCell::try_borrow_mut", "RefCell::borrow", "RefCell::borrow_mut")) for b, t in fn.calls())
        if not touches:
            # pure delegation (open_volume): every call must be to another VolumeManager method / wrapper constructor
            for b, t in fn.calls():
                if is_log_call(t):
                    continue
                c = callee_of(t) or ""
                ok = any(x in c for x in DELEG_OK)
                R.require(ok, fn, "delegates:" + c.split("::")[-1], "method without lock calls %s" % c, fn.loc(b))
            continue
        n_bad = 0
        for b, t in fn.calls():
            if is_log_call(t):
                continue
            c = callee_of(t) or ""
            if any(x in c for x in DELEG_OK):
                continue
            if c.endswith("Drop::drop") or c.endswith("drop_in_place"):
                continue
            ok, _ = guarded(fn, b, lock_ok)
            if not ok:
                n_bad += 1
                R.bad(fn, "unlocked:" + c.split("::")[-1], "call to %s is reachable without holding the lock" % c, fn.loc(b))
        if n_bad == 0:
            R.ok(fn, "lock-dominates", "lock acquisition dominates all non-delegating calls")


# ---------------------------------------------------------------------------------------
# handles

HANDLE_TYPES = {"RawVolume": "get_volume_by_id", "filesystem::directory::RawDirectory": "get_dir_by_id", "filesystem::files::RawFile": "get_file_by_id"}


@rule("HV1", ["C08"], floor=20,
      doc="every public VolumeManager method taking a raw handle validates it (get_*_by_id(param)? Ok edge, `param == table[i].handle` true edge, or delegation to a validating method) before any effect and before returning Ok")
def hv1(F, R):
    for fn in public_vm_fns(F):
        ins = fn.raw.get("inputs", [])
        for ai, ty in enumerate(ins):
            ht = None
            for k, getter in HANDLE_TYPES.items():
                if ty == k or ty.endswith("::" + k) or ty == k.split("::")[-1]:
                    ht = (k, getter)
            if ht is None:
                continue
            local = ai + 1
            pname = fn.local_name(local) or "_%d" % local
            is_param = lambda t: has_sub(t, lambda s: s[0] == "arg" and s[1] == local)

            def validated(g, getter=ht[1]):
                if g_try_ok(getter, lambda a: is_param(a[1]))(g):
                    return True
                if g.kind == "bool" and g.term[0] == "cmp" and g.term[1] == "Eq" and g.truth is True:
                    a, b_ = g.term[2], g.term[3]
                    hf = ("raw_directory", "raw_file", "raw_volume")
                    if (is_param(a) and (table_of_term(b_) or last_field(b_) in hf)) or (is_param(b_) and (table_of_term(a) or last_field(a) in hf)):
                        return True
                # table.iter().position(|x| x.<handle> == param) answered Some(idx)
                if g.kind == "variant" and g.variant == "Some":
                    x = strip_refs(g.term)
                    if x[0] == "var":
                        ds_ = var_def_terms(fn, x[1])
                        x = strip_refs(ds_[0]) if len(ds_) == 1 else x
                    if x[0] == "call" and (x[1] or "").endswith("Iterator::position") and _iter_table(fn, x) in ("open_dirs", "open_files", "open_volumes"):
                        ok_, conj_, _ex = closure_equalities(F, x[2][1])
                        if ok_ and len(conj_) == 1 and conj_[0][0][-1:] and conj_[0][0][-1] in ("raw_directory", "raw_file", "raw_volume") and conj_[0][1] is not None and is_param(conj_[0][1]):
                            return True
                # delegation: a call to another public VolumeManager method with the param that returned Ok
                if g.kind == "variant" and g.variant in ("Continue", "Ok"):
                    x = try_inner(g.term) if g.variant == "Continue" else g.term
                    if x is not None and x[0] == "call" and x[1] and x[1].startswith(VM + "::") and any(is_param(a) for a in x[2]):
                        return True
                return False

            targets = [(e[0], e[1], "effect " + eff_key(e)) for e in all_effects(fn)]
            targets += [(b, i, "Ok return") for (b, i, v) in ok_returns(fn)]
            if not is_result_of_error(fn):
                continue
            bad = 0
            for (b, i, what) in targets:
                ok, _ = guarded(fn, b, validated)
                if not ok:
                    # delegation whose result is returned directly (close_file -> flush_file result)
                    bad += 1
                    # (keyed by the parameter's position: its name is free)
                    R.bad(fn, "arg%d:%s" % (local, what), "%s reachable without validating handle parameter `%s`" % (what, pname), fn.loc(b, i))
            if bad == 0:
                R.ok(fn, "arg%d" % local, "handle `%s` validated before %d effects/Ok returns" % (pname, len(targets)))


@rule("HV2", ["C08"], floor=9,
      doc="raw handles are constructed only from id_generator.generate(); generate() returns the old counter and advances it by one")
def hv2(F, R):
    n = 0
    seen_types = set()
    for fn in F.fns:
        for b, i, s in fn.stmts():
            if s["k"] != "Assign" or s["rv"]["k"] != "Aggregate" or s["rv"].get("agg") != "Adt":
                continue
            adt = s["rv"]["adt"]
            if adt.split("::")[-1] in ("RawVolume", "RawDirectory", "RawFile"):
                n += 1
                seen_types.add(adt.split("::")[-1])
                v = fn.term_of_operand(s["rv"]["ops"][0], b)
                ok = v[0] == "call" and v[1] and path_matches(v[1], "HandleGenerator::generate")
                R.require(ok, fn, "ctor:" + adt.split("::")[-1], "%s constructed from %s, not from generate()" % (adt, tstr(v)), fn.loc(b, i))
    # every record that enters an open-object table carries a handle minted for it: the pushed value is a literal whose own
    # handle field is Raw*(id_generator.generate()) - never a copy of a record that is already in a table
    OWN = {"DirectoryInfo": "raw_directory", "FileInfo": "raw_file", "VolumeInfo": "raw_volume"}
    npush = 0
    for fn in F.fns:
        if not fn.npath.startswith("volume_mgr::VolumeManager"):
            continue
        for b, t in fn.calls():
            if not call_matches(t, ("Vec::push", "Vec::push_unchecked")):
                continue
            tab = table_of_term(fn.term_of_operand(t["args"][0], b))
            if tab not in ("open_dirs", "open_files", "open_volumes"):
                continue
            npush += 1
            v = strip_refs(fn.term_of_operand(t["args"][1], b))
            def resolve(x, depth=0):
                """the literals a local can hold (through moves between locals)"""
                x = strip_refs(x)
                if x[0] == "var" and depth < 5:
                    out = []
                    for d in var_def_terms(fn, x[1]):
                        out += resolve(d, depth + 1)
                    return out
                return [x]
            alts = resolve(v)
            okp = bool(alts)
            for a in alts:
                kind = a[2].split("::")[-1] if a[0] == "agg" and a[2] else None
                if kind not in OWN:
                    okp = False
                    continue
                flds = [f["name"] for f in next(ad for pth, ad in F.adts.items() if pth == kind or pth.endswith("::" + kind))["variants"][0]["fields"]]
                h = strip_refs(a[3][flds.index(OWN[kind])])
                hs = resolve(h)
                for h_ in hs:
                    if not (h_[0] == "agg" and h_[2] and h_[2].split("::")[-1].startswith("Raw") and has_sub(h_, lambda q: q[0] == "call" and q[1] and path_matches(q[1], "HandleGenerator::generate"))):
                        okp = False
            R.require(okp, fn, "fresh-handle:" + tab, "a record is pushed into %s whose handle is not freshly generated (a copied record leaves two table entries answering to one handle; closing one orphans the other)" % tab, fn.loc(b))
    R.require(npush >= 3, None, "push-sites", "expected pushes into all three open-object tables, found %d" % npush)
    R.require(seen_types == {"RawVolume", "RawDirectory", "RawFile"}, None, "ctor-sites", "expected constructor sites for all three raw handle types, found %s" % sorted(seen_types))
    fn = F.fn("HandleGenerator::generate")
    # _0 = Handle(id.0) where id = copy of self.next_id taken before the += 1
    rets = [fn.term_of_rvalue(s["rv"], b) for b, i, s in fn.stmts() if s["k"] == "Assign" and s["p"]["l"] == 0 and not s["p"]["proj"]]
    ok = len(rets) == 1 and "next_id" in tstr(rets[0]) or (len(rets) == 1 and rets[0][0] == "agg")
    adds = [t for b, t in fn.calls() if (callee_of(t) or "").endswith("AddAssign::add_assign")]
    ok2 = len(adds) == 1 and fn.term_of_operand(adds[0]["args"][1], 0)[:2] == ("c", 1)
    if not adds:
        # self.next_id = Wrapping(id.wrapping_add(1)) with id read from next_id
        st_ = [fn.term_of_rvalue(s_["rv"], b) for b, i, s_ in fn.stmts() if s_["k"] == "Assign" and [e[2] for e in fn.canon_place(s_["p"])["proj"] if e[0] == "field"][-1:] == ["next_id"]]
        ok2 = len(st_) == 1 and has_sub(st_[0], lambda q: q[0] == "call" and q[1] and q[1].endswith("wrapping_add") and len(q[2]) == 2 and q[2][1][:2] == ("c", 1) and "next_id" in tstr(q[2][0]))
    R.require(ok and ok2, fn, "generate", "generate() must return the counter and add 1", fn.loc(0))
    # ... the whole counter: the handle is the 32-bit value itself, not a masked / tagged / shortened function of it (values would
    # repeat after fewer than 2^32 generations, while an older handle of that value may still be open)
    whole = len(rets) == 1 and rets[0][0] == "agg" and len(rets[0][3]) == 1 and not has_sub(rets[0][3][0], lambda q: q[0] in ("bin", "un", "cast") or (q[0] == "call" and q[1] and not q[1].endswith(("::clone", "Clone::clone"))))
    R.require(whole, fn, "generate:whole-counter", "generate() returns %s: the handle must be the counter's value itself" % (tstr(rets[0])[:100] if rets else None), fn.loc(0))
    # the counter only ever moves forward: nothing but new() sets it and nothing but generate() changes it (a reset re-issues
    # handle values that callers may still hold from before - they would be accepted again and name other objects)
    writers = set()
    for g in F.fns:
        for b, i, s_ in g.stmts():
            if s_["k"] == "Assign":
                if [e[2] for e in g.canon_place(s_["p"])["proj"] if e[0] == "field"][-1:] == ["next_id"] or (s_["rv"]["k"] == "Aggregate" and s_["rv"].get("adt", "").endswith("HandleGenerator")):
                    writers.add(g.npath)
        for b, t in g.calls():
            if t["args"] and (callee_of(t) or "").endswith(("AddAssign::add_assign", "SubAssign::sub_assign", "mem::replace", "mem::swap", "mem::take")) and "next_id" in tstr(g.term_of_operand(t["args"][0], b)):
                writers.add(g.npath)
    allowed = {"filesystem::handles::HandleGenerator::new", "filesystem::handles::HandleGenerator::generate"}
    extra = {w for w in writers if w not in allowed and not w.endswith("as core::clone::Clone>::clone")}
    R.require(not extra and "filesystem::handles::HandleGenerator::generate" in writers, None, "counter-writers", "the handle counter is written outside HandleGenerator::new / generate: %s" % sorted(extra), okdetail="handle counter written only by %s" % sorted(writers))
