"""Shared vocabulary of the FS layer: which calls/stores are effects, handle types, helper predicates."""
from .mir import callee_of, path_matches, is_log_call, tstr, strip_refs, subterms, strip_generics

VM = "volume_mgr::VolumeManager"
VMD = "volume_mgr::VolumeManagerData"
FATVOL = "fat::volume::FatVolume"
CACHE = "blockdevice::BlockCache"

# FatVolume methods that (may) write to the medium
FAT_MUTATORS = (
    "FatVolume::alloc_cluster",
    "FatVolume::update_fat",
    "FatVolume::truncate_cluster_chain",
    "FatVolume::free_cluster_chain",
    "FatVolume::write_new_directory_entry",
    "FatVolume::write_entry_to_disk",
    "FatVolume::delete_directory_entry",
    "FatVolume::delete_entry_in_block",
    "FatVolume::make_dir",
    "FatVolume::update_info_sector",
)
CACHE_MUTATORS = ("BlockCache::read_mut", "BlockCache::blank_mut", "BlockCache::write_back", "BlockCache::write_back_with_duplicate")
CACHE_LOADS = ("BlockCache::read", "BlockCache::read_mut", "BlockCache::blank_mut")
TABLE_MUTATORS = ("Vec::push", "Vec::push_unchecked", "Vec::swap_remove", "Vec::pop", "Vec::remove", "Vec::clear", "Vec::truncate", "Vec::insert")
FILEINFO_MUTATORS = ("FileInfo::seek_from_start", "FileInfo::seek_from_end", "FileInfo::seek_from_current", "FileInfo::update_length", "Attributes::set_archive")

TABLES = ("open_files", "open_dirs", "open_volumes")


def call_matches(t, names):
    c = callee_of(t)
    r = strip_generics(t["resolved"]) if t.get("resolved") else None
    for n in names:
        if (c and path_matches(c, n)) or (r and path_matches(r, n)):
            return n
    return None


def table_of_term(term):
    """Which VolumeManagerData table a term refers to (by field name on the path)."""
    for s in subterms(term):
        if s[0] == "place":
            for e in s[2]:
                if isinstance(e, str) and e in TABLES:
                    return e
    return None


def private_mutating_helpers(F):
    """Private (non-pub) helper functions of the FS layer that, transitively, write to the medium and are not already in
    the vocabulary above: a maintainer may move part of an operation into such a helper; calling it is a medium effect of
    the caller.  Public API functions are not summarised here (the per-function rules treat their composition)."""
    c = getattr(F, "_mut_helpers", None)
    if c is not None:
        return c
    known = set(x.split("::")[-1] for x in FAT_MUTATORS + CACHE_MUTATORS)
    cand = {}
    for f in F.fns:
        if f.kind == "Closure" or not f.npath.startswith(("volume_mgr::VolumeManagerData::", "volume_mgr::VolumeManager::", "fat::volume::FatVolume::")):
            continue
        if f.raw.get("pub") or f.npath.split("::")[-1] in known:
            continue
        cand[f.npath] = f
    mut = set()
    changed = True
    while changed:
        changed = False
        for np_, f in cand.items():
            if np_ in mut:
                continue
            for b, t in f.calls():
                r = strip_generics(t["resolved"]) if t.get("resolved") else None
                if call_matches(t, FAT_MUTATORS) or call_matches(t, ("BlockCache::write_back", "BlockCache::write_back_with_duplicate", "BlockCache::blank_mut")) or (r in mut):
                    mut.add(np_)
                    changed = True
                    break
    F._mut_helpers = mut
    return mut


def medium_effects(fn):
    """(block, idx|None, kind, desc) for calls that can write to the medium."""
    out = []
    helpers = private_mutating_helpers(fn.facts) if getattr(fn, "facts", None) is not None else set()
    for b, t in fn.calls():
        n = call_matches(t, FAT_MUTATORS)
        if n:
            out.append((b, None, "fat", n.split("::")[-1]))
            continue
        n = call_matches(t, CACHE_MUTATORS)
        if n:
            out.append((b, None, "cache", n.split("::")[-1]))
            continue
        r = strip_generics(t["resolved"]) if t.get("resolved") else None
        if r in helpers:
            out.append((b, None, "helper", r.split("::")[-1]))
    return out


def state_effects(fn):
    """Effects on the in-memory tables: push/remove, stores into open_files[..] etc."""
    out = []
    for b, t in fn.calls():
        n = call_matches(t, TABLE_MUTATORS)
        if n and t["args"]:
            tab = table_of_term(fn.term_of_operand(t["args"][0], b))
            if tab:
                out.append((b, None, "table", "%s(%s)" % (n.split("::")[-1], tab)))
                continue
        n = call_matches(t, FILEINFO_MUTATORS)
        if n and t["args"]:
            a0 = fn.term_of_operand(t["args"][0], b)
            tab = table_of_term(a0)
            if tab:
                out.append((b, None, "fileinfo", "%s(%s)" % (n.split("::")[-1], tab)))
    for b, i, s in fn.stmts():
        if s["k"] != "Assign" or not s["p"]["proj"]:
            continue
        p = fn.canon_place(s["p"])
        # store through a reference obtained from IndexMut on a table
        base = fn.term_of_place({"l": p["l"], "proj": []})
        tab = table_of_term(base)
        names = [e[2] for e in p["proj"] if e[0] == "field"]
        if tab is None:
            for nme in names:
                if nme in TABLES:
                    tab = nme
        if tab and names:
            out.append((b, i, "store", "%s.%s" % (tab, ".".join(n for n in names if n not in TABLES))))
    return out


def all_effects(fn):
    return medium_effects(fn) + state_effects(fn)


def err_returns(fn, adt="Error"):
    """Blocks assigning _0 = Err(<adt>::V ...) -> list of (block, idx, variant, term)."""
    out = []
    # the result locals of helpers that were inlined into fn (analysis/lower.py): an Err built there leaves fn through the `?`
    # / return that consumed the helper's result, so it counts as one of fn's own error exits
    inl = {blk["inl_ret"] for blk in fn.blocks if blk.get("inl_ret") is not None and blk.get("inl") != "closure"}
    for b, i, s in fn.stmts():
        if s["k"] == "Assign" and (s["p"]["l"] == 0 or s["p"]["l"] in inl) and not s["p"]["proj"]:
            v = fn.term_of_rvalue(s["rv"], b)
            if v[0] == "agg" and v[2] and v[2].endswith("Result::Err"):
                inner = v[3][0]
                if inner[0] == "agg" and inner[2] and ("::" + adt + "::") in ("::" + inner[2]):
                    out.append((b, i, inner[2].split("::")[-1], inner))
                else:
                    out.append((b, i, None, inner))
    return out


def ok_returns(fn):
    out = []
    for b, i, s in fn.stmts():
        if s["k"] == "Assign" and s["p"]["l"] == 0 and not s["p"]["proj"]:
            v = fn.term_of_rvalue(s["rv"], b)
            if v[0] == "agg" and v[2] and v[2].endswith("Result::Ok"):
                out.append((b, i, v[3][0]))
    return out


def maybe_ok_returns(fn):
    """Every definition of the return place that can carry Ok: the Ok aggregates of ok_returns plus results handed on
    from a callee (`_0 = callee(..)` as the tail expression) or from a local; Err aggregates and the from_residual exits
    of `?` cannot.  Returns (block, index or None) pairs."""
    out = [(b, i) for (b, i, _v) in ok_returns(fn)]
    for b, i, s in fn.stmts():
        if s["k"] == "Assign" and s["p"]["l"] == 0 and not s["p"]["proj"]:
            v = fn.term_of_rvalue(s["rv"], b)
            if v[0] == "agg" and v[2] and v[2].endswith(("Result::Ok", "Result::Err")):
                continue
            if v[0] == "call" and v[1] and v[1].endswith("FromResidual::from_residual"):
                continue
            out.append((b, i))
    for b, t in fn.calls():
        d = t.get("dest")
        if d and d["l"] == 0 and not d["proj"]:
            c = strip_generics(t.get("callee") or "")
            if not c.endswith("FromResidual::from_residual"):
                out.append((b, None))
    return out


def public_vm_fns(F):
    return [f for f in F.fns if f.kind == "AssocFn" and f.npath.startswith(VM + "::") and f.raw.get("pub")]


def is_result_of_error(fn):
    out = fn.raw.get("output", "")
    return out.startswith("core::result::Result<") and "Error<" in out


_CLUSTER_CONST = {}
CURRENT_FACTS = None        # set by framework.run_rules: the facts the rules are running on


def is_cluster_const(facts, term, which):
    """term is the constant ClusterId::<which> - by name, or (a literal) by the value that constant has in the tree under test"""
    if term[0] != "c":
        return False
    if term[2]:
        return term[2].endswith("ClusterId::" + which)
    facts = facts or CURRENT_FACTS
    if facts is None:
        return False
    key = (id(facts), which)
    if key not in _CLUSTER_CONST:
        try:
            _CLUSTER_CONST[key] = facts.const("ClusterId::" + which)
        except KeyError:
            _CLUSTER_CONST[key] = None
    return _CLUSTER_CONST[key] is not None and term[1] == _CLUSTER_CONST[key]

