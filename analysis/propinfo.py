"""Per-property evidence texts."""
INFO = {}
