"""Per-property texts for MANIFEST.json and evidence files."""

_T = "static analysis over type-checked MIR (rustc_private fact extractor + repository-specific CFG/dataflow rules)"

INFO = {}
NOT_APPLICABLE = {}


def _p(pid, claim, note, technique, explanation=None, level="other"):
    INFO[pid] = {"claim": claim, "note": note, "technique": technique, "explanation": explanation or claim, "level": level}


_N = ("Trusted base: rustc type checker/MIR construction/const-eval, faithful serialisation by mirfacts, hand-transcribed spec tables. "
      "Generic MIR (D, T, SPI opaque): user callbacks/devices are assumed to return and not to touch library state. Paths are over-approximated. ")

for _pid in ["C%02d" % i for i in range(1, 20)]:
    _p(_pid, "structural necessary conditions decided on every path of the anchored functions; the end-to-end behaviour is not claimed (see DESIGN.md)", _N, _T)

INFO["C19"]["level"] = "proof"
