"""Per-property texts for MANIFEST.json and evidence files (what is decided, what is declined, what is trusted)."""

_T = "static analysis of type-checked MIR"

_N = ("Trusted: rustc type checking / MIR construction / const-eval (nightly, mir-opt-level=0, overflow checks on); faithful serialisation by the "
      "mirfacts driver; the Python rule engines; hand-transcribed spec tables under /verif/spec. MIR is analysed generically (D, T, SPI opaque): calls into the user's "
      "BlockDevice / TimeSource / SpiDevice / DelayNs and callbacks are assumed to return and not to reach library state. Paths are over-approximated "
      "(no infeasible-path pruning beyond constants and the documented correlations). Fail closed: a missing anchor or an instance count below its floor is reported as a violation.")

INFO = {}
NOT_APPLICABLE = {}


def _p(pid, claim, technique, note=_N, level="other"):
    INFO[pid] = {"claim": claim, "note": note, "technique": technique, "explanation": claim, "level": level}


_p("C01",
   "Decides necessary structural conditions on every path, not the byte-exact behaviour: the single-block cache protocol (hit iff tag == Some(arg), tag invalidated before a "
   "device read, tagged only after its Ok, blank_mut tags+zeroes, block_device() invalidates: BC1-3,5); whole-block blanking in write only under block_offset == 0 && "
   "to_copy == block_avail with avail = 512 - offset (BM1); every modification of the cached block is written back before the next load or Ok return (WT1); seeks store the "
   "offset only in range (SK1); the cluster cursor restarts on backward seeks and is advanced in place (SK2). Equality of read data with an in-memory model over all "
   "histories/geometries is declined (numerical results of unbounded histories).",
   "event-language inclusion on MIR paths (CFG x DFA), edge-dominance guard rules, value-origin chasing")
_p("C02",
   "Decides: flush writes the open file's own in-memory entry at entry_block/entry_offset, info sector first, entry last, whenever dirty (FL1, OR4); close removes the handle "
   "regardless of the flush result and returns it; Drop closes (FL2); the 32-byte entry layout equals the FAT specification for FAT16 and FAT32 bit-exactly (CD1); the free-space "
   "record is written at the spec offsets (IS2); creation time is written only at creation, mtime only from the clock in write/truncate (TS1, TS2); new directory clusters are "
   "fully initialised (OR5); write-through (WT1). Declined: readability by an independent FAT reader and byte-for-byte preservation of untouched files as an image property.",
   "event-language inclusion, bit-vector abstract interpretation of DirEntry::serialize against the FAT layout table, who-writes-field scans")
_p("C03",
   "Decides the local steps an inductive well-formedness proof needs: only update_fat mutates FAT blocks, with the entry width / special values / FAT32 nibble of the volume's FAT type "
   "(FT1-4); the free search never returns a cluster it has not compared with the end (FT5); a new cluster is an entry verified free, end-marked before linked (OR1); truncation "
   "terminates the head before freeing the tail and frees the visited cluster (OR2, FT9); create only when the lookup says NotFound (MD3, EF1); all directory walkers agree on start, "
   "extent and continuation (LS4); new directory clusters are zeroed completely (OR5). Declined: acyclicity / no cross-links / unique names as global invariants over histories.",
   "who-may-call + term matching per FAT-type arm, must-fact dataflow via CFG x DFA product, edge-dominance guards")
_p("C04",
   "Decides: the only mutable cache accesses whose index lies in the FAT region are in update_fat, none indexes a constant or the bare partition start (MBR / boot sector are only read) (FT1); "
   "primary and duplicate FAT block indices are lba_start + {fat_start, second_fat_start}.offset_bytes(cluster*k) with the same offset (FT2, FT3); the FAT32 high nibble is preserved (FT4); the free search is "
   "bounded by cluster_count + 2 (FT5, IS3); partial blocks are read-modify-write, whole-block blanking only under the whole-block guard (BM1, WT1); blank_mut tags before the write (BC2, BC4). "
   "Declined: 'only bytes of the requested range change' as a before/after image property; cluster_to_block arithmetic for arbitrary geometries.",
   "value-origin (provenance) analysis of every cache index, term matching, edge-dominance guards")
_p("C05",
   "Decides: every Ok path of delete passes through the release of the chain, slot first (FT8, OR6); truncation frees every visited cluster (FT9, OR2); the whole FAT is searched (wrap-around on NotEnoughSpace) and taking the "
   "last free cluster does not fail (FT10, EF1/FT6 via the fixed hint recomputation); a failed extension yields DiskFull, never Ok (DK1); the free count is paired with every freed/allocated cluster and cannot overflow (FT7). "
   "Declined: 'in-use set == union of live chains' and indefinite fill/delete/refill as global counting over histories.",
   "must-pass-through on the call graph, CFG x DFA pairing automata, guard rules")
_p("C06",
   "Decides: the callback sees a slot only under !is_end() && is_valid() of that same slot with get_entry of that slot, nothing after the end marker (LS1); no LFN fragment from iterate_dir (LS2); lookup/delete act only on "
   "matches() of bytes 0..11 (LS3); all 8 walker arms start at the directory's cluster (FAT32 root: first_root_dir_cluster; FAT16 root region), visit range(cluster_to_block(cur), blocks_per_cluster) and continue at the "
   "cluster read from the FAT (LS4); cluster 0 + directory means root on both FAT types, hi<<16|lo (LS5, CD4); open_dir pushes the looked-up entry's cluster, '.' re-uses the parent's (MD5); FAT errors are never read as "
   "end-of-directory (EF1). Declined: 'every live entry exactly once' for arbitrary fragmented multi-cluster directories.",
   "edge-dominance guard rules keyed on the same slot value, sibling cross-check of walker skeletons, error-fate analysis")
_p("C07",
   "Decided close to fully: mode resolution table 6x2 equals the documentation (MD1, by abstract execution on all inputs); every effect of write() is under mode != ReadOnly (MD2); open/truncate/create effects are under the "
   "documented checks on the entry just looked up (MD3), delete under !is_directory && !file_is_open (MD4), open_dir under is_directory (MD5); file identity is exactly (volume, entry block, entry offset) (MD9, MD9x); no path from entry to "
   "any refusal return passes a medium mutation, table change or open-file store (MD7, 80+ return sites). Declined: the matrix 'at any point of any history' where on-disk state matters.",
   "edge-dominance guard rules, reachability (effect-before-refusal), abstract interpretation for the decision table")
_p("C08",
   "Decides: every Result-returning VolumeManager method takes the RefCell with try_borrow[_mut] mapped to LockError before any non-delegating call (LK1, LK2); every raw-handle parameter is validated before any effect / Ok (HV1); handles "
   "come only from generate() which advances the counter by one (HV2); pushes are bounded by !is_full / mapped to the table's own TooMany* error, closes remove from the matching table (CP1); close_volume / open_raw_volume scan first (CP2); "
   "has_open_handles truth table (HQ1); internal root handle of get_root_volume_label closed on all exits (RL1); refusals have no effect (MD7). KNOWN FINDING F11: open_root_dir does not validate its RawVolume (see known_findings.json).",
   "dominance / guard rules over all 23 public methods, who-constructs scan, truth-table by abstract execution")
_p("C09",
   "Decides the three structural facts the guarantee reduces to under atomic ordered block writes: (1) at Ok of flush/close everything the entry refers to was already written through (WT1, OR4, FL1); (2) later operations rewrite a block only from its current "
   "device contents plus their own slot/entry (BM1, WT1, BC1-3,5); (3) they touch only their own FAT entry / 32-byte slot, and an open file is identified by its slot (FT1, FT2, MD9/MD9x). Declined: the end-to-end statement over all histories (needs the global no-cross-link invariant of C03).",
   "event-language inclusion (CFG x DFA) and guard rules")
_p("C10",
   "Decides the write order of every mutating operation for all crash points at once (a crash point is a prefix of a path's write events): end-mark < zero < link in allocation (OR1), terminate < free < entry in truncate-open (OR2), slot < chain release in delete (OR6), "
   "info sector < entry in flush (OR4), primary < duplicate FAT (BC4), complete initialisation of new directory clusters (OR5). KNOWN FINDING F10: make_dir writes the parent entry before allocating and before initialising the new cluster (two crash windows). Declined: 'the medium mounts' and global no-cross-link conclusions.",
   "safety automata over MIR paths (CFG x DFA product)")
_p("C11",
   "Decides the fate of every device failure at every call where it can surface (170+ sites incl. failures surfacing as another variant through callee summaries): propagated or converted to a returned Err, never absorbed into success, continued I/O or a panic (EF1); close removes the handle even if the flush failed (FL2); "
   "no write_back after a failed load (EF3); the cache tag is invalidated before a read that may fail (BC1); walkers stop only on EndOfFile (LS4). Exempt: Drop impls. Declined: 'files not involved are intact on the medium' (image property) and 'never hangs' on corrupted chains.",
   "error-fate dataflow with bottom-up function summaries over the call graph")
_p("C12",
   "Decides what the driver emits, not what the card does: byte vs block addressing table identical in read and write (SD7); CSD layout per card kind per spec table (SD8) and every CSD field accessor bit-exact (SD8b), capacity formulas as expression structure (SD8c); single/multi block framing language with the caller's buffers in order (SD6); "
   "card identification decisions (SD14); init before use (SD5). Declined: equality of data with the card's contents, multi == sequence of single, card timings.",
   "decision-table extraction, bit-vector abstract interpretation against the CSD bit table, event-language inclusion")
_p("C13",
   "Decides: read_data returns Ok only under token == 0xFE and (CRC off or received BE CRC == crc16(buffer)), always transferring payload then 2 CRC bytes (SD9); write_data Ok only under accepted response, single write Ok only under CMD13 == 0 and status byte 0 (SD10); SPI calls only in three wrappers mapping to Transport, no driver error absorbed (SD11); "
   "every loop is a bounded for or passes Delay::delay(..)? on every cycle with a finite budget created outside the loop (SD12); card_type stored once, no Err after it (SD13). With CR2 (C19) this gives 'any CRC-16-detectable corruption is an error'. Declined: behaviour of an adversarial card beyond 'bounded and reported'.",
   "guard rules, error-fate analysis over the driver, loop/ranking-function rule")
_p("C14",
   "Decides: constants equal the SD spec table (SD1); frame = 0x40|cmd, big-endian arg, crc7(frame[0..5]) stored before the write (SD2) with the end bit by CR1; no frame before wait_not_busy except CMD0/CMD12 (SD3); ACMDs only via card_acmd = CMD55 immediately followed by the command (SD4); data commands only after check_init Ok (SD5); "
   "read/write framing incl. stop-transmission / stop token (SD6, SD9, SD10); identification order and arguments (SD14, SD13). Declined: legality under all card timings; resynchronisation after mid-transfer errors.",
   "term matching of the frame array, guard rules, event-language inclusion")
_p("C15",
   "Decides: panic-freedom of open_raw_volume -> parse_volume -> BPB / FSInfo parsing for arbitrary bytes and arbitrary partition start/size - every overflow, underflow, division and bounds assertion and every unwrap/slice obligation is discharged (MT1, ~85 obligations) with the helper summary checked (MT0); every BPB/FSInfo accessor reads the spec offset bit-exactly, labels and signatures (MT3); "
   "layout terms of both FAT types incl. sibling agreement on the root-directory size (MT2); acceptance decisions and MBR constants (MT4). Declined: 'files placed by an independent formatter are read correctly' (needs execution; MT2/MT3 are its structural part); later arithmetic on geometry (cluster_to_block) for corrupted FAT contents.",
   "interval + symbolic-term abstract interpretation with path partitioning and bounded inlining; bit-vector interpretation for field offsets")
_p("C16",
   "Decides: every FAT update hits both copies, primary first, duplicate index with the same offset (FT1, FT2, BC4); the stored free count is paired with every free/alloc, saturating (FT7), delete pairs its frees (FT8); unknown stays unknown and each field is written when known independently of the other (IS1, IS4); record offsets 488/492 at info_location, written by flush and volume close (IS2); "
   "the hint is used only inside the volume (IS3, FT5); the count never influences control flow (IS4). Declined: the numeric value of the hint written back when a stale hint is mounted and nothing is allocated.",
   "CFG x DFA pairing automata, guard rules, term matching")
_p("C17",
   "Decides: panic-freedom of the whole decode path on arbitrary bytes (LF1, 130+ obligations; staging vector by LF2 iterator-length bound, byte-store loop by the LF3 idiom); the unchecked UTF-8 view is reachable only with overflow == false and bytes are stored only as whole encode_utf8 results back to front (LF3); a long name is reported only under Complete && checksum match and the state is reset after every short entry in both FAT arms (LF4); "
   "the sequence state machine equals the spec table on all 256 rows (LF5); fragment extraction bit-exact (LF7); checksum fold (LF6). Declined: equality of the decoded string with lossy UTF-16 decoding of the joined fragments (depends on core::char::decode_utf16 over all inputs).",
   "interval abstract interpretation, iterator-length bound analysis, guard rules, abstract execution of the state machine on all rows")
_p("C18",
   "Decides: entry layout on both directions equals the FAT table bit-exactly (CD1, CD4, LS5); the date/time codec field by field for all values with all other bits symbolic (independence), and both round trips on the valid domains by composing the verified field tables (CD2); the 8.3 parser's per-character step for every Latin-1 code point + representatives above, every position and dot state, initial fill and special names (CD3, ~3600 rows quick / 6300 thorough). "
   "Declined: parse(display(n)) == n as a string-level equality (Display goes through core::fmt); the optional hook H1 is not needed.",
   "bit-vector abstract interpretation, field-wise exhaustive abstract execution with symbolic complement, loop-step decision tables")
_p("C19",
   "Proof: for both CRCs, init = 0, the loop body's transfer function equals the reference division step by the SD polynomial for every (remainder, byte) - 256 paths x 7 bits (crc7) and 1 path x 16 bits (crc16) as GF(2)-affine form equalities under the path constraints - and the exit function is (r<<1)|1 resp. identity; by induction on the message length the functions equal the specified remainders for every byte string. "
   "Consequences (burst <= 16, odd weight, double-bit within 514 bytes, self-check = 0) by polynomial algebra (CR3). Use sites (CR4).",
   "bit-vector affine abstract interpretation of the loop body (exact), reference matrix computed from the polynomial, induction over message length",
   level="proof")
