"""CR1-CR4: crc7 / crc16 equal the SD polynomials for every message (BV engine, proof level)."""
from .framework import rule, Undecided as RuleUndecided
from .absint import Interp, State, Undecided
from .absval import (TOPBIT, agg, bits_of, const, is_int, mk_int, ptr, sym_int, TOP, int_const)
from .mir import callee_of, tstr, path_matches
from .stdmodel import some
from .fsmodel import call_matches


def _loop_parts(fn):
    """outer loop of a `for x in slice` function: (header, next-call block, dest local, body entry, exit target)"""
    loops = fn.loops()
    outer = None
    for (h, body, backs) in loops:
        for b in body:
            t = fn.term(b)
            if t["k"] == "Call" and (callee_of(t) or "").endswith("Iterator::next") and ("slice" in t.get("callee_full", "") or "core::ops::Range<usize>" in t.get("callee_full", "")):
                if outer is None or len(body) > len(outer[1]):
                    outer = (h, body, backs, b, t)
    if outer is None:
        raise KeyError("no loop over the message bytes (slice iterator or 0..len index range) in %s" % fn.npath)
    h, body, backs, nb, nt = outer
    sw = nt["target"]
    kind = "slice" if "slice" in nt.get("callee_full", "") else "range"
    if kind == "range":
        _check_index_loop(fn, body, nb, nt)
    else:
        # the slice iterated is the message itself, all of it: `for b in data` / `data.iter()` - not `&data[..n]`, not a
        # clamped or re-sliced view (bytes left out never enter the remainder)
        from .mir import strip_refs, tstr
        from .dataflow import var_def_terms
        it = strip_refs(fn.term_of_operand(nt["args"][0], nb))
        defs = var_def_terms(fn, it[1]) if it[0] == "var" else [it]
        ok = False
        for d in defs:
            d = strip_refs(d)
            for _k in range(6):
                if d[0] == "call" and d[1] and d[1].split("::")[-1] in ("into_iter", "iter", "copied", "cloned") and d[2]:
                    d = strip_refs(d[2][0])
                elif d[0] == "place" and all(e == "*" for e in d[2]):
                    d = strip_refs(d[1])
                elif d[0] == "var":
                    dd = var_def_terms(fn, d[1])
                    if len(dd) != 1:
                        break
                    d = strip_refs(dd[0])
                else:
                    break
            ok = ok or d[:2] == ("arg", 1)
        if not ok or len(defs) != 1:
            raise KeyError("the loop of %s does not run over the whole message argument (iterator: %s)" % (fn.npath, [tstr(x)[:80] for x in defs]))
    return h, body, nb, nt, sw, kind


def _check_index_loop(fn, body, nb, nt):
    """`for i in 0..data.len() { .. data[i] .. }`: the range is exactly 0..len(message) and every read of the message in
    the body is message[i] for the loop's own i (so each byte is folded once, in order)."""
    from .mir import strip_refs, subterms, tstr, find_sub
    from .dataflow import var_def_terms
    it = strip_refs(fn.term_of_operand(nt["args"][0], nb))
    defs = var_def_terms(fn, it[1]) if it[0] == "var" else [it]
    ok = False
    for d in defs:
        r = find_sub(d, ("agg", "Range", ["$a", "$b"]))
        if r is not None and r["$a"][:2] == ("c", 0):
            e = strip_refs(r["$b"])
            islen = (e[0] == "call" and e[1] and e[1].endswith("::len") and strip_refs(e[2][0])[:2] == ("arg", 1)) or (e[0] == "un" and e[1] == "PtrMetadata" and strip_refs(e[2])[:2] == ("arg", 1))
            ok = ok or islen
    if not ok or len(defs) != 1:
        raise KeyError("the index loop of %s does not run over 0..len(message) (iterator: %s)" % (fn.npath, [tstr(d)[:80] for d in defs]))
    item = lambda q: q[0] == "place" and tuple(q[2]) == ("as:Some", "0") and q[1][0] == "call" and q[1][3] == nb
    nreads = 0
    for b in body:
        terms = [fn.term_of_rvalue(s["rv"], b) for s in fn.blocks[b]["stmts"] if s["k"] == "Assign"]
        t = fn.term(b)
        if t["k"] == "Call":
            terms += [fn.term_of_operand(a, b) for a in t["args"]]
        for tt in terms:
            for q in subterms(tt):
                if q[0] == "place" and strip_refs(q[1])[:2] == ("arg", 1):
                    idx = [e for e in q[2] if isinstance(e, tuple) and e[0] == "idx"]
                    if not idx:
                        raise KeyError("the loop body of %s uses the message other than by message[i]" % fn.npath)
                    for e in idx:
                        nreads += 1
                        if not item(strip_refs(e[1])):
                            raise KeyError("the loop body of %s reads message[%s], not message[i] for the loop's own index" % (fn.npath, tstr(e[1])[:60]))
    if nreads == 0:
        raise KeyError("the index loop of %s never reads the message" % fn.npath)


def ref_step(crc_bits, byte_bits, poly, width):
    """Reference MSB-first CRC step over GF(2) forms. crc_bits/byte_bits: tuples of masks (LSB first)."""
    crc = list(crc_bits)
    for k in range(7, -1, -1):
        top = crc[width - 1] ^ byte_bits[k]
        crc = [0] + crc[: width - 1]
        for j in range(width):
            if (poly >> j) & 1:
                crc[j] ^= top
    return tuple(crc)


def _check_tables(F, R, fn, name, width, poly):
    """Constant lookup tables indexed by the CRC function: a 256-entry (or 16-entry) table must hold, for every index i,
    the remainder of i * x^width - the standard byte / nibble table of this polynomial - or the remainder itself shifted
    for the crc7 register convention; anything else is reported entry by entry.  Returns True when a table is used."""
    used = False
    for b, i, s in fn.stmts():
        if s["k"] == "Assign" and s["rv"]["k"] == "Use" and s["rv"]["op"].get("k") == "const" and s["rv"]["op"].get("tag") == "array" and s["rv"]["op"].get("def"):
            c = F.consts.get(s["rv"]["op"]["def"])
            if not c or c.get("elems") is None:
                continue
            used = True
            vals = [int(x) for x in c["elems"]]
            n = len(vals)
            if n not in (16, 256):
                continue
            k = n.bit_length() - 1
            def rem(i):
                r = i << (width - k) if width >= k else i >> (k - width)
                for _ in range(k):
                    top = (r >> (width - 1)) & 1
                    r = (r << 1) & ((1 << width) - 1)
                    if top:
                        r ^= poly
                return r
            want = [rem(i) for i in range(n)]
            alt = [(w << 1) & 0xFF for w in want] if width == 7 else None       # crc7 kept left-aligned in a byte
            badi = [i for i in range(n) if vals[i] != want[i]]
            if alt is not None:
                bada = [i for i in range(n) if vals[i] != alt[i]]
                if len(bada) < len(badi):
                    badi, want = bada, alt
            R.require(not badi, fn, name + ":table", "lookup table %s differs from the remainders of the polynomial %#x at %d entr%s; first: entry %#x is %#x, the remainder of %#x * x^%d is %#x" % (
                s["rv"]["op"]["def"].split("::")[-1], poly | (1 << width), len(badi), "y" if len(badi) == 1 else "ies", badi[0] if badi else 0, vals[badi[0]] if badi else 0, badi[0] if badi else 0, width, want[badi[0]] if badi else 0), fn.loc(b, i),
                okdetail="lookup table %s holds the %d remainders of the polynomial" % (s["rv"]["op"]["def"].split("::")[-1], n))
    return used


def _run_crc(F, R, name, width, poly, exit_check):
    fn = F.fn("sdcard::proto::" + name)
    _check_tables(F, R, fn, name, width, poly)
    try:
        return _run_crc_inner(F, R, fn, name, width, poly, exit_check)
    except RuleUndecided as e:
        # the byte step is not a GF(2)-affine function of (remainder, byte) on some path - a CRC step always is; a
        # data-dependent shortcut or a wider-than-byte fold is outside the induction this proof rests on
        R.bad(fn, name + ":step-not-affine", "%s: %s - equality with the polynomial remainder cannot be established for every message" % (name, e.args[0] if e.args else e), fn.loc(0))
        return 1, 0
    except (Undecided, KeyError) as e:
        # the proof is by induction over the message: init / one uniform byte step / exit.  A function that is not of that
        # shape (length-dependent fast paths, chunked or padded processing) is outside what this proof establishes, and a
        # proof-level check that cannot establish its claim fails.
        R.bad(fn, name + ":shape", "%s is not one uniform byte step folded over the message bytes in order (%s): equality with the polynomial remainder cannot be established for every message length" % (name, e.args[0] if e.args else e), fn.loc(0))
        return 1, 0


def _fold_site(fn):
    """`message.iter().fold(init, step)` (also through .cloned()/.copied()): (block, terminator) when the function folds the
    message that way and has no loop of its own, else None"""
    from .mir import strip_refs
    if fn.loops():
        return None
    hits = []
    for b, t in fn.calls():
        if (callee_of(t) or "").endswith("Iterator::fold") and "slice::Iter" in t.get("callee_full", ""):
            ct = fn.call_term(t, b)
            src = strip_refs(ct[2][0])
            while src[0] == "call" and src[1] and src[1].split("::")[-1] in ("cloned", "copied", "iter", "into_iter") and src[2]:
                src = strip_refs(src[2][0])
            if src[:2] == ("arg", 1):
                hits.append((b, t))
    return hits[0] if len(hits) == 1 else None


def _run_crc_fold(F, R, fn, name, width, poly, exit_check, site):
    """init / step / exit for a function of the form exit(message.iter().fold(init, step))"""
    from .mir import strip_refs
    I = Interp(F, mode="bv", max_paths=20000, max_steps=2000000)
    fb, ft = site
    obligations = discharged = 0
    ct = fn.call_term(ft, fb)
    init = strip_refs(ct[2][1])
    obligations += 1
    if init[:2] == ("c", 0) and fn.dominates(fb, fn.return_blocks()[0]) and len(fn.return_blocks()) == 1:
        discharged += 1
        R.ok(fn, name + ":init", "fold starts from 0 and every path runs through it")
    else:
        R.bad(fn, name + ":init", "the fold over the message does not start from remainder 0 on every path (init %s)" % tstr(init), fn.loc(fb))
    clo = strip_refs(ct[2][2])
    if not (clo[0] == "agg" and clo[1] == "Closure"):
        raise KeyError("the step of the fold in %s is not a closure literal" % name)
    c = F.closure(clo[2])
    cw = {"u8": 8, "u16": 16, "u32": 32}.get(fn.locals[ft["dest"]["l"]]["ty"])
    if cw is None:
        raise KeyError("the fold in %s does not produce an integer remainder" % name)
    st = State()
    crc0 = sym_int(I.vars, "c", cw)
    byte = sym_int(I.vars, "b", 8)
    ity = c.locals[3]["ty"] if len(c.locals) > 3 else "u8"
    item = I.heap_alloc(st, byte) if "&" in ity else byte
    outs = I.run(c, [TOP, crc0, item], st, 0)
    ref = ref_step(bits_of(crc0)[:width], bits_of(byte), poly, width)
    bad = None
    npaths = 0
    for (rv, s2) in outs:
        npaths += 1
        if not is_int(rv):
            raise RuleUndecided("fold step of %s left the bit-vector fragment (remainder is %r)" % (name, rv))
        nbits = bits_of(rv)
        for j in range(width):
            obligations += 1
            if nbits[j] == TOPBIT:
                raise RuleUndecided("bit %d of the remainder is not an affine form after one byte step of %s" % (j, name))
            d = s2.reduce(nbits[j] ^ ref[j])
            if d == 0:
                discharged += 1
            elif bad is None:
                bad = (j, I.vars.name_of_mask(nbits[j]), I.vars.name_of_mask(ref[j]))
    if npaths == 0:
        R.bad(fn, name + ":body", "no path through the fold step", fn.loc(fb))
    elif bad:
        R.bad(fn, name + ":step", "one byte step of %s is not division by the polynomial %#x: remainder bit %d is %s, the specification gives %s" % (name, poly | (1 << width), bad[0], bad[1], bad[2]), fn.loc(fb))
    else:
        R.ok(fn, name + ":step", "fold step equals the reference %d-bit CRC step (poly %#x, MSB first) on all %d paths x %d bits" % (width, poly | (1 << width), npaths, width), fn.loc(fb))
    st = State()
    crcx = sym_int(I.vars, "x", cw)
    outs = I.run(fn, [], st, 0, start=ft["target"], preset={ft["dest"]["l"]: crcx, 1: TOP})
    okx = bool(outs)
    for (rv, s2) in outs:
        obligations += 1
        if not is_int(rv):
            okx = False
            continue
        e = exit_check(bits_of(crcx), bits_of(rv))
        if e is None:
            discharged += 1
        else:
            okx = False
            R.bad(fn, name + ":exit", "final transformation of %s is wrong: %s" % (name, e), fn.loc(0))
    if okx:
        R.ok(fn, name + ":exit", "result derived from the remainder as specified")
    return obligations, discharged


def _peel_site(fn):
    """`let mut rest = message; while let [byte, tail @ ..] = rest { ..; rest = tail }`: (header, cursor local) when the
    function's one loop is driven by a slice cursor instead of an iterator, else None"""
    loops = fn.loops()
    if len(loops) != 1:
        return None
    h, body, backs = loops[0]
    if any(fn.term(b)["k"] == "Call" and (callee_of(fn.term(b)) or "").endswith("Iterator::next") for b in body):
        return None
    curs = []
    for i, l in enumerate(fn.locals):
        if i <= fn.arg_count or l["ty"].replace("&'_ ", "&") not in ("&[u8]",):
            continue
        ds = fn.defs().get(i, [])
        if any(d[1] in body for d in ds) and any(d[1] not in body for d in ds) and l.get("name"):
            curs.append(i)
    return (h, body, curs[0]) if len(curs) == 1 else None


def _run_crc_peel(F, R, fn, name, width, poly, exit_check, site):
    """init / step / exit for the slice-cursor form, decided by evaluating one trip of the loop from its header: with n
    bytes left (n = 1, 2, 5; every byte a different unknown) the trip folds exactly the first of them into the remainder by
    the reference step and leaves the cursor on the other n - 1; with 0 bytes left the function returns"""
    h, body, cur = site
    I = Interp(F, mode="bv", max_paths=20000, max_steps=2000000)
    before = fn.reach([0], cut_blocks=[h])
    cands = []
    for i, l in enumerate(fn.locals):
        if l["ty"] not in ("u8", "u16", "u32") or i == 0:
            continue
        ds = fn.defs().get(i, [])
        if any(d[0] == "assign" and d[1] in before and d[1] not in body for d in ds) and any(d[0] in ("assign", "call") and d[1] in body for d in ds):
            cands.append(i)
    if len(cands) != 1:
        raise KeyError("cannot identify the running-remainder variable in %s (candidates %s)" % (name, [fn.locals[i]["name"] for i in cands]))
    cl = cands[0]
    cw = {"u8": 8, "u16": 16, "u32": 32}[fn.locals[cl]["ty"]]
    obligations = discharged = 0
    step_ok, init_ok, bad = True, True, None
    for n in (1, 2, 5):
        st = State()
        syms = [sym_int(I.vars, "b%d_%d" % (n, k), 8) for k in range(n)]
        from .absval import arr as _arr
        cell = I.heap_alloc(st, _arr(syms))
        data = ptr(cell[1], cell[2], cell[3], (const(0, 64), const(n, 64)))
        outs = I.run(fn, [data], st, 0, stop=(h,))
        obligations += 1
        if len(outs) != 1 or not (isinstance(outs[0][0], tuple) and outs[0][0] and outs[0][0][0] == "stop"):
            init_ok = False
            R.bad(fn, name + ":early-return", "%s returns on some path without folding the message through the CRC loop (special-cased input?)" % name, fn.loc(0))
            continue
        rv, s1 = outs[0]
        fr = s1.frames[rv[2]]
        v = fr.get(cl)
        c0 = fr.get(cur)
        if not (is_int(v) and int_const(v) == 0):
            init_ok = False
            R.bad(fn, name + ":init", "initial remainder is %s, must be 0" % (I.show(v) if v else v), fn.loc(0))
        if not (c0 is not None and c0[:4] == data[:4] and c0[4] is not None and int_const(c0[4][0]) == 0 and int_const(c0[4][1]) == n):
            init_ok = False
            R.bad(fn, name + ":init", "the cursor does not start at the whole message", fn.loc(0))
        crc0 = sym_int(I.vars, "c%d" % n, cw)
        preset = dict(fr)
        preset[cl] = crc0
        o2 = I.run(fn, [], s1.fork(), 0, start=h, preset=preset, stop=(h,))
        ref = ref_step(bits_of(crc0)[:width], bits_of(syms[0]), poly, width)
        stops = [(r_, s_) for r_, s_ in o2 if isinstance(r_, tuple) and r_ and r_[0] == "stop"]
        if len(stops) != 1 or len(o2) != 1:
            step_ok = False
            bad = bad or "with %d byte(s) left the loop %s" % (n, "returns instead of folding them" if not stops else "has several outcomes")
            continue
        r_, s2 = stops[0]
        f2 = s2.frames[r_[2]]
        c1 = f2.get(cur)
        if not (c1 is not None and c1[:4] == data[:4] and c1[4] is not None and int_const(c1[4][0]) == 1 and int_const(c1[4][1]) == n - 1):
            step_ok = False
            bad = bad or "after one trip with %d byte(s) left the cursor is not on the remaining %d" % (n, n - 1)
        v = f2.get(cl)
        if not is_int(v):
            raise RuleUndecided("loop body of %s left the bit-vector fragment (remainder is %r)" % (name, v))
        nbits = bits_of(v)
        for j in range(width):
            obligations += 1
            if nbits[j] == TOPBIT:
                raise RuleUndecided("bit %d of the remainder is not an affine form after one byte step of %s" % (j, name))
            if s2.reduce(nbits[j] ^ ref[j]) == 0:
                discharged += 1
            else:
                step_ok = False
                bad = bad or "remainder bit %d is %s, the specification gives %s" % (j, I.vars.name_of_mask(nbits[j]), I.vars.name_of_mask(ref[j]))
    if init_ok:
        discharged += 3
        R.ok(fn, name + ":init", "remainder initialised to 0 and the cursor to the whole message on every path into the loop")
    if step_ok:
        R.ok(fn, name + ":step", "one trip folds exactly the first remaining byte by the reference %d-bit CRC step (poly %#x, MSB first) and advances the cursor by one" % (width, poly | (1 << width)), fn.loc(h))
    else:
        R.bad(fn, name + ":step", "one byte step of %s is not division by the polynomial %#x over each byte in turn: %s" % (name, poly | (1 << width), bad), fn.loc(h))
    # exit: nothing left
    st = State()
    cell = I.heap_alloc(st, ("arrtop", 0, 1 << 62, sym_int(I.vars, "m", 8)))
    crcx = sym_int(I.vars, "x", cw)
    endp = ptr(cell[1], cell[2], cell[3], (mk_int(64, False, None, 0, 1 << 62), const(0, 64)))
    outs = I.run(fn, [], st, 0, start=h, preset={cl: crcx, cur: endp, 1: TOP}, stop=(h,))
    okx = bool(outs)
    for (rv, s2) in outs:
        obligations += 1
        if not is_int(rv):
            okx = False
            continue
        e = exit_check(bits_of(crcx), bits_of(rv))
        if e is None:
            discharged += 1
        else:
            okx = False
            R.bad(fn, name + ":exit", "final transformation of %s is wrong: %s" % (name, e), fn.loc(0))
    if okx:
        R.ok(fn, name + ":exit", "result derived from the remainder as specified")
    else:
        R.bad(fn, name + ":exit", "with no bytes left %s does not return the remainder as specified" % name, fn.loc(0))
    return obligations, discharged


def _run_crc_inner(F, R, fn, name, width, poly, exit_check):
    site = _fold_site(fn)
    if site is not None:
        return _run_crc_fold(F, R, fn, name, width, poly, exit_check, site)
    site = _peel_site(fn)
    if site is not None:
        return _run_crc_peel(F, R, fn, name, width, poly, exit_check, site)
    I = Interp(F, mode="bv", max_paths=20000, max_steps=2000000)
    h, body, nb, nt, sw, kind = _loop_parts(fn)
    # the running remainder: the integer local initialised before the loop, updated inside it and read after it
    before = fn.reach([0], cut_blocks=[nb])
    cands = []
    for i, l in enumerate(fn.locals):
        if l["ty"] not in ("u8", "u16", "u32") or i == 0:
            continue
        ds = fn.defs().get(i, [])
        init = any(d[0] == "assign" and d[1] in before and d[1] not in body for d in ds)
        upd = any(d[0] in ("assign", "call") and d[1] in body for d in ds)
        if init and upd:
            cands.append(i)
    if len(cands) != 1:
        raise KeyError("cannot identify the running-remainder variable in %s (candidates %s)" % (name, [fn.locals[i]["name"] for i in cands]))
    cl = cands[0]
    cw = {"u8": 8, "u16": 16, "u32": 32}[fn.locals[cl]["ty"]]
    obligations = 0
    discharged = 0
    # ---- init: from entry to the loop header, crc must be 0; no path may return before the loop
    st = State()
    data_cell = I.heap_alloc(st, ("arrtop", 0, 1 << 62, sym_int(I.vars, "m", 8)))
    data = ptr(data_cell[1], data_cell[2], (), (const(0, 64), mk_int(64, False, None, 0, 1 << 62)))
    outs = I.run(fn, [data], st, 0, stop=(nb,))
    obligations += 1
    init_ok = bool(outs)
    for (rv, s2) in outs:
        if not (isinstance(rv, tuple) and rv and rv[0] == "stop"):
            init_ok = False
            R.bad(fn, name + ":early-return", "%s returns on some path without folding the message through the CRC loop (special-cased input?)" % name, fn.loc(0))
            continue
        v = s2.frames[rv[2]].get(cl)
        if not (is_int(v) and int_const(v) == 0):
            init_ok = False
            R.bad(fn, name + ":init", "initial remainder is %s, must be 0" % (I.show(v) if v else v), fn.loc(0))
    if init_ok:
        discharged += 1
        R.ok(fn, name + ":init", "remainder initialised to 0 on every path into the loop")
    # ---- body transfer function
    st = State()
    crc0 = sym_int(I.vars, "c", cw)
    byte = sym_int(I.vars, "b", 8)
    dest = nt["dest"]["l"]
    dty = fn.locals[dest]["ty"]
    if "&" in dty:
        cell = I.heap_alloc(st, byte)
        item = cell
    else:
        item = byte
    # iterator local etc. are irrelevant inside the body; args: data pointer unknown
    preset = {cl: crc0, dest: some(item), 1: TOP}
    if kind == "range":
        # `for i in 0..len`: i is any index, the message an array all of whose bytes are the symbolic byte (that every
        # read is message[i] for this i was checked structurally)
        mcell = I.heap_alloc(st, ("arrtop", 0, 1 << 62, byte))
        mptr = ptr(mcell[1], mcell[2], (), (const(0, 64), mk_int(64, False, None, 0, 1 << 62)))
        preset = {cl: crc0, dest: some(mk_int(64, False, None, 0, (1 << 62) - 1)), 1: mptr}
    outs = I.run(fn, [], st, 0, start=sw, preset=preset, stop=(nb,))
    ref = ref_step(bits_of(crc0)[:width], bits_of(byte), poly, width)
    npaths = 0
    bad = None
    for (rv, s2) in outs:
        if not (isinstance(rv, tuple) and rv and rv[0] == "stop"):
            continue  # the None edge (loop exit) is not taken with a Some item
        npaths += 1
        v = s2.frames[rv[2]].get(cl)
        if not is_int(v):
            raise RuleUndecided("loop body of %s left the bit-vector fragment (remainder is %r)" % (name, v))
        nbits = bits_of(v)
        for j in range(width):
            obligations += 1
            if nbits[j] == TOPBIT:
                raise RuleUndecided("bit %d of the remainder is not an affine form after one byte step of %s" % (j, name))
            d = s2.reduce(nbits[j] ^ ref[j])
            if d == 0:
                discharged += 1
            elif bad is None:
                bad = (j, I.vars.name_of_mask(nbits[j]), I.vars.name_of_mask(ref[j]), [I.vars.name_of_mask(c) for c in s2.cons])
    if npaths == 0:
        R.bad(fn, name + ":body", "no path through the loop body", fn.loc(nb))
    elif bad:
        R.bad(fn, name + ":step", "one byte step of %s is not division by the polynomial %#x: remainder bit %d is %s, the specification gives %s (under path condition %s)" % (name, poly | (1 << width), bad[0], bad[1], bad[2], bad[3]), fn.loc(nb))
    else:
        R.ok(fn, name + ":step", "byte step equals the reference %d-bit CRC step (poly %#x, MSB first) on all %d paths x %d bits" % (width, poly | (1 << width), npaths, width), fn.loc(nb))
    # ---- exit function
    st = State()
    crcx = sym_int(I.vars, "x", cw)
    from .stdmodel import NONE
    outs = I.run(fn, [], st, 0, start=sw, preset={cl: crcx, dest: NONE, 1: TOP})
    okx = bool(outs)
    for (rv, s2) in outs:
        obligations += 1
        if isinstance(rv, tuple) and rv and rv[0] == "stop":
            okx = False
            continue
        if not is_int(rv):
            okx = False
            continue
        e = exit_check(bits_of(crcx), bits_of(rv))
        if e is None:
            discharged += 1
        else:
            okx = False
            R.bad(fn, name + ":exit", "final transformation of %s is wrong: %s" % (name, e), fn.loc(0))
    if okx:
        R.ok(fn, name + ":exit", "result derived from the remainder as specified")
    return obligations, discharged


def _exit_crc7(c, r):
    # result = (crc << 1) | 1 over the 7 significant bits
    if r[0] != 1:
        return "end bit (bit 0) is not 1"
    for j in range(7):
        if r[j + 1] != c[j]:
            return "result bit %d is not remainder bit %d" % (j + 1, j)
    return None


def _exit_crc16(c, r):
    for j in range(16):
        if r[j] != c[j]:
            return "result bit %d differs from remainder bit %d (no final xor / reflection expected)" % (j, j)
    return None


PROOF = {"obligations": 0, "discharged": 0}


@rule("CR1", ["C19"], floor=3,
      doc="crc7: init 0; one byte step = division step by x^7+x^3+1 (MSB first) for every (remainder, byte); result = (remainder << 1) | 1 (end bit)")
def cr1(F, R):
    o, d = _run_crc(F, R, "crc7", 7, 0x09, _exit_crc7)
    PROOF["obligations"] += o
    PROOF["discharged"] += d


@rule("CR2", ["C19"], floor=3,
      doc="crc16: init 0; one byte step = division step by x^16+x^12+x^5+1 (MSB first, no reflection) for every (remainder, byte); no final xor")
def cr2(F, R):
    o, d = _run_crc(F, R, "crc16", 16, 0x1021, _exit_crc16)
    PROOF["obligations"] += o
    PROOF["discharged"] += d


def _polymod(a, g):
    dg = g.bit_length() - 1
    while a.bit_length() - 1 >= dg and a:
        a ^= g << (a.bit_length() - 1 - dg)
    return a


@rule("CR3", ["C19"], floor=4,
      doc="consequences of CR2 by polynomial algebra over GF(2): g(0)=1 so every burst <= 16 bits is detected; (x+1) | g so every odd-weight error is detected; ord(x mod g) = 32767 > 4112 so every double-bit error in a 514-byte frame is detected; crc(m || be(crc(m))) = 0 by linearity")
def cr3(F, R):
    g = (1 << 16) | 0x1021
    R.require(g & 1 == 1, None, "burst<=16", "g(x) has no constant term")
    R.require(_polymod(g, 0b11) == 0, None, "odd-weight", "(x+1) does not divide g(x)")
    # order of x modulo g
    x = 2
    p = x
    order = 1
    while p != 1 and order < 70000:
        p = _polymod(p << 1, g)
        order += 1
    R.require(order == 32767, None, "double-bit", "ord(x mod g) = %d, expected 32767" % order, okdetail="ord(x mod g) = 32767 > 514*8 = 4112 bits")
    # appending the remainder gives remainder 0: (m*x^16 + r) mod g with r = m*x^16 mod g
    ok = True
    for m in (1, 0xABCDEF, (1 << 100) + 12345):
        r = _polymod(m << 16, g)
        ok = ok and _polymod(((m << 16) ^ r) << 16, g) == 0 or _polymod((m << 16) ^ r, g) == 0
    R.require(ok, None, "self-check", "appending the remainder does not give remainder 0")
    PROOF["obligations"] += 4
    PROOF["discharged"] += 4


@rule("CR4", ["C19", "C14"], floor=3,
      doc="use sites: crc7 over the first five frame bytes in card_command; crc16 over the received payload in read_data and over the sent payload in write_data, big-endian on the wire")
def cr4(F, R):
    n7 = n16 = 0
    for f in F.fns:
        if f.npath.startswith("sdcard::proto::test"):
            continue
        for b, t in f.calls():
            if call_matches(t, ("sdcard::proto::crc7",)):
                n7 += 1
                R.require(f.npath.endswith("SdCardInner::card_command"), f, "crc7-site", "crc7 used in %s" % f.npath, f.loc(b))
            if call_matches(t, ("sdcard::proto::crc16",)):
                n16 += 1
                R.require(f.npath.endswith(("SdCardInner::read_data", "SdCardInner::write_data")), f, "crc16-site", "crc16 used in %s" % f.npath, f.loc(b))
    R.require(n7 == 1 and n16 == 2, None, "site-count", "expected 1 crc7 and 2 crc16 use sites, found %d / %d" % (n7, n16))
    # frames that do not go through card_command's assembly: a constant six-byte command frame (start bits 01) anywhere in the
    # driver must end in the CRC-7 of its first five bytes with the end bit set
    def crc7_of(bs):
        crc = 0
        for d in bs:
            for _ in range(8):
                crc = (crc << 1) & 0xFF
                if (d ^ crc) & 0x80:
                    crc ^= 0x09
                d = (d << 1) & 0xFF
        return ((crc << 1) | 1) & 0xFF
    frames = []
    for path, c in F.consts.items():
        if path.startswith("sdcard::") and "::test" not in path and c.get("elems") is not None and len(c["elems"]) == 6 and c.get("ty", "").replace(" ", "") == "[u8;6]":
            frames.append((path, [int(x) for x in c["elems"]]))
    for f in F.fns:
        if not f.npath.startswith("sdcard::") or f.npath.startswith("sdcard::proto::test"):
            continue
        for b, i, s_ in f.stmts():
            if s_["k"] == "Assign" and s_["rv"]["k"] == "Aggregate" and s_["rv"]["agg"] == "Array" and len(s_["rv"]["ops"]) == 6:
                vals = [f.term_of_operand(o, b) for o in s_["rv"]["ops"]]
                if all(v[0] == "c" and isinstance(v[1], int) for v in vals) and f.locals[s_["p"]["l"]]["ty"].replace(" ", "") == "[u8;6]":
                    frames.append(("%s (%s)" % (f.npath, f.loc(b, i)), [v[1] & 0xFF for v in vals]))
    for where, bs in frames:
        if bs[0] & 0xC0 != 0x40:
            continue
        R.require(bs[5] == crc7_of(bs[:5]), None, "constant-frame:" + where.split("::")[-1][:40], "the constant command frame %s in %s does not end in the CRC-7 of its first five bytes with the end bit set (%#04x expected)" % (["%02x" % x for x in bs], where, crc7_of(bs[:5])))
