"""Run the mirfacts driver over a source tree and load the fact file.

Freshness discipline (DESIGN 2.1): one persistent target dir per feature configuration
under /verif/.cache; the member crate's fingerprint is deleted before each run, the
output path carries a per-run nonce, and a missing fact file aborts with exit 2.
"""
import hashlib
import json
import os
import shutil
import subprocess
import sys
import time
import glob

VERIF = os.path.dirname(os.path.dirname(os.path.abspath(__file__)))
CACHE = os.environ.get("VERIF_CACHE", os.path.join(VERIF, ".cache"))
DRIVER_DIR = os.path.join(VERIF, "tools", "mirfacts")
DRIVER = os.path.join(DRIVER_DIR, "target", "debug", "mirfacts")

CONFIGS = {
    "log": [],  # default features
    "nofeat": ["--no-default-features"],
    "defmt": ["--no-default-features", "--features", "defmt-log"],
}


class ExtractError(Exception):
    pass


def sysroot():
    return subprocess.check_output(["rustc", "+nightly", "--print", "sysroot"], text=True).strip()


_SYSROOT = None


def env_for(out, cfg):
    global _SYSROOT
    if _SYSROOT is None:
        _SYSROOT = sysroot()
    e = dict(os.environ)
    e["LD_LIBRARY_PATH"] = _SYSROOT + "/lib" + (":" + e["LD_LIBRARY_PATH"] if e.get("LD_LIBRARY_PATH") else "")
    e["RUSTFLAGS"] = "-Zmir-opt-level=0 -Awarnings"
    e["RUSTC_WORKSPACE_WRAPPER"] = DRIVER
    e["MIRFACTS_OUT"] = out
    e["MIRFACTS_CFG"] = cfg
    e["CARGO_NET_OFFLINE"] = "true"
    e.pop("RUSTC_WRAPPER", None)
    return e


def build_driver():
    """Build the driver if the binary is missing or older than its source."""
    src = os.path.join(DRIVER_DIR, "src", "main.rs")
    if os.path.exists(DRIVER) and os.path.getmtime(DRIVER) >= os.path.getmtime(src):
        return
    e = dict(os.environ)
    e["CARGO_NET_OFFLINE"] = "true"
    r = subprocess.run(["cargo", "build", "--offline"], cwd=DRIVER_DIR, env=e, capture_output=True, text=True)
    if r.returncode != 0 or not os.path.exists(DRIVER):
        sys.stderr.write(r.stdout + r.stderr)
        raise ExtractError("cannot build mirfacts driver")


def extract(repo="/repo", cfg="log", target_dir=None, keep=False):
    """Return (facts dict, info dict). Raises ExtractError when no fresh fact file exists."""
    build_driver()
    os.makedirs(CACHE, exist_ok=True)
    tdir = target_dir or os.path.join(CACHE, "target-" + cfg)
    os.makedirs(tdir, exist_ok=True)
    nonce = "%d-%d" % (os.getpid(), time.time_ns())
    out = os.path.join(CACHE, "facts-%s-%s.json" % (cfg, nonce))
    t0 = time.time()
    cmd = ["cargo", "+nightly", "check", "--offline", "--lib"] + CONFIGS[cfg]
    e = env_for(out, cfg)
    e["CARGO_TARGET_DIR"] = tdir
    # serialise concurrent checks on the shared per-configuration target dir
    import fcntl
    with open(tdir.rstrip("/") + ".lock", "w") as lk:
        fcntl.flock(lk, fcntl.LOCK_EX)
        # force the member crate to be re-checked by our wrapper
        for fp in glob.glob(os.path.join(tdir, "debug", ".fingerprint", "embedded-sdmmc-*")):
            shutil.rmtree(fp, ignore_errors=True)
        r = subprocess.run(cmd, cwd=repo, env=e, capture_output=True, text=True)
    if r.returncode != 0:
        sys.stderr.write(r.stdout[-4000:] + r.stderr[-8000:])
        raise ExtractError("cargo check failed for %s (cfg %s)" % (repo, cfg))
    if not os.path.exists(out):
        sys.stderr.write(r.stderr[-4000:])
        raise ExtractError("fact file not written by this run (stale cache?)")
    raw = open(out, "rb").read()
    if not keep:
        os.unlink(out)
    facts = json.loads(raw)
    info = {
        "cfg": cfg,
        "repo": repo,
        "sha256": hashlib.sha256(raw).hexdigest(),
        "bytes": len(raw),
        "bodies": len(facts["bodies"]),
        "extract_s": round(time.time() - t0, 2),
        "rustc": facts.get("rustc"),
        "overflow_checks": facts.get("overflow_checks"),
    }
    if not facts.get("overflow_checks"):
        raise ExtractError("overflow checks are off in this build; Assert obligations would be missing")
    return facts, info


if __name__ == "__main__":
    cfg = sys.argv[1] if len(sys.argv) > 1 else "log"
    repo = sys.argv[2] if len(sys.argv) > 2 else "/repo"
    f, i = extract(repo, cfg)
    print(json.dumps(i, indent=1))
