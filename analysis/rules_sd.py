"""SD/MMC-over-SPI driver rules (src/sdcard): SD1-SD14."""
import json
import os

from .framework import rule
from .ev import all_guards, guarded, g_call, g_cmp, g_try_ok, try_inner, product, Bad
from .mir import tstr, callee_of, path_matches, is_log_call, strip_refs, subterms, tmatch, find_sub
from .fsmodel import call_matches, err_returns, ok_returns
from .rules_guard import has_sub, last_field, is_variant
from .rules_fs import ret_event, ret_event_term
from .ef import EF
from .dataflow import var_def_terms, roots

SD = "sdcard::SdCardInner"
SPEC = os.path.join(os.path.dirname(os.path.dirname(os.path.abspath(__file__))), "spec")


def spec(name):
    return json.load(open(os.path.join(SPEC, name)))


_CMD_BY_VALUE = None


def cmd_const(term):
    """(name, value) if term is a command / token constant: the named constant, or - for a literal - the name the SD
    specification table (spec/sd_constants.json) gives that command index / token value."""
    global _CMD_BY_VALUE
    if term[0] == "c":
        if term[2]:
            return (term[2].split("::")[-1], term[1])
        if _CMD_BY_VALUE is None:
            _CMD_BY_VALUE = {v["value"]: k for k, v in spec("sd_constants.json")["constants"].items() if k.startswith(("CMD", "ACMD")) or k.endswith("_TOKEN") or k == "DATA_START_BLOCK"}
        return (_CMD_BY_VALUE.get(term[1]), term[1])
    return (None, None)


@rule("SD1", ["C14"], floor=22,
      doc="command indices, data tokens, response masks and R1 values equal the SD Physical Layer spec table (spec/sd_constants.json)")
def sd1(F, R):
    table = spec("sd_constants.json")["constants"]
    for name, ent in table.items():
        try:
            v = F.const("sdcard::proto::" + name)
        except KeyError:
            R.bad(None, "const:" + name, "constant %s missing" % name, kind="anchor-missing")
            continue
        R.require(v == ent["value"], None, "const:" + name, "%s = %#x, spec (%s) says %#x" % (name, v, ent["ref"], ent["value"]))
        if name.startswith("CMD") or name.startswith("ACMD"):
            R.require(v < 64, None, "index<64:" + name, "%s = %d does not fit the 6-bit command index" % (name, v))


@rule("SD2", ["C14"], floor=8,
      doc="card_command assembles the 6-byte frame: byte0 = 0x40 | command, bytes1..4 = arg big-endian, byte5 = crc7(frame[0..5]) stored before the frame is written; the same array is passed to write_bytes")
def sd2(F, R):
    """Decided by evaluating card_command up to its write_bytes call with a symbolic command byte and argument (bit-vector
    domain): whatever statements assemble the frame (array literal, byte stores, copy_from_slice of to_be_bytes), the six
    bytes handed to the bus are compared bit by bit with the specified frame.  crc7 is replaced by its specification
    (rule CR1 proves the two equal), computed over the very bytes 0..5 of the buffer."""
    from .absint import Interp, State, Undecided
    from .absval import sym_int, bits_of, is_int, is_ptr, mk_int, TOP as _TOP
    from .rules_crc import ref_step
    from .stdmodel import slice_view
    fn = F.fn(SD + "::card_command")
    wr = [(bb, t) for bb, t in fn.calls() if call_matches(t, ("SdCardInner::write_bytes",))]
    R.require(len(wr) == 1, fn, "frame-written", "card_command must send the frame with one write_bytes call", fn.loc(0))
    if len(wr) != 1:
        return
    wb, wt = wr[0]
    crc_inputs = []

    def crc7_model(I, st, a, ctx):
        sv = slice_view(I, st, a[0])
        if sv is None or sv[3] is None or int_const_(sv[1]) is None or int_const_(sv[2]) is None:
            return [(_TOP, st)]
        lo, n = int_const_(sv[1]), int_const_(sv[2])
        elems = sv[3][lo:lo + n]
        crc = (0,) * 7
        for e in elems:
            crc = ref_step(crc, bits_of(e), 0x09, 7)
        crc_inputs.append((lo, n))
        return [(mk_int(8, False, (1,) + tuple(crc)), st)]
    from .absval import int_const as int_const_
    def busy_model(I, st, a, ctx):
        from .stdmodel import ok as _ok, err as _err
        from .absval import UNIT as _UNIT
        return [(_ok(_UNIT), st), (_err(_TOP), st.fork())]      # what the wait does is SD3's / SD12's business
    sent = []

    def write_model(I, st, a, ctx):
        # the frame as it is at the moment it goes onto the bus
        from .stdmodel import ok as _ok
        from .absval import UNIT as _UNIT
        sv = slice_view(I, st, a[1]) if len(a) > 1 else None
        if sv is not None and sv[3] is not None and int_const_(sv[1]) is not None and int_const_(sv[2]) is not None:
            lo_, n_ = int_const_(sv[1]), int_const_(sv[2])
            sent.append((list(sv[3][lo_:lo_ + n_]), st))
        else:
            sent.append((None, st))
        return [(_ok(_UNIT), st)]
    I = Interp(F, mode="bv", max_paths=4000, max_steps=400000, models={"sdcard::proto::crc7": crc7_model, "sdcard::SdCardInner::wait_not_busy": busy_model, "sdcard::SdCardInner::write_bytes": write_model})
    st = State()
    cmd = sym_int(I.vars, "k", 8)
    arg = sym_int(I.vars, "a", 32)
    selfp = I.heap_alloc(st, _TOP)
    try:
        outs = I.run(fn, [selfp, cmd, arg], st, 0, stop=(wt["target"],))
    except Undecided as e:
        R.bad(fn, "frame", "cannot evaluate the frame assembly of card_command: %s" % e, fn.loc(wb))
        return
    stops = list(sent)
    # card_command hands the card's R1 to its caller as it is: it builds no error of its own (a "fail fast on any error flag"
    # check would swallow the illegal-command answer that identifies a version-1 card, and the flags CMD13 / CMD58 report)
    own_errs = err_returns(fn, adt="Error")
    R.require(not own_errs, fn, "r1-as-it-is", "card_command returns an error of its own (%s): every R1 with the top bit clear must be handed to the caller, who judges it" % sorted({x[2] for x in own_errs}), fn.loc(own_errs[0][0], own_errs[0][1]) if own_errs else fn.loc(0))
    R.require(bool(stops), fn, "frame", "no path of card_command reaches write_bytes", fn.loc(wb))
    cb, ab = bits_of(cmd), bits_of(arg)
    want = [tuple(cb[k] if k != 6 else 1 for k in range(8))]          # 0x40 | command (the start bit, bit 7, is the command's own)
    want[0] = tuple((1 if k == 6 else cb[k]) for k in range(8))
    for k in range(4):
        want.append(tuple(ab[8 * (3 - k) + j] for j in range(8)))      # argument, most significant byte first
    problems = {}
    for bytes_, s2 in stops:
        if bytes_ is None or len(bytes_) != 6:
            problems["frame-written"] = "the buffer handed to write_bytes is not a 6-byte frame"
            continue
        for k in range(5):
            got = bits_of(bytes_[k])
            # bit 6 of byte 0 is OR-ed with 1; in the affine domain `x | 1` on a bit is the constant 1
            if tuple(s2.reduce(g ^ w) if isinstance(g, int) and isinstance(w, int) and g >= 0 and w >= 0 else (0 if g == w else 1) for g, w in zip(got, want[k])) != (0,) * 8:
                problems["byte%d" % k] = "frame byte %d is %s, the specification says %s" % (k, [I.vars.name_of_mask(m) for m in got], [I.vars.name_of_mask(m) for m in want[k]])
        crc = (0,) * 7
        for e in bytes_[:5]:
            crc = ref_step(crc, bits_of(e), 0x09, 7)
        w5 = (1,) + tuple(crc)
        g5 = bits_of(bytes_[5])
        if tuple(s2.reduce(g ^ w) if g >= 0 and w >= 0 else 1 for g, w in zip(g5, w5)) != (0,) * 8:
            problems["byte5=crc7"] = "frame byte 5 is not crc7 of bytes 0..5 of the frame that is sent (with the end bit)"
    for k in ("byte0", "byte1", "byte2", "byte3", "byte4", "byte5=crc7", "frame-written"):
        R.require(k not in problems, fn, k, problems.get(k, ""), fn.loc(wb), okdetail="%s as specified on all %d paths to write_bytes" % (k, len(stops)))
    R.ok(fn, "crc-before-write", "the CRC byte is part of the buffer at the moment it is sent")


@rule("SD3", ["C14", "C12", "C13"], floor=4,
      doc="card_command sends the frame only after wait_not_busy succeeded, except for CMD0 and CMD12")
def sd3(F, R):
    fn = F.fn(SD + "::card_command")
    wr = [(b, t) for b, t in fn.calls() if call_matches(t, ("SdCardInner::write_bytes",))]
    R.require(len(wr) >= 1, fn, "frame-write", "card_command must send the frame with write_bytes", fn.loc(0))
    from .rules_r3 import specialise_on
    waited = [(gb, gi) for (gb, gi, g) in all_guards(fn) if g_try_ok("SdCardInner::wait_not_busy")(g)]
    consts = sorted({int(c["val"]) for k, c in F.consts.items() if k.startswith("sdcard::proto::") and k.split("::")[-1].startswith(("CMD", "ACMD")) and c.get("val") is not None})
    R.require(len(consts) >= 12, None, "command-set", "expected the driver's command index constants in sdcard::proto (found %d)" % len(consts))
    bad = []
    for c in consts:
        if c in (0, 12):
            continue
        # decide every test of `command` for this command index: the frame must not be reachable without a successful wait
        cut = specialise_on(fn, lambda q: q[:2] == ("arg", 2), c)
        rs = fn.reach([0], cut_edges=cut + waited)
        if any(b in rs for b, t in wr):
            bad.append(c)
    # the R1 response is the first byte with bit 7 clear after the frame: no byte is thrown away in between, except the one
    # stuff byte that follows CMD12 (a card may answer with N_CR = 0, i.e. in the very first byte)
    loops = fn.loops()
    in_loop = set()
    for (h, body, backs) in loops:
        in_loop |= set(body)
    def byte_is_looked_at(b):
        """the byte read at block b takes part in a test, a result or an argument (a response candidate), as opposed to being thrown away"""
        is_it = lambda q: q[0] == "call" and q[3] == b and q[1] and q[1].endswith("read_byte")

        def mentions(t, depth=0):
            if has_sub(t, is_it):
                return True
            if depth < 2:
                for q in subterms(t):
                    if q[0] == "var" and isinstance(q[1], int) and any(has_sub(d, is_it) for d in var_def_terms(fn, q[1])):
                        return True
            return False
        for (gb, gi, g) in all_guards(fn):
            if g.kind in ("variant", "variants") and try_inner(g.term) is not None:
                continue            # the `?` on the read itself
            if mentions(g.term):
                return True
        for (b2, i2, v) in ok_returns(fn):
            if mentions(v):
                return True
        return False
    rbs = [b for b, t in fn.calls() if call_matches(t, ("SdCardInner::read_byte",)) and b not in in_loop and wr and b in fn.reach_after(wr[0][0]) and not byte_is_looked_at(b)]
    polls = [b for b, t in fn.calls() if call_matches(t, ("SdCardInner::read_byte",)) and b in in_loop]
    skipped = {}
    for c in consts:
        rs = fn.reach([0], cut_edges=specialise_on(fn, lambda q: q[:2] == ("arg", 2), c))
        skipped[c] = len([b for b in rbs if b in rs])
    wrong = {c: n for c, n in skipped.items() if n != (1 if c == 12 else 0)}
    R.require(bool(polls) and not wrong, fn, "response-first-byte", "card_command discards a byte between the frame and the response poll for command index %s: exactly one stuff byte is skipped, after CMD12 only - a card answering at once (N_CR = 0) loses its R1 and the command times out" % sorted(wrong), fn.loc(rbs[0]) if rbs else fn.loc(0))
    R.require(not bad, fn, "busy-guard", "a command frame can be sent without waiting for not-busy (other than CMD0/CMD12): command index %s" % bad, fn.loc(wr[0][0]) if wr else fn.loc(0),
              okdetail="decided for the command indices %s" % consts)


@rule("SD4", ["C14"], floor=3,
      doc="application commands (ACMD23, ACMD41) are sent only through card_acmd, which is card_command(CMD55, 0)? directly followed by card_command(command, arg)")
def sd4(F, R):
    for fn in F.fns:
        if not fn.npath.startswith("sdcard::"):
            continue
        for b, t in fn.calls():
            for i, a in enumerate(t["args"]):
                v = fn.term_of_operand(a, b)
                nm, val = cmd_const(v)
                if nm and nm.startswith("ACMD"):
                    ok = call_matches(t, ("SdCardInner::card_acmd",))
                    R.require(bool(ok), fn, "acmd-via-card_acmd:" + nm, "%s is passed to %s instead of card_acmd (no CMD55 prefix)" % (nm, callee_of(t)), fn.loc(b))
    fn = F.fn(SD + "::card_acmd")
    calls = [(b, t) for b, t in fn.calls() if call_matches(t, ("SdCardInner::card_command",))]
    ok = len(calls) == 2
    if ok:
        (b1, t1), (b2, t2) = calls
        a1 = [fn.term_of_operand(a, b1) for a in t1["args"]]
        a2 = [fn.term_of_operand(a, b2) for a in t2["args"]]
        ok = cmd_const(a1[1])[0] == "CMD55" and a1[2][:2] == ("c", 0) and a2[1][:2] == ("arg", 2) and a2[2][:2] == ("arg", 3)
        ok = ok and guarded(fn, b2, g_try_ok("SdCardInner::card_command"))[0]
        # nothing else on the bus in between
        others = [c for bb, c in fn.calls() if c not in (t1, t2) and not is_log_call(c) and (callee_of(c) or "").startswith("sdcard::")]
        ok = ok and not others
    R.require(ok, fn, "prefix", "card_acmd must be exactly card_command(CMD55, 0)? ; card_command(command, arg)", fn.loc(0))


@rule("SD5", ["C14", "C12"], floor=5,
      doc="every public SdCard entry point that talks to the card calls the inner operation only on the Ok edge of check_init(); check_init calls acquire iff card_type is None")
def sd5(F, R):
    entry = {"num_bytes": "SdCardInner::num_bytes", "erase_single_block_enabled": "SdCardInner::erase_single_block_enabled",
             "read": "SdCardInner::read", "write": "SdCardInner::write", "num_blocks": "SdCardInner::num_blocks"}
    for name, inner in entry.items():
        cands = [f for f in F.fns if f.kind == "AssocFn" and f.npath.endswith("::" + name) and ("SdCard" in f.npath) and "SdCardInner" not in f.npath]
        if not cands:
            R.bad(None, "entry:" + name, "entry point %s not found" % name, kind="anchor-missing")
            continue
        fn = cands[0]
        sites = [(b, t) for b, t in fn.calls() if call_matches(t, (inner,))]
        R.require(len(sites) == 1, fn, "inner-call", "%s must call %s once" % (name, inner), fn.loc(0))
        for b, t in sites:
            ok, _ = guarded(fn, b, g_try_ok("SdCardInner::check_init"))
            R.require(ok, fn, "init-first", "%s reaches the card without a successful check_init()" % name, fn.loc(b))
    fn = F.fn(SD + "::check_init")
    acq = [(b, t) for b, t in fn.calls() if call_matches(t, ("SdCardInner::acquire",))]
    # decided per variant of self.card_type, however the test is spelled (is_none(), match, if let)
    from .ev import specialise_enum
    is_ct = lambda q: strip_refs(q)[0] == "place" and last_field(strip_refs(q)) == "card_type"
    r_none = fn.reach([0], cut_edges=specialise_enum(fn, is_ct, ["None", "Some"], "None"))
    r_some = fn.reach([0], cut_edges=specialise_enum(fn, is_ct, ["None", "Some"], "Some"))
    ok = len(acq) == 1 and acq[0][0] in r_none and acq[0][0] not in r_some
    if ok:
        # with no card type known there is no way to the end around acquire()
        around = fn.reach([0], cut_edges=specialise_enum(fn, is_ct, ["None", "Some"], "None"), cut_blocks=[acq[0][0]])
        ok = not any(b in around for b in fn.return_blocks())
    R.require(ok, fn, "acquire-iff-none", "check_init must call acquire() exactly when card_type is None", fn.loc(0))
    oks = ok_returns(fn)
    for (b, i, v) in oks:
        R.require(b not in r_none, fn, "ok-only-if-known", "check_init returns Ok(()) without an initialised card type", fn.loc(b, i))


def _sd_events(F):
    def classify(kind, payload):
        if kind == "stmt":
            f, b, i, s = payload
            return ret_event(f, b, s)
        if kind == "term":
            f, b, t = payload
            if t["k"] != "Call" or is_log_call(t):
                return None
            e = ret_event_term(f, b, t)
            if e:
                return e
            if call_matches(t, ("SdCardInner::card_command",)):
                nm, val = cmd_const(f.term_of_operand(t["args"][1], b))
                return ("cmd", nm or "?", tstr(f.term_of_operand(t["args"][2], b)))
            if call_matches(t, ("SdCardInner::card_acmd",)):
                nm, val = cmd_const(f.term_of_operand(t["args"][1], b))
                return ("acmd", nm or "?", tstr(f.term_of_operand(t["args"][2], b)))
            if call_matches(t, ("SdCardInner::read_data",)):
                return ("read_data", tstr(f.term_of_operand(t["args"][1], b)))
            if call_matches(t, ("SdCardInner::write_data",)):
                nm, val = cmd_const(f.term_of_operand(t["args"][1], b))
                return ("write_data", nm or "?", tstr(f.term_of_operand(t["args"][2], b)))
            if call_matches(t, ("SdCardInner::wait_not_busy",)):
                return ("wait", tstr(f.term_of_operand(t["args"][1], b)))
            if call_matches(t, ("SdCardInner::write_byte",)):
                nm, val = cmd_const(f.term_of_operand(t["args"][1], b))
                return ("write_byte", nm or str(val))
            if call_matches(t, ("SdCardInner::read_byte",)):
                return ("read_byte",)
            if call_matches(t, ("SdCardInner::transfer_bytes", "SdCardInner::write_bytes", "SdCardInner::transfer_byte")):
                return ("raw", (callee_of(t) or "").split("::")[-1])
            return None
        if kind == "edge":
            f, b, i, g = payload
            if g.kind == "variant" and g.variant == "Break":
                return ("failed",)
            return None
    return classify


@rule("SD6", ["C12", "C14"], floor=10,
      doc="framing language: success paths of SdCardInner::read are CMD17 read_data | CMD18 read_data* CMD12; of write are CMD24 write_data(0xFE) wait CMD13 read_byte | ACMD23(n) wait CMD25 (wait write_data(0xFC))* wait write_byte(0xFD); single vs multi chosen by blocks.len() == 1; buffers are the caller's blocks in order")
def sd6(F, R):
    fn = F.fn(SD + "::read")
    # the R1 of the CMD12 that ends a multi-block read is not a verdict on the data: a card that pre-fetched past its last
    # block legitimately answers "out of range" there (SD spec 4.3.3), after having delivered every requested block
    for b12, t12 in fn.calls():
        if call_matches(t12, ("SdCardInner::card_command",)) and cmd_const(fn.term_of_operand(t12["args"][1], b12))[0] == "CMD12":
            judged = [repr(g)[:70] for (gb, gi, g) in all_guards(fn)
                      if g.kind in ("bool", "value", "values") and has_sub(g.term, lambda q: q[0] == "call" and q[3] == b12 and q[1] and q[1].endswith("card_command"))]
            R.require(not judged, fn, "cmd12-r1-not-judged", "read() makes its result depend on the R1 byte of the closing CMD12 (%s): reads that end on the card's last block fail although all data arrived" % "; ".join(judged[:2]), fn.loc(b12))
    T = {
        ("S0", "cmd:CMD17"): "R1", ("R1", "read_data"): "ACC",
        ("S0", "cmd:CMD18"): "M1", ("M1", "read_data"): "M1", ("M1", "cmd:CMD12"): "ACC",
    }

    def mkstep(T):
        def step(st, e):
            state, ret = st
            if e[0] == "ret":
                return (state, e[1])
            if e[0] == "failed":
                return ("FAILED", ret)
            if state == "FAILED":
                if e[0] in ("cmd", "acmd", "read_data", "write_data", "write_byte", "raw"):
                    return st  # error paths are not constrained here
                return st
            key = e[0] if e[0] not in ("cmd", "acmd", "write_data", "write_byte") else "%s:%s" % (e[0], e[1])
            if e[0] in ("cmd", "acmd", "read_data", "write_data", "wait", "write_byte", "read_byte", "raw"):
                nxt = T.get((state, key))
                if nxt is None:
                    return Bad("unexpected bus event %s in framing state %s" % (key, state))
                return (nxt, ret)
            return st
        return step

    def at_exit(st, b):
        state, ret = st
        if ret == "Ok" and state != "ACC":
            return Bad("returns Ok in framing state %s (transfer not completed)" % state)
        return None

    viol, n = product(fn, _sd_events(F), mkstep(T), ("S0", "none"), at_exit)
    for msg, trace, b in viol[:3]:
        R.bad(fn, "read-language:" + msg[:50], msg, fn.loc(b), trace=trace[-10:])
    if not viol:
        R.ok(fn, "read-language", "all success paths in CMD17 read_data | CMD18 read_data* CMD12 (%d states)" % n)
    fn2 = F.fn(SD + "::write")
    T2 = {
        ("S0", "cmd:CMD24"): "A1", ("A1", "write_data:DATA_START_BLOCK"): "A2", ("A2", "wait"): "A3", ("A3", "cmd:CMD13"): "A4", ("A4", "read_byte"): "ACC",
        ("S0", "acmd:ACMD23"): "B1", ("B1", "wait"): "B2", ("B2", "cmd:CMD25"): "B3", ("B3", "wait"): "B4", ("B4", "write_data:WRITE_MULTIPLE_TOKEN"): "B3",
        ("B4", "write_byte:STOP_TRAN_TOKEN"): "ACC",
    }
    viol, n = product(fn2, _sd_events(F), mkstep(T2), ("S0", "none"), at_exit)
    for msg, trace, b in viol[:3]:
        R.bad(fn2, "write-language:" + msg[:50], msg, fn2.loc(b), trace=trace[-10:])
    if not viol:
        R.ok(fn2, "write-language", "all success paths in the single/multi block write language (%d states)" % n)
    # on *every* path (also failing ones) what continues a transfer is sent only after the command that opened it was
    # accepted: CMD12 / data tokens / the stop token into a card that never entered the transfer state are not a legal conversation
    def accepted(cmds):
        return g_try_ok("SdCardInner::card_command", lambda a: len(a) > 1 and cmd_const(strip_refs(a[1]))[0] in cmds)
    for f, openers, what in ((fn, ("CMD18",), "stop:CMD12"), (fn, ("CMD17", "CMD18"), "read_data"), (fn2, ("CMD24", "CMD25"), "write_data"), (fn2, ("CMD25",), "stop-token")):
        for b, t in f.calls():
            is_dep = False
            if what == "stop:CMD12":
                is_dep = bool(call_matches(t, ("SdCardInner::card_command",))) and cmd_const(f.term_of_operand(t["args"][1], b))[0] == "CMD12"
            elif what in ("read_data", "write_data"):
                is_dep = bool(call_matches(t, ("SdCardInner::" + what,)))
            else:
                is_dep = bool(call_matches(t, ("SdCardInner::write_byte",))) and cmd_const(f.term_of_operand(t["args"][1], b))[0] == "STOP_TRAN_TOKEN"
            if is_dep:
                R.require(guarded(f, b, accepted(openers))[0], f, "after-opener:" + what, "%s can be put on the bus although %s was not accepted (e.g. its busy wait timed out): the card is not in the transfer state this belongs to" % (what, "/".join(openers)), f.loc(b))
    # single vs multi selection and buffers
    for f, single, multi in ((fn, "CMD17", "CMD18"), (fn2, "CMD24", "CMD25")):
        for b, t in f.calls():
            if call_matches(t, ("SdCardInner::card_command",)):
                nm, _ = cmd_const(f.term_of_operand(t["args"][1], b))
                if nm == single:
                    ok, _ = guarded(f, b, g_cmp("Eq", True, lambda a: has_sub(a, lambda q: q[:2] == ("arg", 2)), lambda z: z[:2] == ("c", 1)))
                    R.require(ok, f, "single-iff-len1", "%s (single block) sent although blocks.len() may differ from 1" % single, f.loc(b))
                if nm == multi:
                    ok, _ = guarded(f, b, g_cmp("Eq", False, lambda a: has_sub(a, lambda q: q[:2] == ("arg", 2)), lambda z: z[:2] == ("c", 1)))
                    R.require(ok, f, "multi-iff-len!=1", "%s (multi block) sent for a single block" % multi, f.loc(b))
    # ACMD23 argument = number of blocks
    for b, t in fn2.calls():
        if call_matches(t, ("SdCardInner::card_acmd",)):
            a = fn2.term_of_operand(t["args"][2], b)
            R.require(has_sub(a, lambda q: q[:2] == ("arg", 2)) and ("PtrMetadata" in tstr(a) or "len" in tstr(a)), fn2, "acmd23=len", "ACMD23 pre-erase count must be blocks.len(), got %s" % tstr(a), fn2.loc(b))
    # buffers: contents of the caller's blocks
    for f in (fn, fn2):
        for b, t in f.calls():
            n_ = call_matches(t, ("SdCardInner::read_data", "SdCardInner::write_data"))
            if n_:
                buf = f.term_of_operand(t["args"][-1], b)
                rs = roots(f, buf)
                ok = "contents" in tstr(buf) and any((r[0] == "arg" and r[1] == 2) or (r[0] == "field" and r[1] == "arg2") for r in rs)
                R.require(ok, f, "buffer=blocks[i].contents", "%s buffer %s is not a block of the caller's slice" % (n_.split("::")[-1], tstr(buf)), f.loc(b))


@rule("SD7", ["C12"], floor=9,
      doc="addressing: read and write compute the command argument as idx*512 for SD1/SD2 (byte addressed) and idx for SDHC, Err(CardNotFound) when uninitialised; the two tables are equal")
def sd7(F, R):
    tables = {}
    for name in ("read", "write"):
        fn = F.fn(SD + "::" + name)
        tab = {}
        # start_idx variable: defs per card_type arm
        data_cmds = [(b, t) for b, t in fn.calls() if call_matches(t, ("SdCardInner::card_command",)) and cmd_const(fn.term_of_operand(t["args"][1], b))[0] in ("CMD17", "CMD18", "CMD24", "CMD25")]
        if len(data_cmds) != 2:
            R.bad(fn, "data-cmds", "expected two data commands", kind="anchor-missing")
            continue
        # an initialised card is never refused by the driver itself: for every card kind, each way through the function passes a
        # data command (a refusal of its own - a range check on the address, say - turns valid transfers into errors)
        from .ev import specialise_enum as _spec
        _vs = F.variants("sdcard::CardType")
        _is_opt = lambda x: x[0] == "place" and x[2] and x[2][-1] == "card_type"
        _is_kind = lambda x: (x[0] == "place" and "card_type" in x[2] and "as:Some" in x[2] and x[2][-1] == "0") or (x[0] == "var" and isinstance(x[1], int) and fn.locals[x[1]]["ty"].endswith("CardType"))
        for kind in _vs:
            _cut = _spec(fn, _is_opt, ["None", "Some"], "Some") + _spec(fn, _is_kind, _vs, kind)
            # (failures of the calls made on the way - the busy wait, ACMD23 - are the card's refusals, not the driver's)
            from .ev import failure_edges as _fe
            for cb_, ct_ in fn.calls():
                if not is_log_call(ct_):
                    _cut += _fe(fn, cb_)
            _around = fn.reach([0], cut_edges=_cut, cut_blocks=[b for b, t in data_cmds])
            R.require(not any(fn.term(rb)["k"] == "Return" for rb in _around), fn, "no-own-refusal:" + kind, "%s can return without sending a data command although the card is initialised (%s): a transfer is refused by the driver itself" % (name, kind), fn.loc(0))
        vars_ = set()
        helper_calls = []
        # general form: the address *expression* of each data command, with every local in it replaced by the definitions
        # that reach the command once the card-type tests are decided for one kind (idx * units_per_block with units chosen by
        # a match, a per-kind address variable, ...): it must be idx*512 resp. idx as a polynomial
        argterms = [strip_refs(fn.term_of_operand(t["args"][2], b)) for b, t in data_cmds]
        def _inlined_result(a):
            """`helper(..)?` whose helper was inlined: the payload of `branch(<local with Ok / Err definitions>)`"""
            return a[0] == "place" and tuple(a[2]) == ("as:Continue", "0") and a[1][0] == "call" and (a[1][1] or "").endswith("Try::branch") and strip_refs(a[1][2][0])[0] == "var"
        if any((a[0] not in ("var",) and not (a[0] == "place" and tuple(a[2]) == ("as:Continue", "0"))) or _inlined_result(a) for a in argterms):
            from .poly import peq, MUL, C
            from .ev import specialise_enum
            vs = F.variants("sdcard::CardType")
            is_opt = lambda x: x[0] == "place" and x[2] and x[2][-1] == "card_type"
            is_kind = lambda x: (x[0] == "place" and "card_type" in x[2] and "as:Some" in x[2] and x[2][-1] == "0") or (x[0] == "var" and isinstance(x[1], int) and fn.locals[x[1]]["ty"].endswith("CardType"))
            cmd_blocks = [b for b, t in data_cmds]
            for kind in [None] + list(vs):
                cut = specialise_enum(fn, is_opt, ["None", "Some"], "None" if kind is None else "Some")
                if kind is not None:
                    cut += specialise_enum(fn, is_kind, vs, kind)
                rs = fn.reach([0], cut_edges=cut)
                if kind is None:
                    R.require(not any(b in rs for b in cmd_blocks), fn, "uninit:no-command", "a data command is sent although the card is not initialised (card_type == None)", fn.loc(0))
                    errs = [x for x in err_returns(fn, adt="Error") if x[2] == "CardNotFound" and x[0] in rs]
                    # (through an inlined helper the error is built into the helper's result and leaves by `?`)
                    built = [b_ for b_, i_, s_ in fn.stmts() if b_ in rs and s_["k"] == "Assign" and s_["rv"]["k"] == "Aggregate" and s_["rv"].get("variant_name") == "Err"
                             and "CardNotFound" in tstr(fn.term_of_rvalue(s_["rv"], b_))]
                    R.require((len(errs) >= 1 or built) and not any(x[0] in rs for x in ok_returns(fn)), fn, "uninit->CardNotFound", "uninitialised card must give Err(CardNotFound)", fn.loc(0))
                    continue

                def alts(t_, depth=0):
                    """closed alternatives of a term under this kind"""
                    t_ = strip_refs(t_)
                    if depth > 5:
                        return [t_]
                    if _inlined_result(t_):
                        v_ = strip_refs(t_[1][2][0])
                        out = []
                        for d in fn.defs().get(v_[1], []):
                            if d[0] == "assign" and d[1] in rs and d[3]["k"] == "Aggregate" and d[3].get("variant_name") == "Ok" and d[3]["ops"]:
                                out += alts(fn.term_of_operand(d[3]["ops"][0], d[1]), depth + 1)
                        return out or [t_]
                    if t_[0] == "var":
                        out = []
                        for d in fn.defs().get(t_[1], []):
                            if d[0] == "assign" and d[1] in rs and any(cb in fn.reach([d[1]], cut_edges=cut) for cb in cmd_blocks):
                                out += alts(fn.term_of_rvalue(d[3], d[1]), depth + 1)
                        return out or [t_]
                    if t_[0] == "bin":
                        return [("bin", t_[1], x, y) for x in alts(t_[2], depth + 1) for y in alts(t_[3], depth + 1)][:16]
                    if t_[0] == "cast":
                        return [("cast", t_[1], x) + tuple(t_[3:]) for x in alts(t_[2], depth + 1)]
                    return [t_]
                forms = set()
                for a in argterms:
                    for val in alts(a):
                        forms.add("idx*512" if peq(val, MUL(("arg", 3, None), C(512))) else ("idx" if peq(val, ("arg", 3, None)) else tstr(val)[:60]))
                tab[kind] = "|".join(sorted(forms)) or "unreachable"
            tables[name] = tab
            want = {k: ("idx" if k == "SDHC" else "idx*512") for k in vs}
            R.require(tab == want, fn, "forms", "the data command address must be idx*512 for SD1/SD2 (byte addressed) and idx for SDHC (block addressed), got %s" % tab, fn.loc(0), okdetail="address table %s" % tab)
            R.ok(fn, "mapping", "decided per card kind by specialising every card_type test and substituting the reaching definitions")
            continue
        for b, t in data_cmds:
            a = strip_refs(fn.term_of_operand(t["args"][2], b))
            if a[0] == "var":
                vars_.add(a[1])
            elif a[0] == "place" and tuple(a[2]) == ("as:Continue", "0") and a[1][0] == "call" and try_inner(a[1]) is not None and try_inner(a[1])[0] == "call" and (try_inner(a[1])[1] or "").startswith("sdcard::"):
                helper_calls.append((b, try_inner(a[1])))
            else:
                R.bad(fn, "addr-var", "data command argument %s is not the per-card-type address" % tstr(a), fn.loc(b))
        if len(helper_calls) == len(data_cmds) and len({h[1][1] for h in helper_calls}) == 1:
            # the address comes from a private helper `fn(&self, block) -> Result<u32, Error>` called with the caller's block
            # index and `?`: the per-kind table is read off the helper's own returns
            from .poly import peq, MUL, C
            from .ev import specialise_enum
            hc = helper_calls[0][1]
            H = [f for f in F.fns if f.npath == hc[1] and f.kind != "Closure"]
            okh = len(H) == 1 and len(hc[2]) == 2 and strip_refs(hc[2][0])[:2] == ("arg", 1) and strip_refs(hc[2][1])[:2] == ("arg", 3)
            R.require(okh, fn, "addr-var", "data command argument comes from %s, which is not called as helper(self, start_block_idx)" % hc[1], fn.loc(0))
            if not okh:
                continue
            H = H[0]
            vs = F.variants("sdcard::CardType")
            is_opt = lambda x: x[0] == "place" and x[2] and x[2][-1] == "card_type"
            is_kind = lambda x: x[0] == "place" and "card_type" in x[2] and "as:Some" in x[2] and x[2][-1] == "0"
            for kind in [None] + list(vs):
                cut = specialise_enum(H, is_opt, ["None", "Some"], "None" if kind is None else "Some")
                if kind is not None:
                    cut += specialise_enum(H, is_kind, vs, kind)
                rs = H.reach([0], cut_edges=cut)
                oks_ = [x for x in ok_returns(H) if x[0] in rs]
                if kind is None:
                    errs = [x for x in err_returns(H, adt="Error") if x[2] == "CardNotFound" and x[0] in rs]
                    R.require(not oks_, fn, "uninit:no-command", "a data command is sent although the card is not initialised (card_type == None)", fn.loc(0))
                    R.require(len(errs) >= 1, fn, "uninit->CardNotFound", "uninitialised card must give Err(CardNotFound)", fn.loc(0))
                    continue
                forms = set()
                for (b_, i_, val) in oks_:
                    val = strip_refs(val)
                    forms.add("idx*512" if peq(val, MUL(("arg", 2, None), C(512))) else ("idx" if peq(val, ("arg", 2, None)) else tstr(val)))
                tab[kind] = "|".join(sorted(forms)) or "unreachable"
            tables[name] = tab
            want = {k: ("idx" if k == "SDHC" else "idx*512") for k in vs}
            R.require(tab == want, fn, "forms", "the data command address must be idx*512 for SD1/SD2 (byte addressed) and idx for SDHC (block addressed), got %s" % tab, fn.loc(0), okdetail="address table %s (from %s)" % (tab, hc[1].split("::")[-1]))
            R.ok(fn, "mapping", "decided per card kind by specialising every card_type test of the helper")
            continue
        if len(vars_) != 1:
            R.bad(fn, "addr-var", "read/write must use one address variable for both commands", fn.loc(0))
            continue
        v = next(iter(vars_))
        from .poly import peq, MUL, C
        from .ev import specialise_enum
        vs = F.variants("sdcard::CardType")
        is_opt = lambda x: x[0] == "place" and x[2] and x[2][-1] == "card_type"
        def is_kind(x):
            if x[0] == "place" and "card_type" in x[2] and "as:Some" in x[2] and x[2][-1] == "0":
                return True
            if x[0] == "var" and isinstance(x[1], int) and fn.locals[x[1]]["ty"].endswith("CardType"):
                return True
            # `self.card_type.ok_or(e)?`: the payload of the Option, handed through ok_or and `?`
            return (x[0] == "place" and tuple(x[2][-2:]) in (("as:Continue", "0"), ("as:Ok", "0")) and has_sub(x[1], lambda q: q[0] == "call" and q[1] and q[1].endswith(("::ok_or", "::ok_or_else")))
                    and has_sub(x[1], lambda q: q[0] == "place" and q[2] and q[2][-1] == "card_type"))
        cmd_blocks = [b for b, t in data_cmds]
        for kind in [None] + list(vs):
            # decide every test of self.card_type for this concrete value and see which address definition reaches the data commands
            cut = specialise_enum(fn, is_opt, ["None", "Some"], "None" if kind is None else "Some")
            if kind is not None:
                cut += specialise_enum(fn, is_kind, vs, kind)
            rs = fn.reach([0], cut_edges=cut)
            if kind is None:
                R.require(not any(b in rs for b in cmd_blocks), fn, "uninit:no-command", "a data command is sent although the card is not initialised (card_type == None)", fn.loc(0))
                errs = [x for x in err_returns(fn, adt="Error") if x[2] == "CardNotFound" and x[0] in rs]
                # (`self.card_type.ok_or(Error::CardNotFound)?`: the error is built into the Result the `?` returns)
                built = [b_ for b_, i_, s_ in fn.stmts() if b_ in rs and s_["k"] == "Assign" and s_["rv"]["k"] == "Aggregate" and s_["rv"].get("variant_name") == "Err"
                         and "CardNotFound" in tstr(fn.term_of_rvalue(s_["rv"], b_))]
                R.require((len(errs) >= 1 or built) and not any(x[0] in rs for x in ok_returns(fn)), fn, "uninit->CardNotFound", "uninitialised card must give Err(CardNotFound)", fn.loc(0))
                continue
            forms = set()
            for d in fn.defs().get(v, []):
                if d[0] != "assign" or d[1] not in rs:
                    continue
                if not any(cb in fn.reach([d[1]], cut_edges=cut) for cb in cmd_blocks):
                    continue
                val = fn.term_of_rvalue(d[3], d[1])
                if peq(val, MUL(("arg", 3, None), C(512))):
                    forms.add("idx*512")
                elif peq(val, ("arg", 3, None)):
                    forms.add("idx")
                else:
                    forms.add(tstr(val))
            tab[kind] = "|".join(sorted(forms)) or "unreachable"
        tables[name] = tab
        want = {k: ("idx" if k == "SDHC" else "idx*512") for k in vs}
        R.require(tab == want, fn, "forms", "the data command address must be idx*512 for SD1/SD2 (byte addressed) and idx for SDHC (block addressed), got %s" % tab, fn.loc(0), okdetail="address table %s" % tab)
        R.ok(fn, "mapping", "decided per card kind by specialising every card_type test")
    if "read" in tables and "write" in tables:
        R.require(tables["read"] == tables["write"], None, "read==write", "read and write disagree on addressing: %s vs %s" % (tables["read"], tables["write"]))


@rule("SD8", ["C12"], floor=6,
      doc="read_csd chooses the register layout per card kind, reads it with CMD9 + read_data(&mut csd.data) (16 bytes) and fails when CMD9's response is non-zero; num_blocks/num_bytes select the capacity formula of the Csd variant")
def sd8(F, R):
    from .ev import specialise_enum, failure_edges
    fn = F.fn(SD + "::read_csd")
    kinds = F.variants("sdcard::CardType")
    want = spec("sd_constants.json")["csd_layout"]
    is_opt = lambda x: x[0] == "place" and x[2] and x[2][-1] == "card_type"
    is_kind = lambda x: (x[0] == "place" and "card_type" in x[2] and "as:Some" in x[2] and x[2][-1] == "0") or (x[0] == "var" and isinstance(x[1], int) and fn.locals[x[1]]["ty"].endswith("CardType"))
    # layout per card kind, decided by specialising every test of the card type: which Csd variant the Ok returns carry
    got = {}
    for kind in [None] + list(kinds):
        cut = specialise_enum(fn, is_opt, ["None", "Some"], "None" if kind is None else "Some")
        if kind is not None:
            cut += specialise_enum(fn, is_kind, kinds, kind)
        rs = fn.reach([0], cut_edges=cut)
        vs_ = sorted({v[2].split("::")[-1] for (b, i, v) in ok_returns(fn) if b in rs and v[0] == "agg" and v[2]})
        if kind is None:
            R.require(not vs_ and any(x[0] in rs for x in err_returns(fn, adt="Error") if x[2] == "CardNotFound"), fn, "uninit", "read_csd on an uninitialised card must fail with CardNotFound", fn.loc(0))
        else:
            got[kind] = "|".join(vs_)
    R.require(got == want, fn, "layout-table", "CSD layout per card kind is %s; the SD spec (5.3.1 CSD_STRUCTURE) requires %s" % (got, want), fn.loc(0), okdetail="layout table %s" % got)
    R.require(set(got.values()) == {"V1", "V2"}, fn, "layouts", "read_csd must produce Csd::V1 and Csd::V2, got %s" % got, fn.loc(0), okdetail="layout selection %s" % got)
    # the register is fetched with CMD9 and then read_data(&mut csd.data); a non-zero R1 is a failure - in read_csd itself or in
    # a helper of its own (looked at in place of the call)
    bodies = [fn] + [g for g in F.fns if g.kind != "Closure" and g.npath != fn.npath and g.npath.startswith(SD + "::") and any((callee_of(t) or "") == g.npath for b, t in fn.calls()) and g.npath not in __import__("analysis.mir", fromlist=["_known_functions"])._known_functions()]
    n9 = nrd = 0
    for f_ in bodies:
        for b, t in f_.calls():
            if call_matches(t, ("SdCardInner::card_command",)):
                nm, _ = cmd_const(f_.term_of_operand(t["args"][1], b))
                R.require(nm == "CMD9", f_, "cmd9", "read_csd must use CMD9, got %s" % nm, f_.loc(b))
                n9 += 1
                # R1 != 0 ends in an error: decide the test of the response for 0 and for 1
                from .specialise import specialise_on
                is_r1 = lambda q, b=b: q[0] == "call" and q[3] == b and q[1] and path_matches(q[1], "SdCardInner::card_command")
                def is_r1v(q, b=b, f_=f_):
                    return from_call(f_, q, "SdCardInner::card_command") and (has_sub(q, lambda z: z[0] == "call" and z[3] == b) or strip_refs(q)[0] == "var")
                rs0 = f_.reach([0], cut_edges=specialise_on(f_, is_r1v, 0))
                rs1 = f_.reach([0], cut_edges=specialise_on(f_, is_r1v, 1))
                rds = [bb for bb, tt in f_.calls() if call_matches(tt, ("SdCardInner::read_data",)) and bb in f_.reach_after(b)]
                okr1 = bool(rds) and any(bb in rs0 for bb in rds) and not any(bb in rs1 for bb in rds) and any(x[0] in rs1 for x in err_returns(f_, adt="Error") if x[2] == "RegisterReadError")
                R.require(okr1, f_, "cmd9-ok", "the CSD is read although CMD9's response was not 0 (or a zero response is refused)", f_.loc(b))
            if call_matches(t, ("SdCardInner::read_data",)):
                nrd += 1
                buf = strip_refs(f_.term_of_operand(t["args"][1], b))
                if f_ is fn:
                    # the `data` array of a local CsdV1 / CsdV2 value (whatever the local is called)
                    base_ = strip_refs(buf[1]) if buf[0] == "place" else None
                    okb = (buf[0] == "place" and [e for e in buf[2] if isinstance(e, str) and e != "*"][-1:] == ["data"] and base_ is not None and base_[0] == "var"
                           and isinstance(base_[1], int) and "Csd" in f_.locals[base_[1]]["ty"])
                else:
                    # the helper reads into its own buffer parameter, and read_csd hands it csd.data
                    okb = buf[0] == "arg" and all("data" in tstr(fn.term_of_operand(tt["args"][buf[1] - 1], bb)) for bb, tt in fn.calls() if (callee_of(tt) or "") == f_.npath)
                R.require(okb, f_, "csd-buffer", "read_data must fill csd.data, got %s" % tstr(buf), f_.loc(b))
    # once the card has accepted CMD9 and delivered the 16 bytes, read_csd has no refusal of its own: with the card kind
    # decided, R1 == 0 and every call on the way succeeding, no Err exit is left (a register the card sent is returned as it is)
    from .specialise import specialise_on as _son
    def _r1v(q):
        return from_call(fn, q, "SdCardInner::card_command")
    for kind in kinds:
        cut = specialise_enum(fn, is_opt, ["None", "Some"], "Some") + specialise_enum(fn, is_kind, kinds, kind) + _son(fn, _r1v, 0)
        for cb_, ct_ in fn.calls():
            if not is_log_call(ct_):
                cut += failure_edges(fn, cb_)
        rs = fn.reach([0], cut_edges=cut)
        own = [x for x in err_returns(fn, adt="Error") if x[0] in rs]
        R.require(not own, fn, "no-own-refusal:" + kind, "read_csd refuses a register the card delivered (%s card, CMD9 answered 0, read_data succeeded): Err(%s)" % (kind, own[0][2] if own else ""), fn.loc(own[0][0]) if own else fn.loc(0))
    R.require(n9 >= 1 and nrd >= 1, fn, "cmd9+read_data", "read_csd must send CMD9 and read the register with read_data", fn.loc(0))
    for name, meth in (("num_blocks", "card_capacity_blocks"), ("num_bytes", "card_capacity_bytes")):
        f = F.fn(SD + "::" + name)
        cs = [(b, t) for b, t in f.calls() if (callee_of(t) or "").endswith("::" + meth)]
        kinds = sorted((callee_of(t) or "").split("::")[-2] for b, t in cs)
        R.require(kinds == ["CsdV1", "CsdV2"], f, "formula-per-variant", "%s must use %s of CsdV1 and CsdV2, got %s" % (name, meth, kinds), f.loc(0))
        for b, t in cs:
            k = (callee_of(t) or "").split("::")[-2]
            want = "V1" if k == "CsdV1" else "V2"
            ok, _ = guarded(f, b, lambda g, want=want: g.kind == "variant" and g.variant == want)
            R.require(ok, f, "variant-match:" + k, "%s::%s used for the wrong Csd variant" % (k, meth), f.loc(b))


def _widen(t):
    t = strip_refs(t)
    while (t[0] == "cast" and t[1] in ("u16", "u32", "usize", "u64")) or (t[0] == "call" and t[1] and t[1].endswith("::from") and len(t[2]) == 1):
        t = strip_refs(t[2] if t[0] == "cast" else t[2][0])
    return t


def _byte_of(t, k):
    """the array a when t is a[k] (widened), else None"""
    t = _widen(t)
    if t[0] == "place" and len(t[2]) == 1 and isinstance(t[2][0], tuple) and t[2][0][0] == "idx" and t[2][0][1][:2] == ("c", k):
        return strip_refs(t[1])
    if t[0] == "place" and len(t[2]) == 1 and isinstance(t[2][0], tuple) and t[2][0][0] == "cidx" and t[2][0][1] == k:
        return strip_refs(t[1])             # `let [hi, lo] = a`: the constant-index form of a[k]
    return None


def be16_source(t):
    """the 2-byte array a when t is the big-endian u16 of a: u16::from_be_bytes(a) or (a[0] << 8) | a[1] (either operand order, | or +)"""
    t = strip_refs(t)
    if t[0] == "call" and t[1] and t[1].endswith("from_be_bytes") and len(t[2]) == 1:
        return strip_refs(t[2][0])
    if t[0] == "bin" and t[1] in ("BitOr", "Add", "BitXor"):
        for hi, lo in ((t[2], t[3]), (t[3], t[2])):
            hi = strip_refs(hi)
            if hi[0] == "bin" and ((hi[1] == "Shl" and hi[3][:2] == ("c", 8)) or (hi[1] == "Mul" and hi[3][:2] == ("c", 256))):
                a, b_ = _byte_of(hi[2], 0), _byte_of(lo, 1)
                if a is not None and a == b_:
                    return a
    return None


def from_call(fn, t, name, depth=0):
    """t IS the (unwrapped) result of a call of `name` - `name(..)?`, its Ok payload, or a local every definition of which
    is one; a masked / shifted / otherwise computed value is not (a test of `r1 & !IDLE` is not a test of r1)"""
    t = strip_refs(t)
    if depth > 6:
        return False
    if t[0] == "place" and tuple(t[2]) in (("as:Continue", "0"), ("as:Ok", "0")):
        return from_call(fn, t[1], name, depth + 1)
    if t[0] == "call" and t[1]:
        if path_matches(t[1], name):
            return True
        if t[1].endswith(("Try::branch", "::map_err", "Result::unwrap", "Result::expect")) and t[2]:
            return from_call(fn, t[2][0], name, depth + 1)
        return False
    if t[0] == "var":
        ds = var_def_terms(fn, t[1])
        return bool(ds) and all(from_call(fn, d, name, depth + 1) for d in ds)
    return False


@rule("SD9", ["C13", "C14", "C12"], floor=5,
      doc="read_data returns Ok only if the first non-0xFF byte was DATA_START_BLOCK and (CRC off or the received big-endian CRC equals crc16 of the received buffer); the buffer and then two CRC bytes are always transferred")
def sd9(F, R):
    fn = F.fn(SD + "::read_data")
    oks = ok_returns(fn)
    if not oks:
        R.bad(fn, "anchor", "no Ok return", kind="anchor-missing")
    for (b, i, v) in oks:
        start_tok = F.const("sdcard::proto::DATA_START_BLOCK")
        ok_tok, _ = guarded(fn, b, g_cmp("Eq", True, lambda a: from_call(fn, a, "SdCardInner::read_byte"), lambda z: z[:2] == ("c", start_tok)))
        R.require(ok_tok, fn, "token", "Ok reachable without status == DATA_START_BLOCK", fn.loc(b, i))

        def crc_ok(g):
            if g.kind == "bool" and g.term[0] == "place" and last_field(g.term) == "use_crc" and g.truth is False:
                return True
            if g.kind == "bool" and g.term[0] == "cmp" and g.term[1] == "Eq" and g.truth is True:
                for x, y in ((g.term[2], g.term[3]), (g.term[3], g.term[2])):
                    x = strip_refs(x)
                    if x[0] == "call" and x[1] and path_matches(x[1], "sdcard::proto::crc16") and be16_source(y) is not None:
                        return True
            return False
        ok_crc, _ = guarded(fn, b, crc_ok)
        R.require(ok_crc, fn, "crc", "Ok reachable with CRC enabled and without crc == crc16(buffer)", fn.loc(b, i))
        # two transfers precede Ok: payload then 2 crc bytes
        trs = [(bb, t) for bb, t in fn.calls() if call_matches(t, ("SdCardInner::transfer_bytes",))]
        ok_seq = len(trs) == 2
        if ok_seq:
            (b1, t1), (b2, t2) = trs
            a1 = fn.term_of_operand(t1["args"][1], b1)
            a2 = fn.term_of_operand(t2["args"][1], b2)
            ok_seq = strip_refs(a1)[:2] == ("arg", 2) and fn.dominates(b1, b2) and fn.dominates(b2, b)
            # second buffer is a 2-byte array
            r2 = strip_refs(a2)
            ok_seq = ok_seq and r2[0] == "var" and fn.locals[r2[1]]["ty"] == "[u8; 2]"
            ok_seq = ok_seq and guarded(fn, b, g_try_ok("SdCardInner::transfer_bytes"))[0]
        R.require(ok_seq, fn, "payload-then-crc", "read_data must transfer the payload into the caller's buffer and then exactly two CRC bytes on every Ok path (in both CRC modes)", fn.loc(b, i))
    # CRC mode decides whether the trailer is compared at all: with use_crc == false no CrcError can be returned (the option
    # exists for cards that send junk there), with use_crc == true it can
    from .specialise import specialise_on
    is_opt = lambda q: q[0] == "place" and q[2] and q[2][-1] == "use_crc"
    crc_errs = [x for x in err_returns(fn, adt="Error") if x[2] == "CrcError"]
    off = fn.reach([0], cut_edges=specialise_on(fn, is_opt, 0))
    on = fn.reach([0], cut_edges=specialise_on(fn, is_opt, 1))
    R.require(bool(crc_errs) and not any(x[0] in off for x in crc_errs) and any(x[0] in on for x in crc_errs) and any(x[0] in off for x in oks), fn, "crc-only-when-enabled", "read_data must compare the CRC trailer exactly when AcquireOpts::use_crc is set: with CRC off a block whose trailer is junk is still good data", fn.loc(0))
    # the token wait takes the FIRST non-0xFF byte: only an idle byte (0xFF) may keep the loop going
    tl = [(h, body, backs) for (h, body, backs) in fn.loops() if any(fn.term(x)["k"] == "Call" and call_matches(fn.term(x), ("SdCardInner::read_byte",)) for x in body)]
    R.require(len(tl) == 1, fn, "token-loop", "expected one token wait loop in read_data", fn.loc(0))
    for (h, body, backs) in tl:
        idle = g_cmp("Eq", True, lambda a: from_call(fn, a, "SdCardInner::read_byte"), lambda z: z[:2] == ("c", 0xFF))
        edges = [(gb, gi) for (gb, gi, g) in all_guards(fn) if gb in body and idle(g)]
        again = [bs for bs in backs if bs in fn.reach([h], cut_edges=edges, cut_blocks=[x for x in fn.live_blocks() if x not in body])]
        R.require(bool(edges) and not again, fn, "first-non-ff", "the token wait can go round again after a byte other than 0xFF: an unexpected token (error token, junk) is skipped instead of being reported, and whatever follows a later 0xFE is taken as the block", fn.loc(h))
    errs = [x for x in err_returns(fn, adt="Error") if x[2] == "ReadError"]
    R.require(len(errs) >= 1 and all(guarded(fn, x[0], g_cmp("Eq", False, lambda a: from_call(fn, a, "SdCardInner::read_byte"), lambda z: z[:2] == ("c", F.const("sdcard::proto::DATA_START_BLOCK"))))[0] for x in errs), fn, "unexpected-token-error", "a first byte that is neither 0xFF nor DATA_START_BLOCK must give Err(ReadError)", fn.loc(0))
    # crc16 is computed over the same buffer, crc from the two bytes
    for bb, t in fn.calls():
        if call_matches(t, ("sdcard::proto::crc16",)):
            a = fn.term_of_operand(t["args"][0], bb)
            R.require(strip_refs(a)[:2] == ("arg", 2), fn, "crc-over-buffer", "crc16 must be computed over the received buffer", fn.loc(bb))


@rule("SD10", ["C13", "C14"], floor=4,
      doc="write_data returns Ok only under (status & DATA_RES_MASK) == DATA_RES_ACCEPTED; it sends token, payload, then crc16(buffer).to_be_bytes() (CRC on) or FF FF, then reads the response; single-block write returns Ok only under CMD13 == 0 and next byte == 0")
def sd10(F, R):
    fn = F.fn(SD + "::write_data")
    for (b, i, v) in ok_returns(fn):
        def acc(g):
            mask, acc_ = F.const("sdcard::proto::DATA_RES_MASK"), F.const("sdcard::proto::DATA_RES_ACCEPTED")

            def masked(a):
                for pat in (("bin", "BitAnd", "$s", ("c", mask)), ("bin", "BitAnd", ("c", mask), "$s")):
                    e = tmatch(a, pat)
                    if e is not None and from_call(fn, e["$s"], "SdCardInner::read_byte"):
                        return True
                return False
            if g.kind == "value" and g.value == acc_ and masked(g.term):
                return True                 # `match status & MASK { ACCEPTED => .., _ => .. }`
            return g_cmp("Eq", True, masked, lambda z: z[:2] == ("c", acc_))(g)
        ok, _ = guarded(fn, b, acc)
        R.require(ok, fn, "accepted", "write_data returns Ok without (status & DATA_RES_MASK) == DATA_RES_ACCEPTED", fn.loc(b, i))
    # sequence: write_byte(token) write_bytes(buffer) write_bytes(crc) read_byte
    seq = []
    for b, t in fn.calls():
        n_ = call_matches(t, ("SdCardInner::write_byte", "SdCardInner::write_bytes", "SdCardInner::read_byte"))
        if n_:
            seq.append((b, n_.split("::")[-1], [fn.term_of_operand(a, b) for a in t["args"][1:]]))
    names = [s[1] for s in seq]
    ok = names == ["write_byte", "write_bytes", "write_bytes", "read_byte"]
    if ok:
        ok = seq[0][2][0][:2] == ("arg", 2) and strip_refs(seq[1][2][0])[:2] == ("arg", 3)
        ok = ok and all(fn.dominates(seq[k][0], seq[k + 1][0]) for k in range(3))
        crcv = strip_refs(seq[2][2][0])
        okc = False
        if crcv[0] == "var":
            defs = var_def_terms(fn, crcv[1])
            ds = sorted(tstr(d) for d in defs)
            okc = len(defs) == 2 and any(tmatch(d, ("call", "to_be_bytes", [("call", "sdcard::proto::crc16", [("deref*", ("arg", 3))])])) is not None for d in defs) and any(tmatch(d, ("agg", "_", [("c", 0xFF), ("c", 0xFF)])) is not None or (d[0] == "repeat" and d[1][:2] == ("c", 0xFF) and str(d[2]) in ("2", "2_usize")) for d in defs)
            # the CRC variant is selected exactly when use_crc is set
            for df in fn.defs().get(crcv[1], []):
                dterm = fn.term_of_rvalue(df[3], df[1]) if df[0] == "assign" else fn.call_term(df[2], df[1])
                want_true = dterm[0] == "call"
                g, _ = guarded(fn, df[1], lambda g, wt=want_true: g.kind == "bool" and last_field(g.term) == "use_crc" and g.truth is wt)
                okc = okc and g
            # selection by use_crc
        ok = ok and okc
    R.require(ok, fn, "framing", "write_data must send token, payload, crc16(buffer).to_be_bytes() | [FF,FF], then read the data response; got %s" % [(s[1], [tstr(a) for a in s[2]]) for s in seq], fn.loc(0))
    fn2 = F.fn(SD + "::write")
    for (b, i, v) in ok_returns(fn2):
        pass
    # the single-block arm: both status checks guard the fallthrough to Ok
    c13 = [(b, t) for b, t in fn2.calls() if call_matches(t, ("SdCardInner::card_command",)) and cmd_const(fn2.term_of_operand(t["args"][1], b))[0] == "CMD13"]
    R.require(len(c13) == 1, fn2, "cmd13", "single-block write must query the status with CMD13", fn2.loc(0))
    if c13:
        b13 = c13[0][0]
        errs = [x for x in err_returns(fn2, adt="Error") if x[2] == "WriteError"]
        # the non-zero edge of each of the two status tests leads to Err(WriteError) and to no Ok return
        n_guarded = 0
        for nm in ("SdCardInner::card_command", "SdCardInner::read_byte"):
            pr = g_cmp("Eq", False, lambda a, nm=nm: from_call(fn2, a, nm), lambda z: z[:2] == ("c", 0))
            edges = [(gb, gi) for (gb, gi, g) in all_guards(fn2) if pr(g) and gb in fn2.reach_after(b13)]
            good = bool(edges)
            for (gb, gi) in edges:
                rs = fn2.reach([fn2.succ(gb)[gi][0]])
                good = good and any(x[0] in rs for x in errs) and not any(x[0] in rs for x in ok_returns(fn2))
            n_guarded += int(good)
        R.require(n_guarded >= 2, fn2, "status-checks", "single-block write must fail when CMD13's R1 or the following status byte is non-zero", fn2.loc(b13))
        # ... and success needs BOTH status bytes to be zero: every path from the CMD13 call to an Ok return crosses `R1 == 0` and `byte2 == 0`
        is_r1 = g_cmp("Eq", True, lambda a: from_call(fn2, a, "SdCardInner::card_command") and (has_sub(a, lambda q: q[0] == "call" and q[3] == b13) or strip_refs(a)[0] == "var"), lambda z: z[:2] == ("c", 0))
        rb = [b for b, t in fn2.calls() if call_matches(t, ("SdCardInner::read_byte",)) and b in fn2.reach_after(b13)]
        is_r2 = g_cmp("Eq", True, lambda a: from_call(fn2, a, "SdCardInner::read_byte") and (has_sub(a, lambda q: q[0] == "call" and q[3] in rb) or strip_refs(a)[0] == "var"), lambda z: z[:2] == ("c", 0))
        for (b, i, v) in ok_returns(fn2):
            if b not in fn2.reach_after(b13):
                continue
            o1, _ = guarded(fn2, b, is_r1, frm=fn2.succ(b13)[0][0])
            o2, _ = guarded(fn2, b, is_r2, frm=fn2.succ(b13)[0][0])
            R.require(o1 and o2, fn2, "status-both-zero", "single-block write can return Ok although %s is non-zero: a write the card reports as failed is taken as good" % ("the CMD13 R1 byte" if not o1 else "the second R2 status byte"), fn2.loc(b, i))


@rule("SD11", ["C13"], floor=10,
      doc="SPI bus calls only in transfer_byte/write_bytes/transfer_bytes, each mapping the bus error to Error::Transport and returning it; no driver error is absorbed anywhere in the driver (exemptions: the trailing courtesy clock in acquire, get_card_type's documented .ok()?)")
def sd11(F, R):
    allowed = {SD + "::transfer_byte", SD + "::write_bytes", SD + "::transfer_bytes"}
    n = 0
    for fn in F.fns:
        if not fn.npath.startswith("sdcard::"):
            continue
        for b, t in fn.calls():
            c = callee_of(t) or ""
            if c.startswith("embedded_hal::spi::SpiDevice::"):
                n += 1
                R.require(fn.npath in allowed, fn, "spi-call:" + c.split("::")[-1], "SPI bus accessed from %s" % fn.npath, fn.loc(b))
    R.require(n >= 3, None, "spi-sites", "expected >= 3 SPI call sites, found %d" % n)
    ef = EF(F, ("sdcard::", "<sdcard::"), error_adt="Error", adt_path="sdcard::Error", device_variant="Transport",
            io_names=("SdCardInner::card_command", "SdCardInner::read_data", "SdCardInner::write_data", "SdCardInner::read_byte", "SdCardInner::write_byte", "SdCardInner::transfer_bytes", "SdCardInner::write_bytes"))
    sites = ef.run(("embedded_hal::spi::SpiDevice::transfer", "embedded_hal::spi::SpiDevice::write", "embedded_hal::spi::SpiDevice::transfer_in_place", "embedded_hal::spi::SpiDevice::read"))
    EX = {
        (SD + "::acquire", "read_byte"): "courtesy clock after the handshake; the handshake result is returned unchanged",
        ("sdcard::SdCard::get_card_type", "check_init"): "documented: returns None when initialisation fails",
    }
    for (fn, b, t, c, fv, fates) in sorted(sites, key=lambda s: (s[0].npath, s[1])):
        short = c.split("::")[-1]
        for (fk, detail) in sorted(fates):
            key = "%s|as:%s|%s" % (short, fv or "bus", fk)
            if fk == "propagated" or fk.startswith("converted:"):
                R.ok(fn, key, "failure of %s is %s" % (short, fk), fn.loc(b))
            elif (fn.npath, short) in EX and fk == "absorbed-success":
                R.ok(fn, key + "|exempt", "exempt: " + EX[(fn.npath, short)], fn.loc(b))
            elif fn.npath.startswith(SD + "::acquire::{closure") and short == "card_command" and fk in ("absorbed-success", "absorbed-continues", "unknown-idiom") and cmd_const(fn.term_of_operand(t["args"][1], b))[0] == "CMD0":
                # the reset loop: `Err(TimeoutCommand(CMD0))` - and only that - is answered by flushing the bus and trying again, a
                # bounded number of times (Delay::new(acquire_retries), SD12); any other error leaves through `Err(e) => return Err(e)`.
                # The error-fate engine does not separate the variants of one match; the arm structure is checked here instead.
                arms = [g for (gb, gi, g) in all_guards(fn) if g.kind in ("variant", "variants") and has_sub(g.term, lambda q: q[0] == "call" and q[3] == b)]
                timeout_only = any(g.kind == "variant" and g.variant == "TimeoutCommand" for g in arms)
                R.require(timeout_only, fn, key + "|cmd0-retry", "the CMD0 reset loop retries on something other than Err(TimeoutCommand(CMD0))", fn.loc(b), okdetail="exempt: CMD0 is retried after TimeoutCommand only (bounded)")
            else:
                R.bad(fn, key, "a failure of %s (%s) is %s (%s): the driver would report success / go on after a bus or card error" % (short, fv or "SPI error", fk, detail), fn.loc(b))


@rule("SD12", ["C13"], floor=9,
      doc="bounded SPI traffic: every loop in sdcard:: is a `for` over a slice or a finite constant Range, or passes through Delay::delay(..)? on every cycle with the Delay created outside the loop from a finite bound; Delay::delay fails at 0 and otherwise decrements")
def sd12(F, R):
    for fn in F.fns:
        if not fn.npath.startswith("sdcard::") or fn.npath.startswith("sdcard::proto"):
            continue        # sdcard::proto is pure computation (CRC, CSD decoding): no SPI traffic to bound (its loops: CR1/CR2)
        all_loops = fn.loops()
        for (h, body, backs) in all_loops:
            # iterator-driven?  (only by an iterator advanced in this loop itself, not in a loop nested inside it)
            kind = None
            inner = set()
            for (h2, body2, backs2) in all_loops:
                if h2 != h and h2 in body and set(body2) <= set(body):
                    inner |= set(body2)
            for b in body:
                if b in inner:
                    continue
                t = fn.term(b)
                if t["k"] == "Call" and (callee_of(t) or "").endswith("Iterator::next"):
                    full = t.get("callee_full", "")
                    if "core::slice::Iter" in full or "core::slice::IterMut" in full or "Cloned<core::slice::Iter" in full:
                        kind = "for-slice"
                    elif "core::ops::Range<" in full and "RangeFrom" not in full:
                        kind = "for-range"
                    elif "RangeFrom" in full:
                        kind = kind or "unbounded-iter"
            delay_blocks = [b for b in body if fn.term(b)["k"] == "Call" and call_matches(fn.term(b), ("sdcard::Delay::delay",))]
            every_cycle = False
            if delay_blocks:
                # every cycle (path header -> header inside body) passes a successful delay: cut the Continue edges after delay and
                # check the header cannot reach a back edge source
                cut = []
                for (gb, gi, g) in all_guards(fn):
                    if gb in body and g_try_ok("sdcard::Delay::delay")(g):
                        cut.append((gb, gi))
                reach = fn.reach([h], cut_edges=cut, cut_blocks=[x for x in fn.live_blocks() if x not in body])
                # a back edge source reachable and its edge to header not cut?
                every_cycle = True
                for bs in backs:
                    if bs in reach:
                        # is the edge bs->h itself among the cut edges?
                        idxs = [i for i, (s, _l) in enumerate(fn.succ(bs)) if s == h]
                        if not all((bs, i) in cut for i in idxs):
                            every_cycle = False
                # the Delay object must be created outside the loop
                for db in delay_blocks:
                    d = strip_refs(fn.term_of_operand(fn.term(db)["args"][0], db))
                    if d[0] == "var":
                        for df in fn.defs().get(d[1], []):
                            if df[0] in ("call", "assign") and df[1] in body:
                                every_cycle = False
                    elif d[0] != "arg":
                        every_cycle = False
            key = "loop@%s" % fn.loc(h).split(":")[-1] if False else "loop:%s:%s" % (kind or "poll", "delay" if delay_blocks else "nodelay")
            if kind in ("for-slice", "for-range") and not delay_blocks:
                # inner for loops with constant/slice bounds are fine if they contain no nested unbounded loop (handled separately)
                R.ok(fn, key, "bounded `for` loop (%s) at %s" % (kind, fn.loc(h)), fn.loc(h))
            elif every_cycle:
                R.ok(fn, key, "every cycle passes Delay::delay(..)? with the Delay created outside the loop (at %s)" % fn.loc(h), fn.loc(h))
            else:
                R.bad(fn, key, "loop at %s can cycle without passing a successful Delay::delay (no bound on SPI traffic if the card keeps answering)" % fn.loc(h), fn.loc(h))
    d = F.fn("sdcard::Delay::delay")

    def is_counter(x):
        x = strip_refs(x)
        return x[0] == "place" and x[2] and x[2][-1] == "retries_left"

    def checked(x):
        """x = retries_left.checked_sub(c), c >= 1"""
        return x[0] == "call" and x[1] and x[1].endswith("::checked_sub") and is_counter(x[2][0]) and x[2][1][0] == "c" and isinstance(x[2][1][1], int) and x[2][1][1] >= 1

    from .ev import cmp_forms

    def counter_like(x):
        """the counter, or a copy of it taken for the test (`match self.retries_left { 0 => .., remaining => .. }`)"""
        x = strip_refs(x)
        if is_counter(x):
            return True
        if x[0] == "var":
            ds_ = var_def_terms(d, x[1])
            return len(ds_) == 1 and is_counter(ds_[0])
        return False

    def zero_edge(g):
        """guard edge taken exactly when the counter cannot be decremented (if == 0, if > 0 .. else, match 0 =>, checked_sub None)"""
        for (op, a, b, t) in cmp_forms(g):
            if counter_like(a) and strip_refs(b)[:2] == ("c", 0) and ((op == "Eq" and t) or (op in ("Gt", "Ne") and not t)):
                return True
        return g.kind == "variant" and g.variant == "None" and checked(g.term)

    def nonzero_edge(g):
        for (op, a, b, t) in cmp_forms(g):
            if counter_like(a) and strip_refs(b)[:2] == ("c", 0) and ((op == "Eq" and not t) or (op in ("Gt", "Ne") and t)):
                return True
        return g.kind == "variant" and g.variant == "Some" and checked(g.term)

    zero_err = False
    dec = False
    for (gb, gi, g) in all_guards(d):
        if zero_edge(g):
            tgt = d.succ(gb)[gi][0]
            reach = d.reach([tgt])
            zero_err = not any(x[0] in reach for x in ok_returns(d))
    stores = [(b, i, d.term_of_rvalue(s["rv"], b)) for b, i, s in d.stmts() if s["k"] == "Assign" and s["p"]["proj"] and d.place_str(s["p"]).endswith("retries_left")]
    for b, i, v in stores:
        m = tmatch(v, ("bin", "Sub", "_", ("c", 1)))
        dec = (m is not None and counter_like(v[2])) or (v[0] == "place" and checked(v[1]) and tuple(v[2]) == ("as:Some", "0"))
    R.require(zero_err and dec, d, "ranking", "Delay::delay must fail when retries_left == 0 and otherwise decrement it", d.loc(0))
    # ... in that order: the decrement happens only after the counter was seen to be non-zero (a budget of 0 must fail, not wrap to 2^32-1)
    for b, i, v in stores:
        g, _ = guarded(d, b, nonzero_edge)
        R.require(g, d, "test-before-decrement", "Delay::delay decrements retries_left before testing it for zero: with a budget of 0 (AcquireOpts::acquire_retries = 0) the counter underflows - a panic, or 2^32-1 retries (an effectively unbounded wait)", d.loc(b, i))
    for nm, cst in (("new_read", "DEFAULT_READ_RETRIES"), ("new_write", "DEFAULT_WRITE_RETRIES"), ("new_command", "DEFAULT_COMMAND_RETRIES")):
        v = F.const("sdcard::Delay::" + cst)
        R.require(0 < v < 2 ** 32 - 1, None, "finite:" + cst, "%s must be a finite retry count" % cst, okdetail="%s = %d" % (cst, v))


@rule("SD13", ["C13", "C14"], floor=3,
      doc="a failed initialisation leaves the card uninitialised: in acquire the only store to card_type is Some(kind) and no Err return is reachable after it; mark_card_uninit stores None")
def sd13(F, R):
    acq = F.fn(SD + "::acquire")
    bodies = [acq] + F.closures_of(acq)
    stores = []
    for f in bodies:
        for b, i, s in f.stmts():
            if s["k"] == "Assign" and s["p"]["proj"] and [e[2] for e in f.canon_place(s["p"])["proj"] if e[0] == "field"][-1:] == ["card_type"]:
                stores.append((f, b, i, s))
    R.require(len(stores) == 1, acq, "single-store", "acquire must store card_type exactly once (found %d stores)" % len(stores), acq.loc(0))
    for (f, b, i, s) in stores:
        v = f.term_of_rvalue(s["rv"], b)
        R.require(v[0] == "agg" and v[2] and v[2].endswith("Option::Some"), f, "stores-some", "acquire stores %s into card_type" % tstr(v), f.loc(b, i))
        after = f.reach_after(b) | {b}
        bad = []
        for (eb, ei, var, term) in err_returns(f, adt="Error"):
            if eb in after and not (eb == b and ei < i):
                bad.append(f.loc(eb, ei))
        for bb, t in f.calls():
            if bb in after and (callee_of(t) or "").endswith("FromResidual::from_residual"):
                bad.append(f.loc(bb))
        R.require(not bad, f, "no-err-after-commit", "an Err return is reachable after the card type has been committed (%s): a failed initialisation would leave the card marked initialised" % bad, f.loc(b, i))
    # ... and nothing that can fail comes after the committing closure has returned: acquire hands back the closure's own result
    if stores and stores[0][0] is not acq:
        cc = [b for b, t in acq.calls() if (callee_of(t) or "").endswith(("Fn::call", "FnMut::call_mut", "FnOnce::call_once"))]
        bad2 = []
        for cb in cc:
            after = acq.reach_after(cb)
            for bb, t in acq.calls():
                if bb in after and (callee_of(t) or "").endswith(("FromResidual::from_residual", "Try::branch")):
                    bad2.append(acq.loc(bb))
            for (eb, ei, var, term) in err_returns(acq, adt="Error"):
                if eb in after:
                    bad2.append(acq.loc(eb, ei))
        R.require(bool(cc) and not bad2, acq, "no-err-after-commit:outer", "after the initialisation sequence (which commits the card type on success) acquire can still fail (%s): the call reports an error but the card stays marked initialised, so the next call skips CMD0" % bad2, acq.loc(cc[0]) if cc else acq.loc(0))
    m = [f for f in F.fns if f.npath.endswith("SdCard::mark_card_uninit")]
    okm = False
    for f in m:
        for b, i, s in f.stmts():
            if s["k"] == "Assign" and s["p"]["proj"] and "card_type" in f.place_str(s["p"]):
                v = f.term_of_rvalue(s["rv"], b)
                okm = v[0] == "agg" and v[2] and v[2].endswith("Option::None")
    R.require(okm, None, "mark-uninit", "mark_card_uninit must store None into card_type")


@rule("SD14", ["C12", "C14"], floor=5,
      doc="identification handshake in acquire: starts with CMD0; CMD59 only when use_crc; CMD8(0x1AA) decides SD1 (ILLEGAL|IDLE) vs SD2 (echo 0xAA) with ACMD41 argument 0 vs 0x4000_0000; ACMD41 polled until READY; CMD58 only for SD2, SDHC iff (ocr[0] & 0xC0) == 0xC0")
def sd14(F, R):
    def _is_const5(z):
        """R1_ILLEGAL_COMMAND | R1_IDLE_STATE, folded or not, either way round"""
        z = strip_refs(z)
        if z[:2] == ("c", 5):
            return True
        return z[0] == "bin" and z[1] in ("BitOr", "Add") and {strip_refs(z[2])[:2], strip_refs(z[3])[:2]} == {("c", 4), ("c", 1)}
    acq = F.fn(SD + "::acquire")
    cl = [c for c in F.closures_of(acq)]
    if not cl:
        R.bad(acq, "closure", "acquire closure not found", kind="anchor-missing")
        return
    f = cl[0]
    cmds = []
    for b, t in f.calls():
        n_ = call_matches(t, ("SdCardInner::card_command", "SdCardInner::card_acmd"))
        if n_:
            nm, val = cmd_const(f.term_of_operand(t["args"][1], b))
            cmds.append((b, nm, f.term_of_operand(t["args"][2], b), n_))
    names = [c[1] for c in cmds]
    R.require(sorted(names) == sorted(["CMD0", "CMD59", "CMD8", "ACMD41", "CMD58"]), f, "commands", "identification must use exactly CMD0, CMD59, CMD8, ACMD41, CMD58; got %s" % names, f.loc(0))
    byname = {c[1]: c for c in cmds}
    if sorted(names) != sorted(["CMD0", "CMD59", "CMD8", "ACMD41", "CMD58"]):
        return
    order = ["CMD0", "CMD8", "ACMD41"]
    # `for _ in 1..` never ends by itself: the None edge of RangeFrom::next is infeasible
    inf = lambda g: g.kind == "variant" and g.variant == "None" and g.term[0] == "call" and (g.term[1] or "").endswith("Iterator::next") and "RangeFrom" in f.locals[strip_refs(g.term[2][0])[1]]["ty"] if strip_refs(g.term[2][0])[0] == "var" else False
    def inf2(g):
        try:
            return inf(g)
        except Exception:
            return False
    from .ev import cmp_forms as _cf14
    idle = lambda g: any(op == "Eq" and t_ is True and strip_refs(b_)[:2] == ("c", 1) and "Ok" in tstr(a_) and has_sub(a_, lambda q: q[0] == "call" and q[1] and path_matches(q[1], "SdCardInner::card_command")) for (op, a_, b_, t_) in _cf14(g))
    for a, z in zip(order, order[1:]):
        if a == "CMD0":
            okd, _ = guarded(f, byname[z][0], lambda g: idle(g) or inf2(g))
        else:
            okd = f.dominates(byname[a][0], byname[z][0])
        R.require(okd, f, "order:%s<%s" % (a, z), "%s must precede %s" % (a, z), f.loc(byname[z][0]))
    # CMD0 loop exit only on R1_IDLE_STATE
    ok0, _ = guarded(f, byname["CMD8"][0], lambda g: idle(g) or inf2(g))
    R.require(ok0, f, "cmd0-idle", "identification proceeds past CMD0 without an R1_IDLE_STATE (0x01) answer", f.loc(byname["CMD8"][0]))
    ok59, _ = guarded(f, byname["CMD59"][0], lambda g: g.kind == "bool" and last_field(g.term) == "use_crc" and g.truth is True)
    R.require(ok59 and byname["CMD59"][2][:2] == ("c", 1), f, "cmd59", "CMD59(1) must be sent exactly when use_crc is set", f.loc(byname["CMD59"][0]))
    # "exactly": no other test of driver state stands between use_crc and the command (CMD0 has just reset the card to CRC-off,
    # so a "done already" flag from an earlier acquisition must not suppress it)
    extra59 = []
    for (gb, gi, g) in all_guards(f):
        if g.kind == "bool" and f.unreachable_without(byname["CMD59"][0], [(gb, gi)]):
            t_ = strip_refs(g.term)
            if last_field(g.term) == "use_crc":
                continue
            if t_[0] == "place" and strip_refs(t_[1])[0] == "arg" and not has_sub(t_, lambda q: q[0] == "call"):
                extra59.append(repr(g)[:60])
    R.require(not extra59, f, "cmd59-every-acquire", "CMD59 is sent only under a further test of driver state (%s): after a re-initialisation (CMD0 resets the card to CRC off) driver and card disagree about the CRC mode" % "; ".join(extra59), f.loc(byname["CMD59"][0]))
    R.require(byname["CMD8"][2][:2] == ("c", 0x1AA), f, "cmd8-arg", "CMD8 argument must be 0x1AA", f.loc(byname["CMD8"][0]))
    # card type / ACMD41 arg pairing
    pairs = {}
    for b, i, s in f.stmts():
        if s["k"] == "Assign" and not s["p"]["proj"]:
            v = f.term_of_rvalue(s["rv"], b)
            if v[0] == "agg" and v[2] and "CardType::" in v[2]:
                kind = v[2].split("::")[-1]
                # the arg constant assigned in the same block
                for s2 in f.blocks[b]["stmts"]:
                    if s2["k"] == "Assign" and not s2["p"]["proj"] and f.locals[s2["p"]["l"]]["ty"] == "u32":
                        v2 = f.term_of_rvalue(s2["rv"], b)
                        if v2[0] == "c":
                            pairs[kind] = (v2[1], b)
    # ... or the two are paired in one tuple: `break (CardType::SD2, 0x4000_0000)`
    for b, i, s in f.stmts():
        if s["k"] == "Assign" and s["rv"]["k"] == "Aggregate" and s["rv"].get("agg") == "Tuple" and len(s["rv"]["ops"]) == 2:
            x0, x1 = strip_refs(f.term_of_operand(s["rv"]["ops"][0], b)), strip_refs(f.term_of_operand(s["rv"]["ops"][1], b))
            for ka, va in ((x0, x1), (x1, x0)):
                if ka[0] == "agg" and ka[2] and "CardType::" in ka[2] and va[0] == "c" and isinstance(va[1], int):
                    pairs[ka[2].split("::")[-1]] = (va[1], b)
    # ... or the argument is chosen afterwards by a match on the card type found: decided per card type
    if not ("SD1" in pairs and "SD2" in pairs) and "ACMD41" in byname:
        from .ev import specialise_enum
        argt = strip_refs(byname["ACMD41"][2])
        if argt[0] == "var":
            is_ct = lambda t_: strip_refs(t_)[0] == "var" and "CardType" in f.locals[strip_refs(t_)[1]]["ty"]
            vs_ = F.variants("sdcard::CardType")
            for kind in ("SD1", "SD2"):
                rs_ = f.reach([0], cut_edges=specialise_enum(f, is_ct, vs_, kind))
                vals_ = set()
                for d in f.defs().get(argt[1], []):
                    if d[0] == "assign" and d[1] in rs_:
                        dv = f.term_of_rvalue(d[3], d[1])
                        vals_.add(dv[1] if dv[0] == "c" else None)
                # only the arm definitions behind the match are candidates: a definition reachable for both kinds with
                # different constants is resolved by the specialisation (the other arm is cut)
                if len(vals_) == 1 and None not in vals_:
                    # (the block is where this kind is decided: the guards on CMD8's answer are checked there)
                    kb = [b for b, i, s_ in f.stmts() if s_["k"] == "Assign" and not s_["p"]["proj"] and (lambda v_: v_[0] == "agg" and v_[2] and v_[2].endswith("CardType::" + kind))(f.term_of_rvalue(s_["rv"], b))]
                    if len(kb) == 1:
                        pairs[kind] = (list(vals_)[0], kb[0])
    R.require(pairs.get("SD1", (None,))[0] == 0 and pairs.get("SD2", (None,))[0] == 0x40000000, f, "acmd41-arg", "ACMD41 argument must be 0 for SD1 and 0x4000_0000 (HCS) for SD2; got %s" % {k: hex(v[0]) for k, v in pairs.items()}, f.loc(0))
    if "SD1" in pairs:
        ok, _ = guarded(f, pairs["SD1"][1], g_cmp("Eq", True, lambda a: has_sub(a, lambda q: q[0] == "call" and q[1] and path_matches(q[1], "SdCardInner::card_command")), lambda z: _is_const5(z)))
        R.require(ok, f, "sd1-iff-illegal", "SD1 must be chosen exactly when CMD8 answers ILLEGAL_COMMAND|IDLE", f.loc(pairs["SD1"][1]))
    if "SD2" in pairs:
        ok, _ = guarded(f, pairs["SD2"][1], lambda g: g_cmp("Eq", True, None, lambda z: z[:2] == ("c", 0xAA))(g) or (g.kind == "value" and g.value == 0xAA))
        R.require(ok, f, "sd2-iff-echo", "SD2 must be chosen only when the CMD8 echo byte is 0xAA", f.loc(pairs["SD2"][1]))
    # every place that sets the kind: SD1 only on CMD8's illegal-command answer, SD2 only on the 0xAA echo (a later
    # "downgrade" - e.g. in the else of the OCR test - reports a version-2 card as version 1)
    kind_locals = set()
    for b_, i_, s_ in f.stmts():
        if s_["k"] == "Assign" and s_["p"]["proj"] and [e[2] for e in s_["p"]["proj"] if e[0] == "field"][-1:] == ["card_type"]:
            for q in subterms(f.term_of_rvalue(s_["rv"], b_)):
                if q[0] == "var" and isinstance(q[1], int) and f.locals[q[1]]["ty"].endswith("CardType"):
                    kind_locals.add(q[1])
    for _k in range(4):        # temporaries the kind is chosen in before it is assigned (`card_type = if c { A } else { B }`)
        for b_, i_, s_ in f.stmts():
            if s_["k"] == "Assign" and not s_["p"]["proj"] and s_["p"]["l"] in kind_locals and s_["rv"]["k"] == "Use" and s_["rv"]["op"].get("k") in ("copy", "move") and not s_["rv"]["op"]["p"]["proj"]:
                kind_locals.add(s_["rv"]["op"]["p"]["l"])
    R.require(bool(kind_locals), f, "kind-stored", "acquire does not store the identified kind in self.card_type from a local", f.loc(0))
    kind_sets = {kd: [(b_, i_) for b_, i_, s_ in f.stmts() if s_["k"] == "Assign" and not s_["p"]["proj"] and s_["p"]["l"] in kind_locals and (lambda v_: v_[0] == "agg" and v_[2] and v_[2].endswith("CardType::" + kd))(strip_refs(f.term_of_rvalue(s_["rv"], b_)))] for kd in ("SD1", "SD2")}
    is_cmd8_answer = lambda a: has_sub(a, lambda q: q[0] == "call" and q[1] and path_matches(q[1], "SdCardInner::card_command"))
    bad1 = [(b_, i_) for b_, i_ in kind_sets["SD1"] if not guarded(f, b_, g_cmp("Eq", True, is_cmd8_answer, _is_const5))[0]]
    R.require(bool(kind_sets["SD1"]) and not bad1, f, "sd1-only-on-illegal", "the card kind is set to SD1 at a place that is not behind CMD8's ILLEGAL_COMMAND|IDLE answer", f.loc(*bad1[0]) if bad1 else f.loc(0))
    bad2 = [(b_, i_) for b_, i_ in kind_sets["SD2"] if not guarded(f, b_, lambda g: g_cmp("Eq", True, None, lambda z: z[:2] == ("c", 0xAA))(g) or (g.kind == "value" and g.value == 0xAA))[0]]
    R.require(bool(kind_sets["SD2"]) and not bad2, f, "sd2-only-on-echo", "the card kind is set to SD2 at a place that is not behind the 0xAA echo of CMD8", f.loc(*bad2[0]) if bad2 else f.loc(0))
    # with use_crc set there is no way to ACMD41 around CMD59 (no second condition - card version, retries - on enabling the CRC)
    crc_off_edges = [(gb, gi) for (gb, gi, g) in all_guards(f) if g.kind == "bool" and last_field(g.term) == "use_crc" and g.truth is False]
    around59 = f.reach([0], cut_edges=crc_off_edges, cut_blocks=[byname["CMD59"][0]])
    R.require(byname["ACMD41"][0] not in around59, f, "cmd59-whenever-use_crc", "with use_crc set the handshake can reach ACMD41 without having sent CMD59 (the CRC is enabled only under a further condition): the driver then checks CRCs the card does not produce", f.loc(byname["CMD59"][0]))
    # the four bytes behind R1 of CMD8 (R7) and CMD58 (R3) are clocked in before they are looked at / before the next command
    tb = [b_ for b_, t_ in f.calls() if call_matches(t_, ("SdCardInner::transfer_bytes", "SdCardInner::read_bytes"))]
    sdhc_sets = [b_ for b_, i_, s_ in f.stmts() if s_["k"] == "Assign" and (lambda v_: v_[0] == "agg" and v_[2] and v_[2].endswith("CardType::SDHC"))(strip_refs(f.term_of_rvalue(s_["rv"], b_)))]
    skip58 = [b_ for b_ in sdhc_sets if b_ in f.reach_after(byname["CMD58"][0], cut_blocks=tb)]
    R.require(bool(sdhc_sets) and not skip58, f, "ocr-read-before-use", "the OCR test after CMD58 can be reached without the four OCR bytes having been read from the card (they stay on the bus and the buffer holds its 0xFF filler)", f.loc(byname["CMD58"][0]))
    skip8 = [b_ for b_, i_ in kind_sets["SD2"] if b_ in f.reach_after(byname["CMD8"][0], cut_blocks=tb)]
    R.require(not skip8, f, "r7-read-before-use", "the CMD8 echo test can be reached without the four R7 bytes having been read from the card", f.loc(byname["CMD8"][0]))
    a41 = byname["ACMD41"]
    R.require(a41[3].endswith("card_acmd") and strip_refs(a41[2])[0] in ("var", "place"), f, "acmd41-via-acmd", "ACMD41 must be sent with card_acmd and the per-kind argument", f.loc(a41[0]))
    from .ev import specialise_enum
    kinds = F.variants("sdcard::CardType")
    is_kind_local = lambda x: x[0] == "var" and f.locals[x[1]]["ty"].endswith("CardType")
    for kd in ("SD1", "SD2"):
        rs = f.reach([0], cut_edges=specialise_enum(f, is_kind_local, kinds, kd))
        R.require((byname["CMD58"][0] in rs) == (kd == "SD2"), f, "cmd58-sd2:" + kd, "CMD58 must be sent exactly for SD2 cards (for %s it %s)" % (kd, "is sent" if kd != "SD2" else "is not sent"), f.loc(byname["CMD58"][0]))
    # SDHC upgrade
    up = [(b, i) for b, i, s in f.stmts() if s["k"] == "Assign" and not s["p"]["proj"] and (lambda v: v[0] == "agg" and v[2] and v[2].endswith("CardType::SDHC"))(f.term_of_rvalue(s["rv"], b))]
    oku = False
    from .specialise import accepted_values
    for b, i in up:
        g1, _ = guarded(f, b, g_cmp("Eq", True, lambda a: tmatch(a, ("bin", "BitAnd", "_", ("c", 0xC0))) is not None, lambda z: z[:2] == ("c", 0xC0)))
        if not g1:
            # any other way of saying "both top bits of the first OCR byte are set": the exact set of byte values admitted
            def ocr0(x):
                x = strip_refs(x)
                return x[0] == "place" and any(isinstance(e, tuple) and e[0] in ("idx", "cidx") and ((e[0] == "idx" and e[1][:2] == ("c", 0)) or (e[0] == "cidx" and e[1] == 0)) for e in x[2]) and fn_local_is_buf(x)
            def fn_local_is_buf(x):
                base = strip_refs(x[1])
                return base[0] == "var" and isinstance(base[1], int) and f.locals[base[1]]["ty"].replace(" ", "") == "[u8;4]"
            vals, used = accepted_values(f, b, ocr0, 8)
            g1 = used >= 1 and vals == set(range(0xC0, 0x100))
        g2, _ = guarded(f, b, g_cmp("Eq", True, lambda a: has_sub(a, lambda q: q[0] == "call" and q[1] and path_matches(q[1], "SdCardInner::card_command")), lambda z: z[:2] == ("c", 0)))
        g2b, _ = guarded(f, b, g_cmp("Eq", False, lambda a: has_sub(a, lambda q: q[0] == "call" and q[1] and path_matches(q[1], "SdCardInner::card_command")), lambda z: z[:2] == ("c", 0)))
        oku = g1 and (g2 or not g2b)
    R.require(oku, f, "sdhc-iff-ccs", "SDHC must be chosen iff CMD58 succeeded and (ocr[0] & 0xC0) == 0xC0", f.loc(up[0][0]) if up else None)
    # a CMD58 that the card answers with an error is refused: no Ok exit from there unless its R1 was tested == 0
    def _is58(a):
        return has_sub(a, lambda q: q[0] == "call" and q[1] and path_matches(q[1], "SdCardInner::card_command") and len(q[2]) > 1 and cmd_const(q[2][1])[0] == "CMD58")
    pass58 = [(gb, gi) for (gb, gi, g) in all_guards(f) if g_cmp("Eq", True, _is58, lambda z: z[:2] == ("c", 0))(g)]
    r58 = f.reach_after(byname["CMD58"][0], cut_edges=pass58)
    bad58 = [b_ for (b_, _i, _v) in ok_returns(f) if b_ in r58]
    R.require(bool(pass58) and not bad58, f, "cmd58-failure-refused", "acquire can succeed although CMD58 was answered with an error R1 (no Cmd58Error): the OCR bytes read then are not an OCR", f.loc(byname["CMD58"][0]))
    # ACMD41 loop leaves only on READY
    oks = ok_returns(f)
    for (b, i, v) in oks:
        ok, _ = guarded(f, b, g_cmp("Eq", True, lambda a: has_sub(a, lambda q: q[0] == "call" and q[1] and path_matches(q[1], "SdCardInner::card_acmd")), lambda z: z[0] == "c" and z[1] == 0))
        ok2, _ = guarded(f, b, g_cmp("Eq", False, lambda a: has_sub(a, lambda q: q[0] == "call" and q[1] and path_matches(q[1], "SdCardInner::card_acmd")), lambda z: z[0] == "c" and z[1] == 0))
        R.require(ok, f, "ready", "identification can complete without ACMD41 having answered R1_READY_STATE (0x00): an error flag or any non-idle answer is taken for 'initialised' and data commands follow", f.loc(b, i))
    # the OCR is read (CMD58) only after ACMD41 has answered READY: before that its power-up and CCS bits are not valid
    ok58, _ = guarded(f, byname["CMD58"][0], g_cmp("Eq", True, lambda a: has_sub(a, lambda q: q[0] == "call" and q[1] and path_matches(q[1], "SdCardInner::card_acmd")), lambda z: z[0] == "c" and z[1] == 0))
    R.require(ok58, f, "ocr-after-ready", "CMD58 (read OCR) is sent before ACMD41 has answered READY: the capacity bit read then is not valid yet, so high-capacity cards are taken for byte-addressed ones", f.loc(byname["CMD58"][0]))


DELAY_CTORS = {"new_command": "DEFAULT_COMMAND_RETRIES", "new_read": "DEFAULT_READ_RETRIES", "new_write": "DEFAULT_WRITE_RETRIES"}


def _loop_budget(F, fn, h, body):
    """('range', n) | ('delay', ctor) | ('delay-arg', argname) | None for a poll loop"""
    for b in body:
        t = fn.term(b)
        if t["k"] == "Call" and (callee_of(t) or "").endswith("Iterator::next") and "core::ops::Range<" in t.get("callee_full", ""):
            # constant end of the range
            it = strip_refs(fn.term_of_operand(t["args"][0], b))
            cands = [it] if it[0] != "var" else var_def_terms(fn, it[1])
            for c in cands:
                r = find_sub(c, ("agg", "Range", ["$a", "$b"]))
                if r is not None:
                    def cv(x):
                        if x[0] == "c":
                            return x[1]
                        if x[0] == "cdef":
                            from .mir import strip_generics
                            try:
                                return F.const(strip_generics(x[1]))
                            except KeyError:
                                return None
                        return None
                    lo, hi = cv(r["$a"]), cv(r["$b"])
                    if isinstance(lo, int) and isinstance(hi, int):
                        return ("range", hi - lo)
            return ("range", None)
    for b in body:
        t = fn.term(b)
        if t["k"] == "Call" and call_matches(t, ("sdcard::Delay::delay",)):
            d = strip_refs(fn.term_of_operand(t["args"][0], b))
            if d[0] == "arg":
                return ("delay-arg", d[1])
            if d[0] == "var" and 1 <= d[1] <= fn.arg_count and not [x for x in fn.defs().get(d[1], []) if x[0] in ("assign", "call")]:
                return ("delay-arg", d[1])
            if d[0] == "var":
                for dt in var_def_terms(fn, d[1]):
                    dt = strip_refs(dt)
                    if dt[0] == "arg":
                        return ("delay-arg", dt[1])             # the parameter handed on (through an inlined helper's own parameter)
                    if dt[0] == "call" and dt[1]:
                        nm = dt[1].split("::")[-1]
                        if nm in DELAY_CTORS:
                            return ("delay", nm)
                        if nm == "new":
                            return ("delay-new", dt[2][0])
            if d[0] == "call" and d[1] and d[1].split("::")[-1] in DELAY_CTORS:
                return ("delay", d[1].split("::")[-1])
    return None


@rule("SD15", ["C12", "C13"], floor=5,
      doc="patience lower bounds (the card is legal, so the driver must wait long enough): the command-response poll in card_command reads at least N_CR+1 = 9 bytes before giving up (response may start in the 9th byte); the data-token wait in read_data lasts >= 100 ms and the busy waits of the write path >= 250 ms (SD Physical Layer 4.6.2.1 / 4.6.2.2) counted as retries x the 10 us Delay step; each Delay constructor passes its own DEFAULT_* constant")
def sd15(F, R):
    from .dataflow import var_def_terms as _v  # noqa
    step_us = None
    d = F.fn("sdcard::Delay::delay")
    for b, t in d.calls():
        if (callee_of(t) or "").endswith("delay_us"):
            a = d.term_of_operand(t["args"][1], b)
            if a[0] == "c":
                step_us = a[1]
    R.require(step_us is not None and step_us >= 1, d, "step", "Delay::delay must wait a constant number of microseconds per retry", d.loc(0), okdetail="%s us per retry" % step_us)
    step_us = step_us or 0
    consts = {}
    for nm, cst in DELAY_CTORS.items():
        f = F.fn("sdcard::Delay::" + nm)
        args = [f.term_of_operand(t["args"][0], b) for b, t in f.calls() if (callee_of(t) or "").endswith("Delay::new")]
        # (by value: the budget actually handed to Delay::new is what the patience bounds below are computed from)
        ok = len(args) == 1 and args[0][0] == "c" and isinstance(args[0][1], int) and args[0][1] == F.const("sdcard::Delay::" + cst)
        R.require(ok, f, "ctor:" + nm, "Delay::%s must be Delay::new(%s)" % (nm, cst), f.loc(0))
        consts[nm] = args[0][1] if (len(args) == 1 and args[0][0] == "c" and isinstance(args[0][1], int)) else F.const("sdcard::Delay::" + cst)

    def budget_us(bud):
        if bud is None:
            return None
        if bud[0] == "delay":
            return consts[bud[1]] * step_us
        return None

    def polls(bud):
        if bud is None:
            return None
        if bud[0] == "range":
            return bud[1]
        if bud[0] == "delay":
            return consts[bud[1]] + 1
        return None

    # card_command response loop
    fn = F.fn(SD + "::card_command")
    found = 0
    for (h, body, backs) in fn.loops():
        if not any(fn.term(b)["k"] == "Call" and call_matches(fn.term(b), ("read_byte",)) for b in body):
            continue
        found += 1
        p = polls(_loop_budget(F, fn, h, body))
        R.require(p is not None and p >= 9, fn, "response-polls", "the command response is given up after %s byte reads; a card may legally answer in the 9th byte (N_CR = 8): every command times out on such a card" % p, fn.loc(h), okdetail="%s polls >= 9" % p)
    R.require(found == 1, fn, "response-loop", "expected one response poll loop in card_command, found %d" % found, fn.loc(0))
    # read_data token wait
    fn = F.fn(SD + "::read_data")
    found = 0
    for (h, body, backs) in fn.loops():
        if not any(fn.term(b)["k"] == "Call" and call_matches(fn.term(b), ("read_byte",)) for b in body):
            continue
        found += 1
        us = budget_us(_loop_budget(F, fn, h, body))
        R.require(us is not None and us >= 100000, fn, "token-wait", "the data start token is awaited for %s us; the read access time may be 100 ms" % us, fn.loc(h), okdetail="%s us >= 100 ms" % us)
    R.require(found == 1, fn, "token-loop", "expected one token wait loop in read_data, found %d" % found, fn.loc(0))
    # busy waits on the write path
    nb = 0
    for name in ("write", "write_data"):
        fn = F.fn(SD + "::" + name)
        for b, t in fn.calls():
            if call_matches(t, ("wait_not_busy",)):
                nb += 1
                a = strip_refs(fn.term_of_operand(t["args"][1], b))
                nm = a[1].split("::")[-1] if a[0] == "call" and a[1] else None
                us = consts.get(nm, 0) * step_us if nm in consts else None
                R.require(us is not None and us >= 250000, fn, "busy-wait", "a programming busy period is awaited for %s us (%s); the card may be busy for 250 ms" % (us, tstr(a)), fn.loc(b), okdetail="%s us >= 250 ms" % us)
    R.require(nb >= 4, None, "busy-sites", "expected >= 4 busy waits on the write path, found %d" % nb)
    wn = F.fn(SD + "::wait_not_busy")
    bud = [_loop_budget(F, wn, h, body) for (h, body, backs) in wn.loops()]
    R.require(bud == [("delay-arg", 2)], wn, "busy-loop", "wait_not_busy must be bounded by the Delay it is given (found %s)" % bud, wn.loc(0))


@rule("SD17", ["C14"], floor=5,
      doc="the host data-out line idles high while the card is talking: every full-duplex receive (transfer_bytes -> SpiDevice::transfer_in_place) is handed a buffer that holds only 0xFF at that point - a local array freshly initialised to [0xFF; n], or the caller's buffer right after buffer.fill(0xFF) - and read_byte clocks out 0xFF; otherwise stale buffer contents (possibly a valid command frame) are clocked into the card during a data block")
def sd17(F, R):
    n = 0
    for fn in F.fns:
        if not fn.npath.startswith("sdcard::") or fn.npath.startswith("sdcard::proto"):
            continue
        dom = fn.dominators()
        for b, t in fn.calls():
            if call_matches(t, ("SdCardInner::transfer_byte",)) and fn.npath.endswith("::read_byte"):
                n += 1
                a = fn.term_of_operand(t["args"][1], b)
                R.require(a[:2] == ("c", 0xFF), fn, "read_byte", "read_byte must clock out 0xFF, sends %s" % tstr(a), fn.loc(b))
            if not call_matches(t, ("SdCardInner::transfer_bytes",)):
                continue
            n += 1
            buf = strip_refs(fn.term_of_operand(t["args"][1], b))

            def uses_buf(tt, bb):
                return any(strip_refs(fn.term_of_operand(a, bb)) == buf for a in tt["args"])

            init = None   # block of the establishing 0xFF initialisation
            if buf[0] == "var":
                for d in fn.defs().get(buf[1], []):
                    if d[0] == "assign" and d[1] in dom.get(b, ()):
                        v = fn.term_of_rvalue(d[3], d[1])
                        allff = (v[0] == "repeat" and v[1][:2] == ("c", 0xFF)) or (v[0] == "agg" and v[3] and all(o[:2] == ("c", 0xFF) for o in v[3]))
                        if allff:
                            init = d[1]
            else:
                for bb, tt in fn.calls():
                    if (callee_of(tt) or "").endswith("::fill") and bb in dom.get(b, ()) and bb != b and strip_refs(fn.term_of_operand(tt["args"][0], bb)) == buf and fn.term_of_operand(tt["args"][1], bb)[:2] == ("c", 0xFF):
                        init = bb
            if init is None:
                R.bad(fn, "receive-buffer", "transfer_bytes(%s) receives into a buffer that was not set to 0xFF first: its previous contents are clocked out to the card while the card sends data" % tstr(buf), fn.loc(b))
                continue
            # nothing touches the buffer between the initialisation and the transfer
            between = [bb for bb in fn.reach_after(init, cut_blocks=[b]) if b in fn.reach([bb], cut_blocks=[init])]
            dirty = [bb for bb in between if bb != b and fn.term(bb)["k"] == "Call" and uses_buf(fn.term(bb), bb)]
            stores = [bb for bb, ii, s in fn.stmts() if bb in between and bb != init and s["k"] == "Assign" and buf[0] == "var" and s["p"]["l"] == buf[1]]
            # the transfer fills the buffer with what the card sent: a second trip through the same transfer (a retry loop) without
            # passing the initialisation again clocks those bytes out
            again = b in fn.reach_after(b, cut_blocks=[init])
            R.require(not again, fn, "receive-buffer:fresh-each-time", "transfer_bytes(%s) can run again (a retry loop) without the buffer having been set back to 0xFF: the bytes received last time are clocked out to the card" % tstr(buf), fn.loc(b))
            R.require(not dirty and not stores, fn, "receive-buffer", "the receive buffer %s is modified between its 0xFF initialisation and the transfer" % tstr(buf), fn.loc(b), okdetail="%s is all 0xFF when handed to transfer_bytes" % tstr(buf))
    R.require(n >= 5, None, "sites", "expected >= 5 receive sites, found %d" % n)


@rule("SD18", ["C13", "C12", "C14"], floor=5,
      doc="driver state is what the caller configured and what the card last said: (a) the AcquireOpts of a driver (use_crc, acquire_retries) are never written after construction - CRC checking cannot silently switch itself off and a retry budget is not used up across calls; (b) when CRC was requested and CMD59 is not answered with R1_IDLE_STATE, acquire fails with CantEnableCRC and sends nothing more; (c) num_blocks / num_bytes answer from a CSD read in this very call (no capacity remembered across a card change)")
def sd18(F, R):
    n = 0
    for fn in F.fns:
        if not fn.npath.startswith("sdcard::") or fn.npath.startswith("sdcard::proto"):
            continue
        for b, i, s in fn.stmts():
            if s["k"] == "Assign" and s["p"]["proj"]:
                flds = [e[2] for e in s["p"]["proj"] if e[0] == "field"]
                if "options" in flds[:-1]:
                    R.bad(fn, "options-written:" + flds[-1], "%s writes options.%s: the caller's configuration becomes driver state that persists across calls and cards" % (fn.npath.split("::")[-1], flds[-1]), fn.loc(b, i))
                    n += 1
    if n == 0:
        R.ok(None, "options-read-only", "no function of the SD driver stores into its AcquireOpts")
    # (b)
    acq = [f for f in F.fns if f.npath.startswith(SD + "::acquire") and any(call_matches(t, ("SdCardInner::card_command",)) for b, t in f.calls())]
    R.require(len(acq) == 1, None, "acquire-body", "expected the identification sequence in one function / closure")
    for f in acq:
        c59 = [(b, t) for b, t in f.calls() if call_matches(t, ("SdCardInner::card_command",)) and cmd_const(f.term_of_operand(t["args"][1], b))[0] == "CMD59"]
        R.require(len(c59) == 1, f, "cmd59-site", "expected one CMD59 in acquire", f.loc(0))
        for (b, t) in c59:
            from .ev import cmp_forms as _cf
            _is59 = lambda x: has_sub(x, lambda q: q[0] == "call" and q[1] and path_matches(q[1], "SdCardInner::card_command") and q[3] == b)
            bad_edges = [(gb, gi) for (gb, gi, g) in all_guards(f) if any(op == "Eq" and t_ is False and _is59(a_) for (op, a_, b_, t_) in _cf(g))]
            okb = bool(bad_edges)
            for (gb, gi) in bad_edges:
                tgt = f.succ(gb)[gi][0]
                rs = f.reach([tgt])
                more = [bb for bb, tt in f.calls() if bb in rs and call_matches(tt, ("SdCardInner::card_command", "SdCardInner::card_acmd"))]
                errs = [x for x in err_returns(f, adt="Error") if x[0] in rs and x[2] == "CantEnableCRC"]
                okb = okb and not more and bool(errs)
            R.require(okb, f, "cmd59-refused-is-fatal", "a card that does not accept CMD59 (CRC on) must make acquire fail with CantEnableCRC; the identification sequence goes on instead", f.loc(b))
    # (c)
    for nm in ("num_blocks", "num_bytes"):
        f = F.fn(SD + "::" + nm)
        for (b, i, v) in ok_returns(f):
            R.require(guarded(f, b, g_try_ok("SdCardInner::read_csd"))[0], f, "csd-read:" + nm, "%s can answer without reading the card's CSD in this call (a remembered capacity survives a card change)" % nm, f.loc(b, i))


@rule("SD19", ["C14"], floor=6,
      doc="nothing but frames, tokens, data and 0xFF idle bytes is ever driven onto the bus: every write_byte / write_bytes site sends (i) the command frame assembled in card_command, (ii) a data token (write_data's token parameter; STOP_TRAN_TOKEN), (iii) the caller's payload, (iv) the two CRC bytes of write_data, or (v) constant 0xFF filler (flush after an unanswered CMD0); SpiDevice::read (bus-defined filler) is never used")
def sd19(F, R):
    n = 0
    for fn in F.fns:
        if not fn.npath.startswith("sdcard::") or fn.npath.startswith("sdcard::proto"):
            continue
        short = fn.npath.split("::", 2)[-1]
        for b, t in fn.calls():
            c = t.get("callee_full", "") or ""
            if "SpiDevice" in c and (callee_of(t) or "").endswith("::read"):
                R.bad(fn, "spi-read", "%s uses SpiDevice::read: what the bus clocks out meanwhile is not defined to be 0xFF" % short, fn.loc(b))
            if not call_matches(t, ("SdCardInner::write_byte", "SdCardInner::write_bytes")):
                continue
            n += 1
            a = strip_refs(fn.term_of_operand(t["args"][1], b))
            ok = False
            what = tstr(a)[:60]
            if a[0] == "c":
                ok = a[1] == 0xFF or cmd_const(a)[0] in ("STOP_TRAN_TOKEN", "DATA_START_BLOCK", "WRITE_MULTIPLE_TOKEN")
            elif a[0] == "arg":
                ok = fn.npath.endswith("SdCardInner::write_data")     # token / payload parameters of write_data (their values: SD6)
            elif a[0] == "var":
                defs = var_def_terms(fn, a[1])
                if fn.npath.endswith("SdCardInner::card_command"):
                    # the one write_bytes of card_command sends the frame whose six bytes rule SD2 derives bit by bit
                    sites_ = [bb for bb, tt in fn.calls() if call_matches(tt, ("SdCardInner::write_byte", "SdCardInner::write_bytes"))]
                    ok = len(sites_) == 1 and bool(call_matches(t, ("SdCardInner::write_bytes",))) and fn.locals[a[1]]["ty"].replace(" ", "") == "[u8;6]"
                elif fn.npath.endswith("SdCardInner::write_data"):
                    ok = all((d[0] == "call" and d[1] and d[1].endswith("to_be_bytes")) or (d[0] == "agg" and d[3] and all(o[:2] == ("c", 0xFF) for o in d[3])) or (d[0] == "repeat" and d[1][:2] == ("c", 0xFF)) for d in defs)
                else:
                    ok = all((d[0] == "repeat" and d[1][:2] == ("c", 0xFF)) or (d[0] == "agg" and d[3] and all(o[:2] == ("c", 0xFF) for o in d[3])) for d in defs) and bool(defs)
            elif a[0] == "repeat":
                ok = a[1][:2] == ("c", 0xFF)
            elif a[0] == "agg" and a[3]:
                ok = all(o[:2] == ("c", 0xFF) for o in a[3])
            R.require(ok, fn, "mosi:" + short.split("::")[-1], "%s drives %s onto the bus: outside command frames, tokens and data the host must hold its data line high (0xFF); anything else is read by the card as start bits of a frame" % (short, what), fn.loc(b))
    R.require(n >= 6, None, "sites", "expected >= 6 bus write sites, found %d" % n)
