"""WT engine: compile-fail witnesses (rustdoc compile_fail,E.... doctests with compiling twins) in /verif/witness,
built against the tree under test."""
import os
import re
import shutil
import subprocess

from . import facts as factsmod

VERIF = factsmod.VERIF
PROPS = {"TW1": ["C08"], "TW1b": ["C08"], "TW2": ["C08"], "TW3": ["C08"], "TW4": ["C08"], "TW5": ["C08"], "TW6": ["C08", "C01"], "TW7": ["C17"], "prelude": ["C08", "C17"]}


def run(repo, prop):
    """-> list of instance dicts (rule 'TW', status pass/violation)"""
    wdir = os.path.join(factsmod.CACHE, "witness")
    os.makedirs(wdir, exist_ok=True)
    open(os.path.join(wdir, "Cargo.toml"), "w").write(open(os.path.join(VERIF, "witness", "Cargo.toml.in")).read().replace("@REPO@", os.path.abspath(repo)))
    if os.path.exists(os.path.join(wdir, "src")):
        shutil.rmtree(os.path.join(wdir, "src"))
    shutil.copytree(os.path.join(VERIF, "witness", "src"), os.path.join(wdir, "src"))
    lock = os.path.join(repo, "Cargo.lock")
    if os.path.exists(lock):
        shutil.copy(lock, os.path.join(wdir, "Cargo.lock"))
    e = dict(os.environ)
    e["CARGO_NET_OFFLINE"] = "true"
    e["CARGO_TARGET_DIR"] = os.path.join(factsmod.CACHE, "witness-target")
    e.pop("RUSTC_WORKSPACE_WRAPPER", None)
    e.pop("RUSTFLAGS", None)
    import fcntl
    with open(os.path.join(factsmod.CACHE, "witness.lock"), "w") as lk:
        fcntl.flock(lk, fcntl.LOCK_EX)
        r = subprocess.run(["cargo", "+nightly", "test", "--doc", "--offline"], cwd=wdir, env=e, capture_output=True, text=True)
    out = r.stdout + r.stderr
    inst = []
    for m in re.finditer(r"^test src/lib\.rs - (\w+) \(line (\d+)\)( - compile fail)? \.\.\. (\w+)", out, re.M):
        name, line, cf, res = m.group(1), m.group(2), bool(m.group(3)), m.group(4)
        if prop not in PROPS.get(name, ["C08"]):
            continue
        key = "%s:%s@%s" % (name, "compile_fail" if cf else "twin", line)
        if res == "ok":
            inst.append({"rule": "TW", "status": "pass", "function": "witness::" + name, "key": key, "detail": ("rejected by the compiler with the expected error code" if cf else "compiling twin builds"), "loc": "witness/src/lib.rs:" + line, "cfg": "log"})
        else:
            inst.append({"rule": "TW", "status": "violation", "kind": "violation", "function": "witness::" + name, "key": key,
                         "detail": ("the forbidden program COMPILES (type-level protection lost)" if cf else "the compiling twin no longer builds (witness out of date: API changed)"), "loc": "witness/src/lib.rs:" + line, "trace": None, "cfg": "log"})
    if not inst:
        inst.append({"rule": "TW", "status": "violation", "kind": "anchor-missing", "function": None, "key": "witness-run", "detail": "witness crate did not run: " + out[-400:], "loc": None, "trace": None, "cfg": "log"})
    return inst
