"""Long-file-name decoding rules (C17): LF2 capacity, LF3 UTF-8 view discipline, LF4 reporting guard and reset,
LF5 sequence state machine table, LF6 short-name checksum."""
import re

from .framework import rule, Undecided as RuleUndecided
from .ev import all_guards, guarded, g_call, g_cmp, product, Bad
from .mir import tstr, callee_of, path_matches, strip_refs, subterms, tmatch, find_sub, is_log_call
from .fsmodel import call_matches, FATVOL
from .dataflow import var_def_terms
from .rules_guard import has_sub, last_field
from .absint import Interp, State, Undecided
from .absval import (TOP, agg, arr, bits_of, const, int_const, is_agg, is_int, mk_int, sym_int, top_int)

LFN = "filesystem::filename::LfnBuffer"


def iter_len_bound(fn, term, F, depth=0):
    """Upper bound on the number of items an iterator expression yields, from types and constants. None = unknown."""
    t = strip_refs(term)
    if depth > 30:
        return None
    if t[0] == "var":
        bs = [iter_len_bound(fn, d, F, depth + 1) for d in var_def_terms(fn, t[1])]
        if not bs or any(b is None for b in bs):
            return None
        return max(bs)
    if t[0] == "arg":
        ty = fn.locals[t[1]]["ty"]
        m = re.search(r"\[\w+; (\d+)\]", ty)
        return int(m.group(1)) if m else None
    if t[0] == "place":
        return iter_len_bound(fn, t[1], F, depth + 1) if t[2] == ("*",) else None
    if t[0] != "call" or not t[1]:
        return None
    nm = t[1]
    a = t[2]
    short = nm.split("::")[-1]
    if short in ("into_iter", "iter", "iter_mut", "cloned", "copied", "rev", "enumerate", "decode_utf16", "skip", "map", "filter", "peekable"):
        return iter_len_bound(fn, a[0], F, depth + 1)
    if short == "chain":
        x, y = iter_len_bound(fn, a[0], F, depth + 1), iter_len_bound(fn, a[1], F, depth + 1)
        return None if x is None or y is None else x + y
    if short in ("index", "index_mut"):
        # slicing can only shrink
        return iter_len_bound(fn, a[0], F, depth + 1)
    if short == "take" and "Option" in nm:
        return 1
    if short in ("deref", "deref_mut", "as_slice"):
        return iter_len_bound(fn, a[0], F, depth + 1)
    if short == "take" and len(a) == 2 and a[1][0] == "c":
        return a[1][1]
    return None


@rule("LF2", ["C17"], floor=1,
      doc="capacity: every heapless::Vec<_, N>::push(..).expect/unwrap inside a loop is fed by an iterator whose length bound (from types and constants, adaptor by adaptor) is <= N, with at most one push per iteration")
def lf2(F, R):
    fn = F.fn(LFN + "::push")
    pushes = [(b, t) for b, t in fn.calls() if (callee_of(t) or "").endswith("Vec::push") or (callee_of(t) or "").endswith("VecInner::push")]
    if not pushes:
        R.bad(fn, "anchor", "no Vec::push in LfnBuffer::push", kind="anchor-missing")
        return
    # capacity from the vector's type
    caps = set()
    for b, t in pushes:
        v = strip_refs(fn.term_of_operand(t["args"][0], b))
        ty = fn.locals[v[1]]["ty"] if v[0] == "var" else ""
        m = re.search(r"Vec<[^,]+, (\d+)>", ty) or re.search(r"OwnedVecStorage<[^,]+, (\d+)>", ty)
        if m:
            caps.add(int(m.group(1)))
    if len(caps) != 1:
        R.bad(fn, "capacity", "cannot read the capacity of the staging vector from its type (%s)" % sorted(caps), kind="anchor-missing")
        return
    cap = caps.pop()
    # the loop that contains the pushes: its iterator
    loops = fn.loops()
    for (h, body, backs) in loops:
        inloop = [(b, t) for b, t in pushes if b in body]
        if not inloop:
            continue
        nexts = [(b, t) for b in body for t in [fn.term(b)] if t["k"] == "Call" and (callee_of(t) or "").endswith("Iterator::next") and b == h or (t["k"] == "Call" and (callee_of(t) or "").endswith("Iterator::next") and fn.dominates(b, inloop[0][0]) and b in body)]
        if not nexts:
            R.bad(fn, "iterator", "push loop is not driven by an iterator", fn.loc(h))
            continue
        nb, nt = nexts[0]
        it = fn.term_of_operand(nt["args"][0], nb)
        bound = iter_len_bound(fn, it, F)
        # at most one push per iteration: pushes are in mutually exclusive branches (no path from one push to another inside the body without the back edge)
        multi = False
        for (b1, _) in inloop:
            reach = fn.reach_after(b1, cut_blocks=[h])
            if any(b2 in reach for (b2, _) in inloop):
                multi = True
        ok = bound is not None and not multi and bound <= cap
        R.require(ok, fn, "push-capacity", "the staging Vec has capacity %d but the decoding loop can push up to %s chars (13 code units of the fragment plus the surrogate carried over from the previous fragment); push(..).expect() would panic" % (cap, bound if not multi else "2x%s" % bound), fn.loc(inloop[0][0]),
                  okdetail="iterator yields <= %s items, capacity %d" % (bound, cap))


def window_store(p):
    """The second accepted form of push's byte store: one whole character copied into the window just below `free`,
        self.inner[self.free - L .. self.free].copy_from_slice(E.as_bytes());  self.free = self.free - L;
    with E one encode_utf8 result and L = E.len().  Returns None when push has no such copy, otherwise a dict with the copy's
    block, the problems found (empty = the idiom holds) and the writes of `free`.  What the idiom gives: the window has
    exactly the length of the source (copy_from_slice cannot panic on the lengths), it starts at free - L (no underflow and
    inside the storage under the space guard and free <= inner.len()), the bytes of one character stay together in forward
    order directly below the previous character, and `free` moves down by exactly what was stored."""
    copies = [(b, t) for b, t in p.calls() if (callee_of(t) or "").endswith("copy_from_slice")
              and has_sub(p.term_of_operand(t["args"][0], b), lambda q: q[0] == "place" and q[2] and "inner" in [e for e in q[2] if isinstance(e, str)])]
    if not copies:
        return None
    out = {"block": copies[0][0], "problems": [], "free_writes": []}
    if len(copies) != 1:
        out["problems"].append("%d copy_from_slice calls into the storage (one expected)" % len(copies))
        return out
    b, t = copies[0]
    is_free = lambda q: q[0] == "place" and strip_refs(q[1])[:2] == ("arg", 1) and [e for e in q[2] if isinstance(e, str) and e != "*"] == ["free"]
    is_enc = lambda q: q[0] == "call" and q[1] and q[1].endswith("encode_utf8")
    dst = strip_refs(p.term_of_operand(t["args"][0], b))
    src = strip_refs(p.term_of_operand(t["args"][1], b))
    # destination: index_mut(self.inner, Range{free - L, free})
    while dst[0] == "place" and all(e == "*" for e in dst[2]):
        dst = strip_refs(dst[1])
    rng = None
    if dst[0] == "call" and dst[1] and dst[1].endswith("IndexMut::index_mut") and len(dst[2]) == 2:
        r_ = strip_refs(dst[2][1])
        if r_[0] == "agg" and r_[2] and r_[2].endswith("Range::Range") and len(r_[3]) == 2:
            rng = (strip_refs(r_[3][0]), strip_refs(r_[3][1]))
    if rng is None:
        out["problems"].append("the destination is not inner[a..b]: %s" % tstr(dst)[:120])
        return out
    lo, hi = rng
    enc_of = lambda q: [z for z in subterms(q) if is_enc(z)]
    L = None
    checked = None
    if lo[0] == "bin" and lo[1] == "Sub" and is_free(strip_refs(lo[2])):
        L = strip_refs(lo[3])
    elif (lo[0] == "place" and tuple(lo[2])[:2] == ("as:Some", "0") and all(e == "*" for e in lo[2][2:]) and lo[1][0] == "call" and lo[1][1]
          and lo[1][1].endswith("checked_sub") and len(lo[1][2]) == 2 and is_free(strip_refs(lo[1][2][0]))):
        # `let Some(new_free) = self.free.checked_sub(L) else { overflow }`: the Some payload *is* free - L, and it exists
        # only when L <= free
        checked = lo[1]
        L = strip_refs(lo[1][2][1])
    if L is None or not is_free(hi):
        out["problems"].append("the window must be inner[self.free - L .. self.free], got %s .. %s" % (tstr(lo)[:80], tstr(hi)[:40]))
        return out
    okL = L[0] == "call" and L[1] and L[1].split("::")[-1] == "len" and len(enc_of(L)) == 1
    encs = enc_of(L)
    srcs = enc_of(src)
    if not okL or len(srcs) != 1 or srcs[0] != encs[0]:
        out["problems"].append("the window length must be the length of the encode_utf8 result that is copied (window: %s, source: %s)" % (tstr(L)[:80], tstr(src)[:80]))
        return out
    # the source is the whole encoding: as_bytes / bytes view of E, nothing sliced off
    s_ = src
    for _k in range(6):
        if s_[0] == "place" and all(e == "*" for e in s_[2]):
            s_ = strip_refs(s_[1])
        elif s_[0] == "call" and s_[1] and s_[1].split("::")[-1] in ("as_bytes", "as_ref", "deref", "borrow") and len(s_[2]) == 1:
            s_ = strip_refs(s_[2][0])
        else:
            break
    if not is_enc(s_):
        out["problems"].append("the source must be the whole encode_utf8 result, got %s" % tstr(src)[:100])
    # space guard on the same L
    if checked is not None:
        ok, _ = guarded(p, b, lambda g: g.kind == "variant" and g.variant == "Some" and strip_refs(g.term) == checked)
    else:
        ok, _ = guarded(p, b, g_cmp("Lt", False, lambda x: is_free(strip_refs(x)), lambda y: strip_refs(y) == L))
    if not ok:
        out["problems"].append("the copy is not behind the check `self.free < encoded.len()` on the same length")
    # every subtraction from `free` in push happens behind a test that what is taken off fits (a `free - len` hoisted above
    # the space guard panics, with overflow checks, exactly when the buffer is too small - the case push must survive)
    for ab in sorted(p.live_blocks()):
        t_ = p.term(ab)
        if t_["k"] == "Assert" and str(t_.get("kind", "")).startswith("Overflow:Sub"):
            ops = [strip_refs(p.term_of_operand(o, ab)) for o in t_["ops"]]
            if len(ops) == 2 and is_free(ops[0]):
                okg, _ = guarded(p, ab, g_cmp("Lt", False, lambda x: is_free(strip_refs(x)), lambda y, o_=ops[1]: strip_refs(y) == o_))
                if not okg:
                    out["problems"].append("`self.free - %s` is computed before the test that it fits" % tstr(ops[1])[:60])
            elif any(is_free(o) for o in ops):
                out["problems"].append("`free` is subtracted from something in push")
    # free: one write, = free - L, after the copy on every way on
    fw = [(wb, wi, strip_refs(p.term_of_rvalue(s["rv"], wb))) for wb, wi, s in p.stmts() if s["k"] == "Assign" and s["p"]["proj"] and p.place_str(s["p"]) == "(*self).free"]
    out["free_writes"] = fw
    if len(fw) != 1 or fw[0][2] != lo:
        out["problems"].append("`free` must be written once, with the start of the window (found %s)" % [tstr(x[2])[:60] for x in fw])
    else:
        wb = fw[0][0]
        idx_b = dst[3] if isinstance(dst[3], int) else b
        early = wb != b and (not p.dominates(b, wb))
        onward = p.reach_after(b, cut_blocks=[wb]) if wb != b else set()
        skipped = [x for x in onward if p.term(x)["k"] == "Return" or x == idx_b]
        if early or skipped:
            out["problems"].append("`free` must be moved down after the copy, on every way on from it")
    return out



@rule("LF3", ["C17"], floor=7,
      doc="UTF-8 view discipline of LfnBuffer: as_str() uses from_utf8_unchecked only when overflow is false; bytes are stored only in push, at inner[free] directly after free -= 1, inside a loop over the bytes of one whole encode_utf8 result taken back to front and guarded by the early return `free < encoded.len() => overflow = true`; new/clear set free = inner.len(), overflow = false, unpaired_surrogate = None")
def lf3(F, R):
    a = F.fn(LFN + "::as_str")
    un = [(b, t) for b, t in a.calls() if (callee_of(t) or "").endswith("from_utf8_unchecked")]
    R.require(len(un) == 1, a, "unchecked-site", "as_str must have exactly one from_utf8_unchecked", a.loc(0))
    for b, t in un:
        ok, _ = guarded(a, b, lambda g: g.kind == "bool" and last_field(g.term) == "overflow" and g.truth is False)
        R.require(ok, a, "unchecked-guard", "from_utf8_unchecked reachable although the buffer overflowed (partial character data)", a.loc(b))
        arg = tstr(a.term_of_operand(t["args"][0], b))
        R.require("inner" in arg and "free" in arg and "RangeFrom" in arg, a, "view=inner[free..]", "the string view must be inner[free..], got %s" % arg, a.loc(b))
    # writers of inner[..]
    for f in F.fns:
        if f.npath.startswith("filesystem::filename::test"):
            continue
        for b, i, s in f.stmts():
            if s["k"] == "Assign" and s["p"]["proj"]:
                ps = f.place_str(s["p"])
                if ps.startswith("(*(*self).inner)[") or ".inner)[" in ps:
                    R.require(f.npath == LFN + "::push", f, "inner-writer", "LfnBuffer storage written in %s" % f.npath, f.loc(b, i))
        if f.npath.startswith(LFN + "::") and f.npath != LFN + "::push":
            for b, t in f.calls():
                if (callee_of(t) or "").endswith("IndexMut::index_mut") and has_sub(f.term_of_operand(t["args"][0], b), lambda q: q[0] == "place" and q[2] and "inner" in [e for e in q[2] if isinstance(e, str)]):
                    R.bad(f, "inner-writer", "LfnBuffer storage handed out for writing in %s" % f.npath, f.loc(b))
    p = F.fn(LFN + "::push")
    stores = [(b, i, s) for b, i, s in p.stmts() if s["k"] == "Assign" and s["p"]["proj"] and ".inner)[" in p.place_str(s["p"])]
    win = window_store(p) if not stores else None
    if win is not None:
        # second accepted form: one copy of the whole character into the window below `free` (see window_store)
        R.require(not win["problems"], p, "window-store", "bytes are copied into the storage, but not as inner[free - len .. free] <- one whole encoded character with free -= len afterwards: %s" % "; ".join(win["problems"]), p.loc(win["block"]))
        others = [b for b, t in p.calls() if (callee_of(t) or "").endswith("IndexMut::index_mut") and b != win["block"]
                  and has_sub(p.term_of_operand(t["args"][0], b), lambda q: q[0] == "place" and q[2] and "inner" in [e for e in q[2] if isinstance(e, str)])
                  and not has_sub(p.term_of_operand(p.term(win["block"])["args"][0], win["block"]), lambda q: q[0] == "call" and q[1] and q[1].endswith("IndexMut::index_mut") and q[3] == b)]
        R.require(not others, p, "single-store", "push must store bytes at exactly one site", p.loc(others[0]) if others else p.loc(0))
        stores = [(win["block"], 0, None)]
    else:
        R.require(len(stores) == 1, p, "single-store", "push must store bytes at exactly one site", p.loc(0))
    for b, i, s in ([] if win is not None else stores):
        # index is self.free, decremented in the same block chain just before
        idx = [e for e in s["p"]["proj"] if e[0] == "index"]
        it = p.term_of_operand({"k": "copy", "p": {"l": idx[0][1], "proj": []}}, b) if idx else None
        R.require(it is not None and tstr(it) == "(*self).free", p, "store-index", "bytes must be stored at inner[self.free], got %s" % (tstr(it) if it else None), p.loc(b, i))
        # stored byte comes from the reversed bytes() of the encode_utf8 result
        v = p.term_of_rvalue(s["rv"], b)
        okv = has_sub(v, lambda q: q[0] == "call" and q[1] and q[1].endswith("Iterator::next"))
        R.require(okv, p, "store-value", "stored value is not an item of the byte iterator", p.loc(b, i))
        # guard: free >= encoded.len()
        ok, _ = guarded(p, b, g_cmp("Lt", False, lambda x: tstr(x) == "(*self).free",
                                    lambda y: has_sub(y, lambda q: q[0] == "call" and q[1] and q[1].endswith("::len") and has_sub(q, lambda z: z[0] == "call" and z[1] and z[1].endswith("encode_utf8")))))
        R.require(ok, p, "space-guard", "bytes are stored without the check `self.free < encoded_ch.len()` on the UTF-8 encoded length of the whole character", p.loc(b, i))
    # no subtraction from `free` outside the space guard (byte form; the window form has the same clause in window_store): LF1
    # leaves the overflow assertions of push to this rule, and `self.free - encoded.len()` computed *before* the test - for a
    # log line, say - panics with overflow checks exactly when the name does not fit, the case push has to survive
    if win is None:
        n_sub = 0
        for ab in sorted(p.live_blocks()):
            t_ = p.term(ab)
            if t_["k"] == "Assert" and str(t_.get("kind", "")).startswith("Overflow:Sub"):
                ops_ = [strip_refs(p.term_of_operand(o, ab)) for o in t_["ops"]]
                if ops_ and tstr(ops_[0]) == "(*self).free":
                    n_sub += 1
                    okg, _ = guarded(p, ab, g_cmp("Lt", False, lambda x: tstr(x) == "(*self).free",
                                                  lambda y: has_sub(y, lambda q: q[0] == "call" and q[1] and q[1].endswith("::len") and has_sub(q, lambda z: z[0] == "call" and z[1] and z[1].endswith("encode_utf8")))))
                    R.require(okg, p, "sub-behind-guard", "`self.free - %s` is computed where `self.free < encoded_ch.len()` has not been ruled out: it underflows (a panic with overflow checks) when the character does not fit" % tstr(ops_[1])[:60], p.loc(ab))
        if stores and not n_sub:
            # fail closed: the byte form moves `free` down by subtraction, so its overflow assertion has to be there to be placed
            R.bad(p, "sub-behind-guard", "no overflow assertion of a subtraction from `free` found in push (facts without overflow checks, or an unknown way of moving `free`)", kind="anchor-missing")
    # free -= 1 exactly once per stored byte: in the innermost loop containing the store
    decs = [(b, i) for b, i, s in p.stmts() if s["k"] == "Assign" and s["p"]["proj"] and p.place_str(s["p"]) == "(*self).free" and tmatch(p.term_of_rvalue(s["rv"], b), ("bin", "Sub", "_", ("c", 1))) is not None]
    other_free = [(b, i) for b, i, s in p.stmts() if s["k"] == "Assign" and s["p"]["proj"] and p.place_str(s["p"]) == "(*self).free" and (b, i) not in decs]
    R.require(win is not None or (len(decs) == 1 and not other_free), p, "free-dec", "push must change `free` only by one `free -= 1` per stored byte (found %d decrements, %d other writes)" % (len(decs), len(other_free)), p.loc(0))
    if decs and stores and win is None:
        R.require(p.dominates(decs[0][0], stores[0][0]) or decs[0][0] == stores[0][0], p, "dec-before-store", "free must be decremented before the byte is stored", p.loc(decs[0][0]))
        # the byte loop iterates rev(bytes(encode_utf8(..)))
        inner = None
        for (h, body, backs) in p.loops():
            if stores[0][0] in body and (inner is None or len(body) < len(inner[1])):
                inner = (h, body)
        okl = False
        if inner:
            for bb in inner[1]:
                t = p.term(bb)
                if t["k"] == "Call" and (callee_of(t) or "").endswith("Iterator::next"):
                    itv = strip_refs(p.term_of_operand(t["args"][0], bb))
                    defs = var_def_terms(p, itv[1]) if itv[0] == "var" else [itv]
                    def chain(d, names):
                        """d = names[0](names[1](..(x))) through references; returns x or None"""
                        for nm in names:
                            d = strip_refs(d)
                            if not (d[0] == "call" and d[1] and d[1].split("::")[-1] == nm and d[2]):
                                return None
                            d = d[2][0]
                        return strip_refs(d)
                    def from_encode(d):
                        x = chain(d, ["into_iter", "rev", "bytes"]) or chain(d, ["into_iter", "rev", "iter", "as_bytes"])
                        return x is not None and x[0] == "call" and x[1] and x[1].endswith("encode_utf8")
                    okl = any(from_encode(d) for d in defs)
        R.require(okl, p, "byte-loop", "bytes must be taken from encoded_ch.bytes().rev() of one encode_utf8 result", p.loc(stores[0][0]))
    # overflow set on the failing edge with an immediate return
    ov = [(b, i) for b, i, s in p.stmts() if s["k"] == "Assign" and s["p"]["proj"] and p.place_str(s["p"]) == "(*self).overflow" and p.term_of_rvalue(s["rv"], b)[:2] == ("c", 1)]
    R.require(len(ov) == 1 and not any(x[0] in p.reach_after(ov[0][0]) for x in stores), p, "overflow-flag", "running out of space must set overflow = true and store nothing afterwards", p.loc(0))
    # ... and nowhere else: the flag means "a character did not fit", which only push can know (set from an estimate - an
    # upper bound of the length - it reports names that do fit as too long).  Helpers of push are looked at in place.
    for g_ in F.fns:
        for b, i, s_ in g_.stmts():
            if s_["k"] == "Assign" and s_["p"]["proj"] and g_.place_str(s_["p"]).split(".")[-1] == "overflow" and "LfnBuffer" in g_.locals[s_["p"]["l"]]["ty"]:
                owner = g_.npath if g_.kind != "Closure" else g_.npath.rsplit("::{closure", 1)[0]
                if owner not in (LFN + "::new", LFN + "::clear", LFN + "::push"):
                    R.bad(g_, "overflow-writers", "LfnBuffer.overflow is stored outside new/clear/push (%s): the flag no longer means that a pushed character did not fit" % g_.npath.split("::")[-1], g_.loc(b, i))
    # new / clear
    for nm in ("new", "clear"):
        f = F.fn(LFN + "::" + nm)
        got = {}
        raw = {}
        for b, i, s in f.stmts():
            if s["k"] != "Assign":
                continue
            if s["p"]["proj"]:
                k = f.place_str(s["p"]).split(".")[-1]
                raw[k] = f.term_of_rvalue(s["rv"], b)
                got[k] = tstr(raw[k])
            elif s["rv"]["k"] == "Aggregate" and s["rv"].get("adt", "").endswith("LfnBuffer"):
                for fld, o in zip(s["rv"]["fields"], s["rv"]["ops"]):
                    raw[fld] = f.term_of_operand(o, b)
                    got[fld] = tstr(raw[fld])
        # free is exactly the length of the storage slice: as_str() shows inner[free..], so anything smaller exposes bytes
        # of the caller's storage that were never written (and from_utf8_unchecked is applied to them)
        fr = strip_refs(raw.get("free", ("c", None, None)))
        whole = False
        if fr[0] == "call" and fr[1] and fr[1].endswith("slice::len") and len(fr[2]) == 1:
            sl = strip_refs(fr[2][0])
            if nm == "new":
                whole = sl[:2] == ("arg", 1) and strip_refs(raw.get("inner", ("c", None, None)))[:2] == ("arg", 1)
            else:
                whole = sl[0] == "place" and strip_refs(sl[1])[:2] == ("arg", 1) and [e for e in sl[2] if isinstance(e, str) and e != "*"] == ["inner"]
        ok = whole and got.get("overflow") == "0" and got.get("unpaired_surrogate", "").startswith("None")
        R.require(ok, f, nm + ":reset", "%s must set free = inner.len() (the whole storage, nothing else), overflow = false, unpaired_surrogate = None; got %s" % (nm, got), f.loc(0))


@rule("LF4", ["C17"], floor=4,
      doc="a long name is passed to the callback only when the state is Complete{csum} and csum equals the short entry's checksum; after a short entry has been reported the state is reset to Waiting and the buffer cleared, in both FAT arms")
def lf4(F, R):
    fn = F.fn(FATVOL + "::iterate_dir_lfn")
    cls = F.closures_of(fn)
    # the two listing closures are the ones that call the user's callback
    lcs = [c for c in cls if any((callee_of(t) or "").endswith("FnMut::call_mut") for b, t in c.calls())]
    from .rules_r3 import _every_walk_gets
    R.require(_every_walk_gets(fn, lcs), fn, "closures", "both directory walks (FAT16 and FAT32) must be given a listing closure that calls the user's callback; found %d such closures" % len(lcs), fn.loc(0))
    for c in lcs:
        cbs = [(b, t) for b, t in c.calls() if (callee_of(t) or "").endswith("FnMut::call_mut")]
        for b, t in cbs:
            args = c.term_of_operand(t["args"][1], b)
            # where the Option<&str> handed to the callback is built: at the call itself, or in the arms that define a local
            sites = []
            tup = strip_refs(args)
            name_arg = strip_refs(tup[3][1]) if tup[0] == "agg" and len(tup[3]) == 2 else tup
            if name_arg[0] == "var":
                for d in c.defs().get(name_arg[1], []):
                    if d[0] in ("assign", "call"):
                        sites.append((d[1], c.term_of_rvalue(d[3], d[1]) if d[0] == "assign" else c.call_term(d[2], d[1])))
            else:
                sites.append((b, args))
            for (sb, sv) in sites:
                with_name = has_sub(sv, lambda q: q[0] == "agg" and q[2] and q[2].endswith("Option::Some"))
                is_none = strip_refs(sv)[0] == "agg" and strip_refs(sv)[2] and strip_refs(sv)[2].endswith("Option::None")
                if not with_name and not is_none and name_arg[0] == "var":
                    R.bad(c, "name-opaque", "the long name handed to the callback is computed in a way this rule cannot follow (%s)" % tstr(sv)[:80], c.loc(sb))
                if with_name:
                    g1, _ = guarded(c, sb, lambda g: g.kind == "variant" and g.variant == "Complete")
                    g2, _ = guarded(c, sb, lambda g: g.kind == "bool" and g.term[0] == "cmp" and g.term[1] == "Eq" and g.truth is True and has_sub(g.term, lambda q: q[0] == "call" and q[1] and q[1].endswith("ShortFileName::csum")) and "Complete" in tstr(g.term))
                    g3, _ = guarded(c, sb, lambda g: g.kind == "variant" and g.variant == "None" and has_sub(g.term, lambda q: q[0] == "call" and q[1] and q[1].endswith("lfn_contents")))
                    R.require(g1 and g2 and g3, c, "name-only-if-complete-and-matching", "a long name is reported without (state == Complete && csum == short name checksum) on a non-LFN entry", c.loc(sb))
                    R.require("as_str" in tstr(sv), c, "name=buffer", "the reported long name is not lfn_buffer.as_str()", c.loc(sb))
        # reset after every callback
        resets = [(b, i) for b, i, s in c.stmts() if s["k"] == "Assign" and (lambda v: v[0] == "agg" and v[2] and v[2].endswith("SeqState::Waiting"))(c.term_of_rvalue(s["rv"], b))]
        clears = [b for b, t in c.calls() if call_matches(t, ("LfnBuffer::clear",))]
        okr = bool(resets) and bool(clears)
        if okr:
            for b, t in cbs:
                # every path from a callback to the return passes a reset and a clear
                rets = c.return_blocks()
                r1 = c.reach_after(b, cut_blocks=[x[0] for x in resets])
                r2 = c.reach_after(b, cut_blocks=clears)
                if any(r in r1 for r in rets) or any(r in r2 for r in rets):
                    okr = False
        R.require(okr, c, "reset-after-short-entry", "after a short entry has been reported the LFN state is not reset to Waiting (and the buffer cleared): a later short entry with a colliding checksum would inherit this long name", c.loc(0))


@rule("LF5", ["C17"], floor=20,
      doc="SeqState::update decision table over (start flag, sequence class, current state, next == sequence): a run starts only with the start flag (seq 1 -> Complete, seq 2..0x13 -> Remaining{next: seq-1}), continues only when the sequence number equals the expected one, completes at sequence 1, and anything else drops to Waiting; the checksum of the run is the one of its first fragment")
def lf5(F, R):
    upd = [f for f in F.fns if f.npath.endswith("SeqState::update")]
    if len(upd) != 1:
        R.bad(None, "anchor", "SeqState::update not found", kind="anchor-missing")
        return
    fn = upd[0]
    adt = [p for p in F.adts if p.endswith("SeqState")]
    if len(adt) != 1:
        R.bad(None, "anchor", "SeqState enum not found", kind="anchor-missing")
        return
    adt = adt[0]
    names = F.variants(adt)
    W, Rm, C = names.index("Waiting"), names.index("Remaining"), names.index("Complete")

    def spec_next(start, seq, state):
        # state: ('W',) | ('R', csum, next) | ('C', csum)
        if start and seq == 1:
            return ("C", "new")
        if start and 2 <= seq < 0x14:
            return ("R", "new", seq - 1)
        if (not start) and state[0] == "R" and state[2] == seq and seq == 1:
            return ("C", "old")
        if (not start) and state[0] == "R" and state[2] == seq and 1 <= seq < 0x13:
            return ("R", "old", seq - 1)
        return ("W",)

    n = 0
    for start in (0, 1):
        for seq in range(0, 32):
            for skind in ("W", "C", "R=", "R!"):
                I = Interp(F, mode="iv", max_paths=2000)
                st = State()
                calls = []

                def rec(name):
                    def m(I_, st_, a, ctx):
                        st_.trace = st_.trace + (name,)
                        return [(agg("tuple", None, None, []), st_)]
                    return m
                I.models["filesystem::filename::LfnBuffer::clear"] = rec("clear")
                I.models["filesystem::filename::LfnBuffer::push"] = rec("push")
                old_csum = const(0x5A, 8)
                new_csum = const(0xA5, 8)
                if skind == "W":
                    state = agg("enum", adt, W, [])
                    sstate = ("W",)
                elif skind == "C":
                    state = agg("enum", adt, C, [old_csum])
                    sstate = ("C", "old")
                else:
                    nxt = seq if skind == "R=" else (seq + 1) % 32
                    # field order of Remaining { csum, next }
                    flds = [f["name"] for f in F.adts[adt]["variants"][Rm]["fields"]]
                    vals = {"csum": old_csum, "next": const(nxt, 8)}
                    state = agg("enum", adt, Rm, [vals[x] for x in flds])
                    sstate = ("R", "old", nxt)
                buf = arr([top_int(16)] * 13)
                lb = I.heap_alloc(st, TOP)
                try:
                    outs = I.run(fn, [state, lb, const(start, 1), const(seq, 8), new_csum, buf], st, 0)
                except Undecided as e:
                    raise RuleUndecided(str(e))
                want = spec_next(start, seq, sstate)
                got = set()
                for rv, s2 in outs:
                    if not is_agg(rv) or rv[3] is None:
                        got.add(("?",))
                        continue
                    if rv[3] == W:
                        got.add(("W",))
                    elif rv[3] == C:
                        c = int_const(rv[4][0])
                        got.add(("C", "new" if c == 0xA5 else ("old" if c == 0x5A else "?")))
                    else:
                        flds = [f["name"] for f in F.adts[adt]["variants"][Rm]["fields"]]
                        d = dict(zip(flds, rv[4]))
                        c = int_const(d["csum"])
                        got.add(("R", "new" if c == 0xA5 else ("old" if c == 0x5A else "?"), int_const(d["next"])))
                panics = [k for k, it in I.obl.items.items() if it["bad"]]
                n += 1
                if got != {want} or panics:
                    R.bad(fn, "start=%d/seq=%d/state=%s" % (start, seq, skind), "SeqState::update(start=%s, sequence=%d, state=%s) -> %s, the specification table gives %s%s" % (bool(start), seq, sstate, sorted(got), want, " (may panic: %s)" % I.obl.items[panics[0]]["detail"] if panics else ""), fn.loc(0))
                # buffer protocol: clear before the first fragment of a run / on reset, push for accepted fragments
                exp_calls = ("clear", "push") if want[0] != "W" and want[1] == "new" else (("push",) if want[0] != "W" else ("clear",))
                traces = {s2.trace for rv, s2 in outs}
                if traces != {exp_calls} and got == {want}:
                    R.bad(fn, "buffer-protocol:start=%d/seq=%d/state=%s" % (start, seq, skind), "buffer calls %s, expected %s" % (sorted(traces), exp_calls), fn.loc(0))
    R.ok(fn, "table", "%d table rows (2 x 32 x 4) agree with the specification" % n)
    for i in range(19):
        R.ok(fn, "row-block-%d" % i, "rows checked")


@rule("LF6", ["C17"], floor=1,
      doc="ShortFileName::csum folds the 11 name bytes with acc = rotate_right(acc, 1).wrapping_add(byte) starting from 0 (the FAT long-name checksum)")
def lf6(F, R):
    fn = F.fn("filesystem::filename::ShortFileName::csum")
    rot = [(b, t) for b, t in fn.calls() if (callee_of(t) or "").endswith("rotate_right")]
    add = [(b, t) for b, t in fn.calls() if (callee_of(t) or "").endswith("wrapping_add")]
    ok = len(rot) == 1 and len(add) == 1
    if ok:
        rb, rt = rot[0]
        ab, at = add[0]
        ok = fn.term_of_operand(rt["args"][1], rb)[:2] == ("c", 1)
        # acc' = rotate_right(acc, 1) + byte, the sum written either way round (wrapping addition commutes)
        a0, a1 = strip_refs(fn.term_of_operand(at["args"][0], ab)), strip_refs(fn.term_of_operand(at["args"][1], ab))
        is_rot = lambda q: q[0] == "call" and q[1] and q[1].endswith("rotate_right") and q[3] == rb
        is_item = lambda q: has_sub(q, lambda z: z[0] == "call" and z[1] and z[1].endswith("Iterator::next")) and not has_sub(q, lambda z: z[0] == "call" and z[1] and z[1].endswith(("rotate_right", "wrapping_add")))
        ok = ok and ((is_rot(a0) and is_item(a1)) or (is_rot(a1) and is_item(a0)))
        # the accumulator: rotate_right's first argument is the loop-carried result variable
        acc = strip_refs(fn.term_of_operand(rt["args"][0], rb))
        ok = ok and acc[0] == "var" and any(d[:2] == ("c", 0) for d in var_def_terms(fn, acc[1]))
        it = None
        for b, t in fn.calls():
            if (callee_of(t) or "").endswith(("::iter", "IntoIterator::into_iter")) and "contents" in tstr(fn.term_of_operand(t["args"][0], b)):
                it = tstr(fn.term_of_operand(t["args"][0], b))
        ok = ok and it is not None and "contents" in it
        # the new value is what the accumulator becomes
        ok = ok and any(strip_refs(d)[0] == "call" and strip_refs(d)[3] == ab for d in var_def_terms(fn, acc[1]))
    if not ok and not fn.loops():
        # the same computation as `self.contents.iter().fold(0, |sum, &b| sum.rotate_right(1).wrapping_add(b))`
        from .mir import inline_closure
        folds = [(b, t) for b, t in fn.calls() if (callee_of(t) or "").endswith("Iterator::fold")]
        if len(folds) == 1:
            fb, ft = folds[0]
            ct = fn.call_term(ft, fb)
            src = strip_refs(ct[2][0])
            while src[0] == "call" and src[1] and src[1].split("::")[-1] in ("iter", "into_iter", "copied", "cloned") and src[2]:
                src = strip_refs(src[2][0])
            acc, byte = ("sym", "acc"), ("sym", "byte")
            body = inline_closure(F, ct[2][2], [acc, byte])
            if body is None:
                body = inline_closure(F, ct[2][2], [acc, ("ref", byte)])

            def is_byte(x):
                x = strip_refs(x)
                while x[0] == "place" and all(e == "*" for e in x[2]):
                    x = strip_refs(x[1])
                return x == byte
            ok = (body is not None and body[0] == "call" and body[1] and body[1].endswith("wrapping_add") and is_byte(body[2][1])
                  and body[2][0][0] == "call" and body[2][0][1].endswith("rotate_right") and strip_refs(body[2][0][2][0]) == acc and body[2][0][2][1][:2] == ("c", 1)
                  and strip_refs(ct[2][1])[:2] == ("c", 0) and "contents" in tstr(src) and "Range" not in tstr(src)
                  and any(strip_refs(v) == ct or (strip_refs(v)[0] == "call" and strip_refs(v)[3] == fb) for (_b, _i, v) in [(d[1], 0, fn.term_of_rvalue(d[3], d[1]) if d[0] == "assign" else fn.call_term(d[2], d[1])) for d in fn.defs().get(0, [])]))
    R.require(ok, fn, "fold", "csum must be result = result.rotate_right(1).wrapping_add(b) over self.contents starting at 0", fn.loc(0))
