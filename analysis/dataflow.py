"""Value-origin chasing over terms (through multi-def variables and pass-through calls)."""
from .mir import path_matches, subterms, strip_refs, tstr

# calls whose result aliases / derives directly from their (first) arguments
PASS_THROUGH = (
    "Deref::deref", "DerefMut::deref_mut", "Index::index", "IndexMut::index_mut", "chunks_exact", "chunks_exact_mut",
    "Iterator::enumerate", "IntoIterator::into_iter", "Iterator::next", "Iterator::skip", "Iterator::rev", "iter", "iter_mut",
    "Try::branch", "Result::map_err", "Result::unwrap", "Option::unwrap", "Result::expect", "Option::expect",
    "BlockIdx::range", "Add::add", "core::cmp::min", "Ord::min", "core::cmp::max", "Ord::max", "Option::take", "Option::as_mut", "Option::as_ref",
    "Clone::clone", "From::from", "Into::into", "BlockIter::new", "AsMut::as_mut", "AsRef::as_ref", "split_at_mut", "get_mut", "get",
)


def is_pass_through(name):
    if not name:
        return False
    return any(path_matches(name, p) or name.endswith("::" + p) for p in PASS_THROUGH)


def var_def_terms(fn, l):
    """Terms of all whole-assignments to local l (including projections assigned via call dest)."""
    out = []
    for d in fn.defs().get(l, []):
        if d[0] == "assign":
            out.append(fn.term_of_rvalue(d[3], d[1]))
        elif d[0] == "call":
            out.append(fn.call_term(d[2], d[1]))
    return out


def roots(fn, term, stop=None, _seen=None, depth=0):
    """Set of root descriptors a value may derive from:
    ('call', name, block) non-pass-through call results; ('arg', idx, name); ('c', v, def);
    ('field', base_descr, fieldname) for reads of fields of arguments; ('agg', name) etc.
    `stop(name)` -> True makes a call a root even if it is pass-through."""
    if _seen is None:
        _seen = set()
    out = set()
    if depth > 80:
        return {("deep",)}
    k = term[0]
    if k == "c":
        out.add(("c", term[1], term[2]))
    elif k in ("cdef", "fn", "zst", "other"):
        out.add((k, str(term[1]) if len(term) > 1 else ""))
    elif k == "arg":
        out.add(("arg", term[1], term[2]))
    elif k == "var":
        l = term[1]
        if l in _seen:
            return out
        _seen.add(l)
        dts = var_def_terms(fn, l)
        if not dts:
            out.add(("var", l, term[2]))
        for dt in dts:
            out |= roots(fn, dt, stop, _seen, depth + 1)
    elif k == "place":
        base = term[1]
        fields = [e for e in term[2] if isinstance(e, str) and e != "*" and not e.startswith("as:")]
        b = strip_refs(base)
        if b[0] == "arg" and fields:
            out.add(("field", "arg%d" % b[1], ".".join(fields)))       # (by position: parameter names are free)
        else:
            sub = roots(fn, base, stop, _seen, depth + 1)
            if fields:
                # remember the field path on top of call roots (e.g. entry.entry_block of a lookup)
                sub = {r + (("." + ".".join(fields)),) if r[0] in ("call",) else r for r in sub}
            out |= sub
        for e in term[2]:
            if isinstance(e, tuple) and e[0] == "idx":
                pass  # indices do not contribute to identity
    elif k == "call":
        name = term[1]
        if is_pass_through(name) and not (stop and stop(name)):
            for a in term[2]:
                out |= roots(fn, a, stop, _seen, depth + 1)
        else:
            out.add(("call", name, term[3]))
    elif k in ("ref", "discr"):
        out |= roots(fn, term[1], stop, _seen, depth + 1)
    elif k in ("cast", "un"):
        out |= roots(fn, term[2], stop, _seen, depth + 1)
    elif k in ("bin", "cmp"):
        out |= roots(fn, term[2], stop, _seen, depth + 1)
        out |= roots(fn, term[3], stop, _seen, depth + 1)
    elif k == "agg":
        if not term[3]:
            out.add(("agg", term[2] or term[1]))
        for a in term[3]:
            out |= roots(fn, a, stop, _seen, depth + 1)
    elif k == "repeat":
        out |= roots(fn, term[1], stop, _seen, depth + 1)
    elif k == "ovf":
        out |= roots(fn, term[1], stop, _seen, depth + 1)
    return out


def root_calls(rs):
    return {r[1] for r in rs if r[0] == "call" and r[1]}


def derives_from_call(fn, term, names):
    rs = roots(fn, term, stop=lambda n: any(path_matches(n, x) for x in names))
    return any(r[0] == "call" and r[1] and any(path_matches(r[1], x) for x in names) for r in rs)
