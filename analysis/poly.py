"""Arithmetic normal form for MIR terms: integer polynomials over opaque atoms.

Formula rules compare a reconstructed term with the specified formula *up to ring identities*
(associativity, commutativity, distribution, constant folding, x+0, x*1, x<<k = x*2^k), and see through
the crate's integer newtypes (BlockIdx / BlockCount / ClusterId constructors, `.0` projections and their
Add/Sub impls -- rule NT1 checks those impls are plain field arithmetic) and lossless `From` conversions.
A rewrite that keeps the mathematical value therefore keeps the verdict; anything that is not provably
equal in this fragment is *not* reported as equal.

poly(t) -> frozenset of (monomial, coefficient); monomial = sorted tuple of atom keys.
"""
from .mir import path_matches, strip_refs

ARITH_CALLS = {
    "core::ops::Add::add": "Add", "core::ops::Sub::sub": "Sub", "core::ops::Mul::mul": "Mul",
}
TRANSPARENT_CALLS = ("core::convert::From::from", "core::convert::Into::into", "core::clone::Clone::clone")
NEWTYPES = ("blockdevice::BlockCount::BlockCount", "blockdevice::BlockIdx::BlockIdx", "filesystem::cluster::ClusterId::ClusterId")
COMMUTATIVE_CALLS = ("core::cmp::min", "core::cmp::max", "core::cmp::Ord::min", "core::cmp::Ord::max")


_W = {"u8": 8, "u16": 16, "u32": 32, "u64": 64, "usize": 64, "u128": 128, "i8": 8, "i16": 16, "i32": 32, "i64": 64, "isize": 64, "i128": 128, "bool": 1, "char": 32}


def _widening(src, dst):
    """value-preserving integer cast (no truncation, no sign change of the value).  usize is taken as at least 32 bits:
    u32 -> usize is treated as lossless (the crate does this itself: `as usize` on block offsets), usize -> u32 is not."""
    if src not in _W or dst not in _W or not isinstance(src, str):
        return False
    su, du = src[0] in "ubc", dst[0] in "ubc"
    sw = 32 if src in ("usize", "isize") else _W[src]      # smallest width usize may have on supported targets
    dw = 32 if dst in ("usize", "isize") else _W[dst]
    if src in ("usize", "isize") and dst in ("usize", "isize"):
        return su == du
    if src in ("usize", "isize"):
        sw = 64                                              # ... and the largest
    if su and du:
        return dw >= sw
    if su and not du:
        return dw > sw
    if not su and not du:
        return dw >= sw
    return False


def _padd(a, b, sign=1):
    out = dict(a)
    for m, c in b.items():
        out[m] = out.get(m, 0) + sign * c
        if out[m] == 0:
            del out[m]
    return out


def _pmul(a, b):
    out = {}
    for m1, c1 in a.items():
        for m2, c2 in b.items():
            atoms = m1 + m2
            c = c1 * c2
            # powers of two with symbolic exponents multiply by adding exponents: (1 << a) * (1 << b) = 1 << (a + b)
            pw = [x for x in atoms if isinstance(x, tuple) and x and x[0] == "pow2"]
            if len(pw) > 1 or (pw and False):
                e = {}
                for x in pw:
                    e = _padd(e, dict(x[1]))
                atoms = tuple(x for x in atoms if not (isinstance(x, tuple) and x and x[0] == "pow2"))
                k0 = e.pop((), 0)
                if k0:
                    c *= (1 << k0) if 0 <= k0 < 128 else 1
                    if not 0 <= k0 < 128:
                        e[()] = k0
                if e:
                    atoms = atoms + (("pow2", tuple(sorted(e.items(), key=repr))),)
            m = tuple(sorted(atoms, key=repr))
            out[m] = out.get(m, 0) + c
            if out[m] == 0:
                del out[m]
    return out


def _pow2(e):
    """the polynomial 2^e for an exponent polynomial e (constant part folded into the coefficient)"""
    e = dict(e)
    k0 = e.pop((), 0)
    if not 0 <= k0 < 128:
        e[()] = k0
        k0 = 0
    if not e:
        return {(): 1 << k0}
    return {(("pow2", tuple(sorted(e.items(), key=repr))),): 1 << k0}


def _freeze(p):
    return ("poly", tuple(sorted(p.items(), key=repr)))


EXPAND = None      # set by the framework to mir.expand_local_calls for the fact base in use: formulas see through small helpers


def _pdict(t):
    if EXPAND is not None and isinstance(t, tuple) and t and ((t[0] == "call" and not (t[1] or "").startswith("core::")) or (t[0] == "place" and len(t[2]) >= 2 and str(t[2][0]).startswith("as:"))):
        t = EXPAND(t)
    t0 = t
    k = t[0]
    if k == "c" and isinstance(t[1], int) and not isinstance(t[1], bool):
        return {(): t[1]} if t[1] != 0 else {}
    if k == "ref":
        return _pdict(t[1])
    if k == "bin":
        op = t[1]
        base = op.replace("WithOverflow", "").replace("Unchecked", "")
        if base in ("Add", "Sub"):
            return _padd(_pdict(t[2]), _pdict(t[3]), 1 if base == "Add" else -1)
        if base == "Mul":
            return _pmul(_pdict(t[2]), _pdict(t[3]))
        if base == "Shl":
            r = _pdict(t[3])
            if list(r.keys()) in ([()], []) and 0 <= r.get((), 0) < 64:
                return _pmul(_pdict(t[2]), {(): 1 << r.get((), 0)})
            # x << e with a symbolic exponent: x * 2^e (as mathematics; overflow / over-long shifts are the panic rules' business)
            return _pmul(_pdict(t[2]), _pow2(r))
    if k == "call" and t[1]:
        for n, op in ARITH_CALLS.items():
            if path_matches(t[1], n) and len(t[2]) == 2:
                a, b = _pdict(t[2][0]), _pdict(t[2][1])
                return _padd(a, b, 1) if op == "Add" else (_padd(a, b, -1) if op == "Sub" else _pmul(a, b))
        if any(path_matches(t[1], n) for n in TRANSPARENT_CALLS) and len(t[2]) == 1:
            return _pdict(t[2][0])
    if k == "cast" and len(t) > 3 and _widening(t[3], t[1]):
        return _pdict(t[2])
    if k == "agg" and t[1] == "Adt" and t[2] and any(path_matches(t[2], n) or t[2].endswith(n.split("::", 1)[1]) for n in NEWTYPES) and len(t[3]) == 1:
        return _pdict(t[3][0])
    return {(key(t0),): 1}


def key(t):
    """Canonical hashable key of a term used as an atom (call-site ids dropped, arithmetic children normalised)."""
    if not isinstance(t, tuple) or not t:
        return t
    k = t[0]
    if k == "ref":
        return key(t[1])
    if k == "c":
        return ("c", t[1], t[2] if len(t) > 2 and not isinstance(t[1], int) else None)
    if k == "arg":
        return ("arg", t[1])
    if k == "var":
        return ("var", t[1])
    if k == "place":
        # one memory location, one key: nested places flattened, references / derefs dropped (`(*(&self.info)).x` is `self.info.x`)
        from .mir import flat_place
        base, proj = flat_place(t)
        proj = tuple(proj)
        while proj and proj[-1] == "0":
            proj = proj[:-1]
        if not proj:
            return nkey(base)
        return ("place", nkey(base), proj)
    if k == "call":
        args = tuple(nkey(a) for a in t[2])
        if t[1] and any(path_matches(t[1], n) for n in COMMUTATIVE_CALLS):
            args = tuple(sorted(args, key=repr))
        return ("call", t[1], args)
    if k == "bin":
        a, b = nkey(t[2]), nkey(t[3])
        if t[1] in ("BitAnd", "BitOr", "BitXor", "Eq", "Ne"):
            a, b = sorted((a, b), key=repr)
        return ("bin", t[1], a, b)
    if k == "un":
        return ("un", t[1], nkey(t[2]))
    if k == "cast":
        if len(t) > 3 and _widening(t[3], t[1]):
            return nkey(t[2])
        return ("cast", t[1], nkey(t[2]))
    if k == "agg":
        return ("agg", t[1], t[2], tuple(nkey(a) for a in t[3]))
    return tuple(key(x) if isinstance(x, tuple) else x for x in t)


def nkey(t):
    """Key of an arbitrary term: polynomial normal form if it is arithmetic, a single atom otherwise."""
    p = _pdict(t)
    if len(p) == 1:
        (m, c), = p.items()
        if c == 1 and len(m) == 1:
            return m[0]
    return _freeze(p)


def poly(t):
    return _freeze(_pdict(t))


def peq(a, b):
    """True when the two terms are equal as integer polynomials over their atoms."""
    return poly(a) == poly(b)


# --- term builders for specified formulas ---------------------------------------------------
def C(n):
    return ("c", n, None)


def ADD(a, b):
    return ("bin", "Add", a, b)


def SUB(a, b):
    return ("bin", "Sub", a, b)


def MUL(a, b):
    return ("bin", "Mul", a, b)


def DIV(a, b):
    return ("bin", "Div", a, b)


def REM(a, b):
    return ("bin", "Rem", a, b)


def show(t):
    p = _pdict(t)
    parts = []
    for m, c in sorted(p.items(), key=repr):
        parts.append(("%d" % c) + "".join("*" + _show_key(a) for a in m))
    return " + ".join(parts) or "0"


def _show_key(kx):
    if not isinstance(kx, tuple):
        return str(kx)
    if kx[0] == "place":
        return _show_key(kx[1]) + "." + ".".join(kx[2])
    if kx[0] in ("arg", "var"):
        return str(kx[1])
    if kx[0] == "call":
        return "%s(%s)" % ((kx[1] or "?").split("::")[-1], ", ".join(_show_key(a) for a in kx[2]))
    if kx[0] == "poly":
        return "(" + " + ".join(("%d" % c) + "".join("*" + _show_key(a) for a in m) for m, c in kx[1]) + ")"
    if kx[0] == "bin":
        return "%s(%s, %s)" % (kx[1], _show_key(kx[2]), _show_key(kx[3]))
    if kx[0] == "cast":
        return "(%s as %s)" % (_show_key(kx[2]), kx[1])
    return str(kx)
