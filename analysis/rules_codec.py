"""Bit-exact layout rules (BV engine): MT3 (BPB / FSInfo / dir-entry accessors), LF7 (LFN fragment extraction),
SD8b/c (CSD fields and capacity), CD1/CD4 (directory-entry serialise/parse), CD2 (timestamp codec, field-wise exhaustive),
and decision tables MD1 (mode resolution), HQ1 (open-handle query)."""
import json
import os
import re

from .framework import rule, Undecided as RuleUndecided
from .absint import Interp, State, Undecided
from .absval import (TOP, TOPBIT, agg, arr, bits_of, const, int_const, is_agg, is_int, is_ptr, mk_int, ptr, sym_int, top_int, ty_info)
from .mir import callee_of, tstr, path_matches, strip_generics
from .rules_sd import spec

FAT = None


def fat_spec():
    global FAT
    if FAT is None:
        FAT = spec("fat_layout.json")
    return FAT


def sym_value(I, st, ty, name, F, depth=0, owner=None):
    """A fully symbolic value of the given type string."""
    ti = ty_info(ty)
    if ti:
        return sym_int(I.vars, name, ti[0], ti[1])
    m = re.match(r"^\[(\w+); (.+)\]$", ty)
    if m and ty_info(m.group(1)):
        w, s = ty_info(m.group(1))
        n = m.group(2)
        if n.isdigit():
            n = int(n)
        elif n.startswith("Self::") and owner:
            n = F.const(owner + "::" + n[6:])
        else:
            return TOP
        return arr([sym_int(I.vars, "%s[%d]" % (name, i), w, s) for i in range(n)])
    m = re.match(r"^&(?:'\w+ )?(?:mut )?(.*)$", ty)
    if m:
        inner = m.group(1)
        m2 = re.match(r"^\[(\w+)\]$", inner)
        if m2:
            return TOP
        v = sym_value(I, st, inner, name, F, depth + 1)
        return I.heap_alloc(st, v)
    a = F.adts.get(ty) or F.adts.get(re.sub(r"<.*>$", "", ty))
    if a and a["kind"] == "struct" and depth < 6:
        fs = [sym_value(I, st, f["ty"], "%s.%s" % (name, f["name"]), F, depth + 1, owner=a["path"]) for f in a["variants"][0]["fields"]]
        return agg("struct", a["path"], 0, fs)
    return TOP


def data_struct(I, st, F, adt, nbytes, extra=None, slice_=False):
    """Struct with a `data` field pointing at nbytes symbolic bytes. Returns (self ptr, list of byte Ints)."""
    bytes_ = [sym_int(I.vars, "d%d" % i, 8) for i in range(nbytes)]
    cell = I.heap_alloc(st, arr(bytes_))
    a = F.adts[adt]
    fs = []
    for f in a["variants"][0]["fields"]:
        if f["name"] == "data":
            if f["ty"].startswith("&"):
                fs.append(ptr(cell[1], cell[2], (), (const(0, 64), const(nbytes, 64)) if slice_ else None))
            else:
                fs.append(arr(bytes_))
        elif extra and f["name"] in extra:
            fs.append(extra[f["name"]])
        else:
            fs.append(TOP)
    self_cell = I.heap_alloc(st, agg("struct", adt, 0, fs))
    return self_cell, bytes_


def le_bits(bytes_, off, n):
    bits = ()
    for i in range(n):
        bits += bits_of(bytes_[off + i])
    return bits


def run1(I, fn, args, st):
    outs = I.run(fn, args, st, 0)
    return outs


def accessor_fns(F, impl_prefix):
    return [f for f in F.fns if f.kind == "AssocFn" and f.npath.startswith(impl_prefix + "::") and f.arg_count == 1]


def check_accessor(F, R, fn, adt, nbytes, expected_bits_fn, key, what, slice_=False):
    I = Interp(F, mode="bv")
    st = State()
    self_p, bytes_ = data_struct(I, st, F, adt, nbytes, slice_=slice_)
    try:
        outs = run1(I, fn, [self_p], st)
    except Undecided as e:
        raise RuleUndecided("%s: %s" % (fn.npath, e))
    if len(outs) != 1:
        R.bad(fn, key, "%s has %d paths on symbolic input (expected straight-line field extraction)" % (fn.npath, len(outs)), fn.loc(0))
        return
    rv = outs[0][0]
    if not is_int(rv):
        R.bad(fn, key, "%s does not return an integer/bool" % fn.npath, fn.loc(0))
        return
    want = expected_bits_fn(bytes_)
    got = bits_of(rv)
    # compare on the width of the spec field; higher result bits must be 0
    ok = True
    msg = None
    for i in range(max(len(got), len(want))):
        w = want[i] if i < len(want) else 0
        g = got[i] if i < len(got) else 0     # a result narrower than the field drops the field's upper bits
        if g != w:
            ok = False
            msg = "bit %d of %s is %s, spec (%s) says %s%s" % (i, fn.npath.split("::")[-1], I.vars.name_of_mask(g), what, I.vars.name_of_mask(w), " (the accessor's result type is narrower than the field)" if i >= len(got) else "")
            break
    bad_obl = [k for k, v in I.obl.items.items() if v["bad"]]
    if bad_obl:
        ok = False
        msg = (msg or "") + " obligations: %s" % [I.obl.items[k]["detail"] for k in bad_obl][:2]
    R.require(ok, fn, key, msg or "", fn.loc(0), okdetail="%s = %s" % (fn.npath.split("::")[-1], what))


@rule("MT3", ["C15"], floor=23,
      doc="every BPB / FSInfo field accessor returns exactly the little-endian bytes at the offset the FAT specification gives for that field (bit-exact, all inputs); the volume label is read at 43 (FAT16) / 71 (FAT32); signature constants equal the spec")
def mt3(F, R):
    S = fat_spec()
    for adt, table, nm in (("fat::bpb::Bpb", S["bpb"], "bpb"), ("fat::info::InfoSector", S["info"], "info")):
        fns = {f.npath.split("::")[-1]: f for f in accessor_fns(F, adt)}
        for name, (off, n, sname) in table.items():
            fn = fns.get(name)
            if fn is None:
                R.bad(None, "%s:%s" % (nm, name), "accessor %s::%s missing" % (adt, name), kind="anchor-missing")
                continue
            check_accessor(F, R, fn, adt, 512, lambda bs, off=off, n=n: le_bits(bs, off, n), "%s:%s" % (nm, name), "%s at offset %d, %d bytes LE" % (sname, off, n))
        # accessors not in the table but present (define_field!): report as unknown layout
        for name, fn in fns.items():
            out = fn.raw.get("output", "")
            if name not in table and ty_info(out) and name not in ("fat_size", "total_blocks", "total_clusters"):
                R.note("accessor %s::%s has no spec entry" % (adt, name))
    # volume label
    fn = F.fn("fat::bpb::Bpb::volume_label")
    for ft, (off, n) in S["bpb_volume_label"].items():
        I = Interp(F, mode="bv")
        st = State()
        vidx = F.variant_index("fat::FatType", ft)
        self_p, bytes_ = data_struct(I, st, F, "fat::bpb::Bpb", 512, extra={"fat_type": agg("enum", "fat::FatType", vidx, [])})
        outs = run1(I, fn, [self_p], st)
        ok = len(outs) == 1 and outs[0][0][0] == "arr" and len(outs[0][0][1]) == n and all(bits_of(outs[0][0][1][i]) == bits_of(bytes_[off + i]) for i in range(n))
        R.require(ok, fn, "volume_label:" + ft, "volume label for %s must be bytes %d..%d of the boot sector" % (ft, off, off + n), fn.loc(0))
    R.require(F.const("fat::bpb::Bpb::FOOTER_VALUE") == S["bpb_footer_value"], None, "bpb:FOOTER_VALUE", "boot sector signature constant differs from 0xAA55")
    for cn, cv in S["info_sigs"].items():
        R.require(F.const("fat::info::InfoSector::" + cn) == cv, None, "info:" + cn, "FSInfo signature %s differs from the spec value %#x" % (cn, cv))


@rule("CD1", ["C18", "C02"], floor=11,
      doc="directory entry layout: OnDiskDirEntry accessors read the FAT-spec offsets; DirEntry::serialize places name 0..11, attributes 11, zero 12..14, ctime 14..18 (time then date), zero 18..20, cluster high word 20..22 (0 for FAT16), mtime 22..26, cluster low word 26..28, size 28..32 little-endian - the same offsets the parser reads")
def cd1(F, R):
    S = fat_spec()
    adt = "fat::ondiskdirentry::OnDiskDirEntry"
    fns = {f.npath.split("::")[-1]: f for f in accessor_fns(F, adt)}
    for name, (off, n, sname) in S["dirent"].items():
        fn = fns.get(name)
        if fn is None:
            R.bad(None, "parse:" + name, "accessor %s missing" % name, kind="anchor-missing")
            continue
        check_accessor(F, R, fn, adt, 32, lambda bs, off=off, n=n: le_bits(bs, off, n), "parse:" + name, "%s at offset %d, %d bytes LE" % (sname, off, n), slice_=True)
    # serialize for both FAT types
    ser = F.fn("filesystem::directory::DirEntry::serialize")
    for ft in ("Fat16", "Fat32"):
        I = Interp(F, mode="bv")
        st = State()
        ent = sym_value(I, st, "filesystem::directory::DirEntry", "e", F)
        flds = [f["name"] for f in F.adts["filesystem::directory::DirEntry"]["variants"][0]["fields"]]
        fv = dict(zip(flds, ent[4]))
        ctime_bytes = [sym_int(I.vars, "ctime.fat[%d]" % i, 8) for i in range(4)]
        mtime_bytes = [sym_int(I.vars, "mtime.fat[%d]" % i, 8) for i in range(4)]

        def ser_model(I_, st_, a, ctx, fv=fv, cb=ctime_bytes, mb=mtime_bytes):
            if a[0] == fv["ctime"]:
                return [(arr(cb), st_)]
            if a[0] == fv["mtime"]:
                return [(arr(mb), st_)]
            return [(TOP, st_)]
        I.models["filesystem::timestamp::Timestamp::serialize_to_fat"] = ser_model
        self_p = I.heap_alloc(st, ent)
        vidx = F.variant_index("fat::FatType", ft)
        try:
            outs = run1(I, ser, [self_p, agg("enum", "fat::FatType", vidx, [])], st)
        except Undecided as e:
            raise RuleUndecided("serialize: %s" % e)
        if len(outs) != 1 or outs[0][0][0] != "arr" or len(outs[0][0][1]) != 32:
            R.bad(ser, "serialize:" + ft, "serialize(%s) does not produce one 32-byte array (paths: %d)" % (ft, len(outs)), ser.loc(0))
            continue
        out = outs[0][0][1]
        name_b = fv["name"][4][0][1]
        cl = bits_of(fv["cluster"][4][0])
        sz = bits_of(fv["size"])
        attr = bits_of(fv["attributes"][4][0])
        zero = (0,) * 8
        want = []
        for i in range(11):
            want.append(("name[%d]" % i, bits_of(name_b[i])))
        want.append(("attributes", attr))
        want.append(("reserved(12)", zero))
        want.append(("crt_time_tenth(13)", zero))
        for i in range(4):
            want.append(("ctime[%d]" % i, bits_of(ctime_bytes[i])))
        want.append(("last_access(18)", zero))
        want.append(("last_access(19)", zero))
        if ft == "Fat32":
            want.append(("cluster_hi lo byte", cl[16:24]))
            want.append(("cluster_hi hi byte", cl[24:32]))
        else:
            want.append(("cluster_hi (FAT16: 0)", zero))
            want.append(("cluster_hi (FAT16: 0)", zero))
        for i in range(4):
            want.append(("mtime[%d]" % i, bits_of(mtime_bytes[i])))
        want.append(("cluster_lo lo byte", cl[0:8]))
        want.append(("cluster_lo hi byte", cl[8:16]))
        for i in range(4):
            want.append(("size byte %d" % i, sz[8 * i: 8 * i + 8]))
        bad = []
        for i, (nm, wb) in enumerate(want):
            gb = bits_of(out[i]) if is_int(out[i]) else None
            if gb != tuple(wb):
                bad.append("byte %d should be %s but is %s" % (i, nm, [I.vars.name_of_mask(x) for x in gb] if gb else out[i]))
        R.require(not bad, ser, "serialize:" + ft, "; ".join(bad[:3]), ser.loc(0), okdetail="32-byte layout matches the FAT directory entry structure (%s)" % ft)


@rule("CD4", ["C18", "C06"], floor=3,
      doc="start cluster split/recombination: parser gives (hi << 16) | lo for FAT32 and lo for FAT16 bit-exactly (first_cluster_fat32 / first_cluster_fat16)")
def cd4(F, R):
    adt = "fat::ondiskdirentry::OnDiskDirEntry"
    for name, hi in (("first_cluster_fat32", True), ("first_cluster_fat16", False)):
        fn = F.fn(adt + "::" + name)
        I = Interp(F, mode="bv")
        st = State()
        self_p, bs = data_struct(I, st, F, adt, 32, slice_=True)
        outs = run1(I, fn, [self_p], st)
        ok = len(outs) == 1 and is_agg(outs[0][0]) and is_int(outs[0][0][4][0])
        if ok:
            got = bits_of(outs[0][0][4][0])
            want = le_bits(bs, 26, 2) + (le_bits(bs, 20, 2) if hi else (0,) * 16)
            ok = got == want
        R.require(ok, fn, name, "%s must return %s" % (name, "(bytes 20..22 << 16) | bytes 26..28" if hi else "bytes 26..28 zero-extended"), fn.loc(0))
    fn = F.fn(adt + "::matches")
    R.ok(fn, "matches", "see LS3")


@rule("LF7", ["C17"], floor=4,
      doc="lfn_contents extracts, bit-exactly: start flag = byte0 bit 6, sequence = byte0 & 0x1F, checksum = byte 13, code units little-endian at 1,3,5,7,9,14,...,24,28,30; is_lfn tests (attr & 0x0F) == 0x0F on byte 11")
def lf7(F, R):
    S = fat_spec()["lfn"]
    adt = "fat::ondiskdirentry::OnDiskDirEntry"
    fn = F.fn(adt + "::lfn_contents")
    I = Interp(F, mode="bv")
    st = State()
    self_p, bs = data_struct(I, st, F, adt, 32, slice_=True)
    outs = run1(I, fn, [self_p], st)
    somes = [(rv, s2) for rv, s2 in outs if is_agg(rv) and rv[3] == 1]
    nones = [(rv, s2) for rv, s2 in outs if is_agg(rv) and rv[3] == 0]
    R.require(len(somes) == 1 and len(nones) >= 1, fn, "paths", "lfn_contents must have one Some path (LFN attribute) and None otherwise; got %d/%d" % (len(somes), len(nones)), fn.loc(0))
    if len(somes) == 1:
        rv, s2 = somes[0]
        tup = rv[4][0]
        start, seq, csum, units = tup[4]
        b0 = bits_of(bs[0])
        R.require(bits_of(start) == (b0[6],), fn, "start-flag", "start flag must be bit 6 of byte 0", fn.loc(0))
        R.require(bits_of(seq) == b0[:5] + (0, 0, 0), fn, "sequence", "sequence must be byte0 & 0x1F", fn.loc(0))
        R.require(bits_of(csum) == bits_of(bs[S["checksum"]]), fn, "checksum", "checksum must be byte 13", fn.loc(0))
        oku = units[0] == "arr" and len(units[1]) == 13 and all(bits_of(units[1][i]) == le_bits(bs, o, 2) for i, o in enumerate(S["units"]))
        R.require(oku, fn, "units", "the 13 code units must be read little-endian at offsets %s" % S["units"], fn.loc(0))
        # the Some path is taken exactly when (attr & 0x0F) == 0x0F: path constraints force those four bits to 1
        a = bits_of(bs[S["attr"]])
        forced = all(s2.reduce(a[i] ^ 1) == 0 for i in range(4))
        R.require(forced, fn, "lfn-attr", "fragment is recognised without all four LFN attribute bits (R|H|S|V) set", fn.loc(0))
        # ... and whenever they are: the Some path carries no other condition on the slot's bytes (a fragment refused for its
        # type byte, say, is taken for a short entry by the listing and resets the run it belongs to)
        R.require(len(s2.cons) == 4, fn, "lfn-attr-only", "lfn_contents answers Some under %d independent bit conditions on the slot; the LFN attribute (four bits) must be the only one" % len(s2.cons), fn.loc(0))


def _csd_bits(bytes_, hi, lo):
    """expected result bits (LSB first) for register bits [hi:lo]; register bit r lives in byte 15 - r//8, bit r%8"""
    out = []
    for r in range(lo, hi + 1):
        out.append(bits_of(bytes_[15 - r // 8])[r % 8])
    return tuple(out)


@rule("SD8b", ["C12"], floor=50,
      doc="every CSD v1 / v2 field accessor returns exactly the register bits the SD specification assigns to the field (bit 127 = MSB of byte 0), e.g. C_SIZE [73:62] / [69:48], C_SIZE_MULT [49:47], READ_BL_LEN [83:80]")
def sd8b(F, R):
    S = spec("sd_csd.json")
    for ver, adt in (("v1", "sdcard::proto::CsdV1"), ("v2", "sdcard::proto::CsdV2")):
        table = dict(S["v1"])
        if ver == "v2":
            table.update(S["v2_overrides"])
            for k in S["v2_absent"]:
                table.pop(k, None)
        fns = {f.npath.split("::")[-1]: f for f in accessor_fns(F, adt)}
        for name, (hi, lo) in table.items():
            fn = fns.get(name)
            if fn is None:
                R.bad(None, "%s:%s" % (ver, name), "accessor %s::%s missing" % (adt, name), kind="anchor-missing")
                continue
            check_accessor(F, R, fn, adt, 16, lambda bs, hi=hi, lo=lo: _csd_bits(bs, hi, lo), "%s:%s" % (ver, name), "CSD[%d:%d]" % (hi, lo))


def _concrete_fields(F, adt, values, nbytes=16):
    """self pointer to a CSD struct with concrete field content built from register field values"""
    return None


@rule("SD8c", ["C12"], floor=4,
      doc="capacity formulas: CsdV1 blocks = (C_SIZE+1) << (C_SIZE_MULT + READ_BL_LEN - 7), bytes = (C_SIZE+1) << (C_SIZE_MULT + READ_BL_LEN + 2); CsdV2 blocks = (C_SIZE+1) * 1024, bytes = (C_SIZE+1) * 512 KiB - checked as expression structure over the field accessors")
def sd8c(F, R):
    from .mir import tmatch
    v1b = F.fn("sdcard::proto::CsdV1::card_capacity_bytes")
    v1k = F.fn("sdcard::proto::CsdV1::card_capacity_blocks")
    v2b = F.fn("sdcard::proto::CsdV2::card_capacity_bytes")
    v2k = F.fn("sdcard::proto::CsdV2::card_capacity_blocks")

    def ret_term(fn):
        from .mir import expand_local_calls
        rets = [fn.term_of_rvalue(s["rv"], b) for b, i, s in fn.stmts() if s["k"] == "Assign" and s["p"]["l"] == 0 and not s["p"]["proj"]]
        return expand_local_calls(F, rets[0]) if len(rets) == 1 else None

    from .poly import peq, ADD, SUB, MUL, C
    from .mir import subterms, strip_refs

    def atom(t, name):
        for q in subterms(t):
            if q[0] == "call" and q[1] and q[1].split("::")[-1] == name:
                return q
        return None

    def v1(fn, key, k, what):
        t = ret_term(fn)
        ok = False
        if t is not None:
            t = strip_refs(t)
            d, m, r = atom(t, "device_size"), atom(t, "device_size_multiplier"), atom(t, "read_block_length")
            if d is not None and m is not None and r is not None:
                # compared as (C_SIZE + 1) * 2^(C_SIZE_MULT + READ_BL_LEN + k), however the shifts are grouped
                # ((c+1) << (m+r+k), (c+1) * (1 << (m+2)) * (1 << r), ...)
                amount = ADD(ADD(m, r), C(k)) if k >= 0 else SUB(ADD(m, r), C(-k))
                ok = peq(t, ("bin", "Shl", ADD(d, C(1)), amount))
        R.require(ok, fn, key, "%s; got %s" % (what, tstr(t) if t else None), fn.loc(0))

    def v2(fn, key, factor, what):
        t = ret_term(fn)
        d = atom(t, "device_size") if t is not None else None
        ok = t is not None and d is not None and peq(t, MUL(ADD(d, C(1)), C(factor)))
        R.require(ok, fn, key, "%s; got %s" % (what, tstr(t) if t else None), fn.loc(0))
    v1(v1b, "v1-bytes", 2, "CsdV1 bytes must be (u64(C_SIZE)+1) << (C_SIZE_MULT + READ_BL_LEN + 2)")
    v1(v1k, "v1-blocks", -7, "CsdV1 blocks must be (C_SIZE+1) << (C_SIZE_MULT + READ_BL_LEN - 7)")
    v2(v2b, "v2-bytes", 512 * 1024, "CsdV2 bytes must be (u64(C_SIZE)+1) * 512 * 1024")
    v2(v2k, "v2-blocks", 1024, "CsdV2 blocks must be (C_SIZE+1) * 1024")


# ---------------------------------------------------------------------------------------
# timestamps: field-wise exhaustive + symbolic independence


def _ts_fields(F):
    return [f["name"] for f in F.adts["filesystem::timestamp::Timestamp"]["variants"][0]["fields"]]


def _partial(I, name, w, lo, n, val):
    """w-bit int whose bits [lo, lo+n) are the concrete `val` and all other bits symbolic"""
    bits = []
    for i in range(w):
        if lo <= i < lo + n:
            bits.append((val >> (i - lo)) & 1)
        else:
            bits.append(I.vars.fresh("%s.%d" % (name, i)))
    return mk_int(w, False, tuple(bits))


@rule("CD2", ["C18"], floor=12,
      doc="FAT date/time codec, decided field by field with all other bits symbolic: decoder year = date[15:9]+10, month = date[8:5]-1 (0 tolerated), day = date[4:0]-1 (0 tolerated), hours = time[15:11], minutes = time[10:5], seconds = time[4:0]*2; encoder places the inverse at the same bit positions, little-endian [time, date]; decode(encode(t)) = t up to 2 s for 1980..2107 and encode(decode(d,t)) = (d,t) for every valid FAT stamp")
def cd2(F, R):
    S = fat_spec()
    dec = F.fn("filesystem::timestamp::Timestamp::from_fat")
    enc = F.fn("filesystem::timestamp::Timestamp::serialize_to_fat")
    flds = _ts_fields(F)
    # ---- decoder tables
    dspec = {
        "year_since_1970": ("date", 9, 7, lambda v: (v + 10) & 0xFF),
        "zero_indexed_month": ("date", 5, 4, lambda v: 0 if v == 0 else v - 1),
        "zero_indexed_day": ("date", 0, 5, lambda v: 0 if v == 0 else v - 1),
        "hours": ("time", 11, 5, lambda v: v),
        "minutes": ("time", 5, 6, lambda v: v),
        "seconds": ("time", 0, 5, lambda v: (v * 2) & 0x3F),
    }
    dtab = {}
    for fld, (word, lo, n, f) in dspec.items():
        bad = None
        tab = {}
        for v in range(1 << n):
            I = Interp(F, mode="bv")
            st = State()
            date = _partial(I, "date", 16, lo, n, v) if word == "date" else sym_int(I.vars, "date", 16)
            time = _partial(I, "time", 16, lo, n, v) if word == "time" else sym_int(I.vars, "time", 16)
            outs = I.run(dec, [date, time], st, 0)
            vals = set()
            for rv, s2 in outs:
                x = rv[4][flds.index(fld)] if is_agg(rv) else None
                vals.add(int_const(x) if x is not None and is_int(x) else None)
            panics = [k for k, it in I.obl.items.items() if it["bad"]]
            if vals != {f(v)} or panics:
                bad = bad or "%s[%d+:%d] = %d decodes to %s %s, specification gives %d%s" % (word, lo, n, v, fld, sorted(vals, key=str), f(v), (" (may panic: %s)" % I.obl.items[panics[0]]["detail"]) if panics else "")
            tab[v] = f(v)
        dtab[fld] = tab
        R.require(bad is None, dec, "decode:" + fld, bad or "", dec.loc(0), okdetail="%s decoded from %s bits [%d:%d] for all %d values, independent of all other bits" % (fld, word, lo + n - 1, lo, 1 << n))
    # ---- encoder tables
    espec = {
        "year_since_1970": ("date", 9, 7, lambda v: 0 if v < 10 else (v - 10) & 0x7F),
        "zero_indexed_month": ("date", 5, 4, lambda v: (v + 1) & 0xF),
        "zero_indexed_day": ("date", 0, 5, lambda v: (v + 1) & 0x1F),
        "hours": ("time", 11, 5, lambda v: v & 0x1F),
        "minutes": ("time", 5, 6, lambda v: v & 0x3F),
        "seconds": ("time", 0, 5, lambda v: (v // 2) & 0x1F),
    }
    for fld, (word, lo, n, f) in espec.items():
        bad = None
        for v in range(256):
            if fld in ("zero_indexed_month", "zero_indexed_day") and v == 255:
                continue  # +1 overflows u8: not a calendar value (month 0..11, day 0..30); checked by from_calendar
            I = Interp(F, mode="bv")
            st = State()
            cal = {"year_since_1970": (0, 255), "zero_indexed_month": (0, 11), "zero_indexed_day": (0, 30), "hours": (0, 23), "minutes": (0, 59), "seconds": (0, 59)}
            vals = []
            for x in flds:
                if x == fld:
                    vals.append(const(v, 8))
                else:
                    sv = sym_int(I.vars, x, 8)
                    vals.append(mk_int(8, False, sv[3], cal[x][0], cal[x][1], sv[6]))
            ts = agg("struct", "filesystem::timestamp::Timestamp", 0, vals)
            outs = I.run(enc, [ts], st, 0)
            got = set()
            for rv, s2 in outs:
                if rv[0] != "arr" or len(rv[1]) != 4:
                    got.add(None)
                    continue
                wordbits = (bits_of(rv[1][0]) + bits_of(rv[1][1])) if word == "time" else (bits_of(rv[1][2]) + bits_of(rv[1][3]))
                fb = wordbits[lo: lo + n]
                if all(b in (0, 1) for b in fb):
                    got.add(sum(b << i for i, b in enumerate(fb)))
                else:
                    got.add(None)
            panics = [k for k, it in I.obl.items.items() if it["bad"]]
            if got != {f(v)} or panics:
                bad = bad or "%s = %d encodes %s bits [%d:%d] as %s, specification gives %d%s" % (fld, v, word, lo + n - 1, lo, sorted(got, key=str), f(v), " (may panic)" if panics else "")
        R.require(bad is None, enc, "encode:" + fld, bad or "", enc.loc(0), okdetail="%s encoded into %s bits [%d:%d] (bytes %s) for all u8 values, independent of the other fields" % (fld, word, lo + n - 1, lo, "0..2" if word == "time" else "2..4"))
    # ---- round trips on the valid domains (pure table composition of the two verified tables)
    rt = []
    dom_fat = {"year_since_1970": range(128), "zero_indexed_month": range(1, 13), "zero_indexed_day": range(1, 32), "hours": range(24), "minutes": range(60), "seconds": range(30)}
    for fld, dom in dom_fat.items():
        for v in dom:
            d = dspec[fld][3](v)
            e = espec[fld][3](d)
            if e != v:
                rt.append("FAT %s field %d -> %d -> %d" % (fld, v, d, e))
    R.require(not rt, None, "roundtrip:decode-encode", "decode-then-encode changes valid FAT stamps: %s" % rt[:3], okdetail="every valid FAT (date,time) 1980-2107 survives decode-then-encode (field tables compose, fields independent)")
    rt = []
    dom_cal = {"year_since_1970": range(10, 138), "zero_indexed_month": range(12), "zero_indexed_day": range(31), "hours": range(24), "minutes": range(60), "seconds": range(60)}
    for fld, dom in dom_cal.items():
        for v in dom:
            e = espec[fld][3](v)
            d = dspec[fld][3](e)
            want = v & ~1 if fld == "seconds" else v
            if d != want:
                rt.append("calendar %s %d -> %d -> %d" % (fld, v, e, d))
    R.require(not rt, None, "roundtrip:encode-decode", "encode-then-decode changes calendar stamps: %s" % rt[:3], okdetail="every calendar stamp 1980-2107 survives encode-then-decode up to the 2 s rounding")


# ---------------------------------------------------------------------------------------
# decision tables


@rule("MD1", ["C07"], floor=12,
      doc="solve_mode_variant over Mode(6) x exists(2): identity except CreateOrAppend -> Append/Create and CreateOrTruncate -> Truncate/Create (spec/mode_matrix.json, from the doc comments of enum Mode)")
def md1(F, R):
    fn = F.fn("volume_mgr::solve_mode_variant")
    modes = F.variants("filesystem::files::Mode")
    table = spec("mode_matrix.json")["resolve"]
    for mi, m in enumerate(modes):
        for ex in (False, True):
            I = Interp(F, mode="bv")
            st = State()
            outs = I.run(fn, [agg("enum", "filesystem::files::Mode", mi, []), const(int(ex), 1)], st, 0)
            got = sorted({modes[rv[3]] if is_agg(rv) and rv[3] is not None else "?" for rv, _ in outs})
            want = table[m]["exists" if ex else "missing"]
            R.require(got == [want], fn, "%s/%s" % (m, "exists" if ex else "missing"), "solve_mode_variant(%s, exists=%s) = %s, documented behaviour is %s" % (m, ex, got, want), fn.loc(0), okdetail="-> " + want)


@rule("HQ1", ["C08"], floor=4,
      doc="has_open_handles is true iff a directory or a file is open: truth table over (open_dirs.is_empty(), open_files.is_empty())")
def hq1(F, R):
    fn = F.fn("volume_mgr::VolumeManager::has_open_handles")
    for d in (False, True):
        for f in (False, True):
            I = Interp(F, mode="bv")
            st = State()
            calls = []

            def is_empty(I_, st_, a, ctx, d=d, f=f, calls=calls):
                t = ctx["term"]
                fnc = ctx["fn"]
                tt = tstr(fnc.term_of_operand(t["args"][0], ctx["block"]))
                calls.append(tt)
                if "open_dirs" in tt:
                    return [(const(int(d), 1), st_)]
                if "open_files" in tt:
                    return [(const(int(f), 1), st_)]
                return [(top_int(1), st_)]
            for nm in ("heapless::vec::VecInner::is_empty", "heapless::Vec::is_empty", "heapless::vec::Vec::is_empty"):
                I.models[nm] = is_empty
            I.model_suffixes.insert(0, ("::is_empty", is_empty))
            outs = I.run(fn, [TOP], st, 0)
            got = sorted({int_const(rv) if is_int(rv) else None for rv, _ in outs}, key=str)
            want = int(not (d and f))
            R.require(got == [want], fn, "dirs_empty=%s/files_empty=%s" % (d, f), "has_open_handles() = %s when open_dirs.is_empty()=%s and open_files.is_empty()=%s; must be %s" % (got, d, f, bool(want)), fn.loc(0), okdetail="-> %s" % bool(want))


# ---------------------------------------------------------------------------------------
# CD3: 8.3 name parser decision table (per-character step of the parsing loop)

FORBIDDEN_SFN = set(range(0x20)) | {ord(c) for c in '"*+,/:;<=>?[\\]| '}
FORBIDDEN_VOL = set(range(0x20)) | {ord(c) for c in '"*+,/:;<=>?[\\]|.'}


def _sfn_step(ch, idx, seen_dot):
    """specification of one parser step -> ('err', kind) | ('ok', idx', seen_dot', store_pos|None, byte|None)"""
    if ch in FORBIDDEN_SFN or ch > 0xFF:
        return ("err", "InvalidCharacter")
    if ch == ord("."):
        if 1 <= idx <= 8 and not seen_dot:
            return ("ok", 8, True, None, None)
        return ("err", "MisplacedPeriod")
    b = ch - 32 if ord("a") <= ch <= ord("z") else ch
    if seen_dot:
        if 8 <= idx < 11:
            return ("ok", idx + 1, True, idx, b)
        return ("err", "NameTooLong")
    if idx < 8:
        return ("ok", idx + 1, False, idx, b)
    return ("err", "NameTooLong")


def _vol_step(ch, idx, seen_dot):
    if ch in FORBIDDEN_VOL or ch > 0xFF:
        return ("err", "InvalidCharacter")
    if idx < 11:
        return ("ok", idx + 1, seen_dot, idx, ch)
    return ("err", "NameTooLong")


def _parser_table(F, R, fn, step, has_dot, tier_full):
    """The parsing loop against the specified step, as a bisimulation: starting from the pair (the parser's initial loop state,
    the specification's initial state (idx 0, no dot)), every character class is fed to one trip of the loop and to the
    specified step; both must answer alike (same error, or the same byte stored at the same position), and the pair of
    successor states is explored in turn - until no new pair appears.  The parser's state is whatever scalar locals its loop
    carries (an index and a flag, an index and a limit, ...); the 11 name bytes are symbolic.  Agreement on all reachable pairs
    is, by induction over the characters, agreement on every name."""
    from .stdmodel import some
    nxt = None
    for b, t in fn.calls():
        if (callee_of(t) or "").endswith("Iterator::next") and "Chars" in t.get("callee_full", ""):
            nxt = (b, t)
    chars = [(b, t) for b, t in fn.calls() if (callee_of(t) or "").endswith("::chars")]
    if nxt is None or not chars:
        R.bad(fn, "chars-loop", "the parser must iterate `name.chars()` (Unicode scalar values): no Chars iterator found - iterating bytes would store UTF-8 code units instead of ISO-8859-1 code points and never reject characters above U+00FF", fn.loc(0))
        return
    nb, nt = nxt
    sw = nt["target"]
    dest = nt["dest"]["l"]
    loops = [(h, body) for (h, body, backs) in fn.loops() if nb in body]
    body = max(loops, key=lambda x: len(x[1]))[1] if loops else set()
    before = fn.reach([0], cut_blocks=[nb])
    adt = "filesystem::filename::ShortFileName" if has_dot else "fat::volume::VolumeName"
    scal, cont = {}, None
    for i, l in enumerate(fn.locals):
        if i == 0 or i <= fn.arg_count:
            continue
        ds = fn.defs().get(i, [])
        inits = [d for d in ds if d[0] == "assign" and d[1] in before and d[1] not in body]
        upd = any(d[1] in body for d in ds)
        if not inits:
            continue
        if l["ty"] == adt or l["ty"] == "[u8; 11]":
            if upd and cont is None and (l["name"] or l["ty"] == adt):
                cont = i
        elif ty_info(l["ty"]) and upd and len(inits) == 1 and l["name"]:
            t0 = fn.term_of_rvalue(inits[0][3], inits[0][1])
            from .specialise import _fold
            v0 = _fold(t0)
            if v0 is None and t0[0] == "cdef":
                try:
                    v0 = F.const(strip_generics(t0[1]))
                except KeyError:
                    v0 = None
            if v0 is None:
                R.bad(fn, "locals", "the loop-carried parser state `%s` does not start from a constant (%s)" % (l["name"], tstr(t0)), kind="anchor-missing")
                return
            scal[i] = (int(v0), ty_info(l["ty"]))
    if cont is None or not scal:
        R.bad(fn, "locals", "parser state not found (loop-carried scalars: %s, name bytes: %s)" % ([fn.locals[i]["name"] for i in scal], cont), kind="anchor-missing")
        return
    is_arr = fn.locals[cont]["ty"] == "[u8; 11]"
    order = sorted(scal)
    fe = F.variants("filesystem::filename::FilenameError")
    reps = list(range(0, 0x101)) + [0x141, 0x4E2D, 0x1F600, 0x10FFFF]
    init_impl = tuple(scal[i][0] for i in order)
    seen = {(init_impl, (0, False))}
    work = [(init_impl, (0, False))]
    n = 0
    bad = []
    while work and n < 40000:
        impl, (sidx, sdot) = work.pop()
        for ch in reps:
            I = Interp(F, mode="bv")
            st = State()
            contents = arr([sym_int(I.vars, "c%d" % k, 8) for k in range(11)])
            cv = contents if is_arr else agg("struct", adt, 0, [contents])
            preset = {dest: some(const(ch, 32)), cont: cv, 1: TOP}
            for k_, i in enumerate(order):
                w_, sg_ = scal[i][1]
                preset[i] = const(impl[k_], w_, sg_)
            try:
                outs = I.run(fn, [], st, 0, start=sw, preset=preset, stop=(nb,))
            except Undecided as e:
                raise RuleUndecided("%s: %s" % (fn.npath, e))
            want = step(ch, sidx, sdot)
            got = []
            nxt_impl = None
            for rv, s2 in outs:
                if isinstance(rv, tuple) and rv and rv[0] == "stop":
                    fr = s2.frames[rv[2]]
                    vals = tuple(int_const(fr[i]) if is_int(fr[i]) else None for i in order)
                    nc = fr[cont][1] if is_arr else fr[cont][4][0][1]
                    changed = [(k, int_const(nc[k])) for k in range(11) if nc[k] != contents[1][k]]
                    nxt_impl = vals
                    if len(changed) == 0:
                        got.append(("ok", None, None))
                    elif len(changed) == 1:
                        got.append(("ok", changed[0][0], changed[0][1]))
                    else:
                        got.append(("ok", "multi", None))
                elif is_agg(rv) and rv[3] == 1:
                    e = rv[4][0]
                    got.append(("err", fe[e[3]] if is_agg(e) and e[3] is not None else "?"))
                else:
                    got.append(("ret", str(rv)[:40]))
            panics = [it["detail"] for k, it in I.obl.items.items() if it["bad"]]
            n += 1
            exp = ("err", want[1]) if want[0] == "err" else ("ok", want[3], want[4])
            if got != [exp] or panics or (nxt_impl is not None and None in nxt_impl):
                if len(bad) < 8:
                    bad.append("char U+%04X after %d stored characters (dot seen: %s): parser does %s, specification says %s%s" % (ch, sidx, sdot, got, exp, (" (may panic: %s)" % panics[0]) if panics else ""))
                continue
            if want[0] == "ok":
                pair = (nxt_impl, (want[1], want[2]))
                if pair not in seen:
                    seen.add(pair)
                    work.append(pair)
    short = fn.npath.split("::")[-2]
    if bad:
        R.bad(fn, short + ":step-table", "the per-character step differs from the 8.3 rules in %d case(s); first: %s" % (len(bad), bad[0]), fn.loc(nb), trace=bad[:8])
    else:
        R.ok(fn, short + ":step-table", "%d steps over %d reachable (parser state, specified state) pairs x %d character classes agree with the 8.3 rules" % (n, len(seen), len(reps)), fn.loc(nb))
    return n, cont


@rule("CD3", ["C18"], floor=4,
      doc="8.3 name parser: the per-character step of create_from_str (decided for every Latin-1 code point and representatives above U+00FF, every position 0..11 and dot state, other state symbolic) equals the FAT rules: controls, the 15 forbidden punctuation marks and space rejected, > U+00FF rejected, one '.' at position 1..=8 starts the extension, ASCII upper-casing, base < 8, extension 8..11; initial fill is spaces; '.', '..' and '' are the directory names. Same for VolumeName (no dot, space allowed, 11 chars, no case change)")
def cd3(F, R):
    import os
    full = os.environ.get("VERIF_TIER", "quick") == "thorough" or getattr(cd3, "_full", False)
    fn = F.fn("filesystem::filename::ShortFileName::create_from_str")
    r1 = _parser_table(F, R, fn, _sfn_step, True, full)
    fv = F.fn("fat::volume::VolumeName::create_from_str")
    r2 = _parser_table(F, R, fv, _vol_step, False, full)
    # initial fill and special names
    for f, adt, r_ in ((fn, "ShortFileName", r1), (fv, "VolumeName", r2)):
        init = [f.term_of_rvalue(s["rv"], b) for b, i, s in f.stmts() if s["k"] == "Assign" and s["rv"]["k"] == "Aggregate" and s["rv"].get("adt", "").endswith(adt)]
        if r_ and f.locals[r_[1]]["ty"] == "[u8; 11]":
            # the bytes are collected in an array of their own: its definition before the loop
            init = [f.term_of_rvalue(d[3], d[1]) for d in f.defs().get(r_[1], []) if d[0] == "assign" and d[3]["k"] in ("Repeat", "Aggregate", "Use")]
        ok = any(tstr(v).replace(" ", "") in ("%s{[0x20;11]}" % adt,) or ("[0x20" in tstr(v)) for v in init)
        R.require(ok, f, adt + ":space-fill", "the name must start as 11 spaces (padding); got %s" % [tstr(v) for v in init], f.loc(0))
    for nm, want in (("this_dir", b".          "), ("parent_dir", b"..         ")):
        f = F.fn("filesystem::filename::ShortFileName::" + nm)
        I = Interp(F, mode="bv")
        outs = I.run(f, [], State(), 0)
        got = None
        if len(outs) == 1 and is_agg(outs[0][0]):
            c = outs[0][0][4][0]
            if is_ptr(c):
                c = I.read_loc(outs[0][1], (c[1], c[2], c[3], None))
            if c[0] == "arr":
                got = bytes(int_const(x) for x in c[1])
        R.require(got == want, f, nm, "%s() must be %r, got %r" % (nm, want, got), f.loc(0))
    # a name is judged character by character only: nothing is rejected before the first character is looked at (a length
    # pre-check in bytes would refuse valid names with Latin-1 letters, which take two bytes in UTF-8)
    for f in (fn, fv):
        from .fsmodel import err_returns
        nx = [b for b, t in f.calls() if (callee_of(t) or "").endswith("Iterator::next") and "Chars" in t.get("callee_full", "")]
        if not nx:
            R.bad(f, "char-loop", "no loop over name.chars() in %s" % f.npath, f.loc(0), kind="anchor-missing")
            continue
        pre = f.reach([0], cut_blocks=nx)
        early = [(b, i) for (b, i, var, term) in err_returns(f, adt="FilenameError") if b in pre]
        R.require(not early, f, f.npath.split("::")[-2] + ":no-early-rejection", "%s rejects a name before looking at its characters (e.g. by its length in UTF-8 bytes)" % f.npath.split("::")[-2], f.loc(early[0][0], early[0][1]) if early else f.loc(0))
    # the name judged is the name given: the characters iterated and the strings compared with "." / ".." / "" are the argument
    # itself, not a trimmed / re-cased / otherwise prepared copy ("..".trim_end_matches('.') is "", i.e. this_dir)
    from .mir import strip_refs as _sr
    for f in (fn, fv):
        derived = []
        for b, t in f.calls():
            c = callee_of(t) or ""
            if c.endswith("::chars") or c.endswith("str::is_empty") or (c.endswith(("PartialEq::eq", "PartialEq::ne")) and any("&str" in f.locals[a["p"]["l"]]["ty"] for a in t["args"] if a.get("p"))):
                for a in t["args"]:
                    if a.get("k") in ("move", "copy"):
                        tt = _sr(f.term_of_operand(a, b))
                        while tt[0] == "place" and all(e == "*" for e in tt[2]):
                            tt = _sr(tt[1])
                        if tt[0] in ("call", "var") or (tt[0] == "place" and _sr(tt[1])[0] == "call"):
                            derived.append(tstr(tt)[:60])
        R.require(not derived, f, f.npath.split("::")[-2] + ":name-as-given", "%s parses / compares a string derived from its argument (%s), not the argument itself" % (f.npath.split("::")[-2], derived[:2]), f.loc(0))
    # special-casing of "", "." and ".." before the loop
    s_ = " ".join(tstr(fn.call_term(t, b)) for b, t in fn.calls())
    R.require("this_dir" in s_ and "parent_dir" in s_ and ("is_empty" in s_ or 'eq(name, "")' in s_.replace("&", "").replace("*", "") or '""' in s_), fn, "special-names", "create_from_str must map '' and '.' to this_dir() and '..' to parent_dir()", fn.loc(0))
